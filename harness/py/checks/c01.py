"""C01 - Relocated values are correct at run time.

1. TLC, exhaustive: the single-site decision table of specs/Reloc.tla (16 symbol kinds x 25 x86-64
   reference kinds x 5 output kinds x section writability x relax x pack-relative-relocs, 4516
   applicable cases): the declarative psABI rule and the transcription of wild's relax / process /
   write phases agree on every case except the named deviations, no deviation is stale; a
   deliberately wrong declarative rule must be caught (anti-vacuity).  One REPLAY record per case.
   A second, pruned product of two sites on one symbol.
2. Replay (R) + observation (O): every sampled (quick) / every (thorough) record becomes a 2-3 object
   program (GNU as; helper library and driver linked by GNU ld), linked by the real wild; the
   harness's loader model (vlib/loader.py) maps it at two base sets (link-time and
   0x55d5_2b5f_7000 / 0x7f12_3456_7000), applies the output's dynamic relocations, and reads the
   site's semantic value (field, designated GOT slot, function reached through PLT stubs, TLS
   offset / module+offset).  The values, with S / P / GOT / TP taken from markers, are judged by
   TLC with Reloc!PsabiValue (LoaderObs.tla).  The program is also executed natively (ASLR bases,
   system ld.so / libc start-up code): it checks the identity word through the value it computes.
   GNU ld links the same objects as a sanity oracle of the program and of the observer.
3. AArch64: static relocation kinds, assembled by clang, linked by wild, decoded statically.
A violation: wild accepted the link and the value observed at run time is not the psABI value
(or the program misbehaves when executed).
"""
import json
import random
import shutil
import struct
from pathlib import Path

from vlib import allocprobe, relocgen as rg, relocrun as rr, tlc
from vlib.asm import assemble
from vlib.common import ToolError, build_wild, log, run_wild, save_replay, scratch, sh, trim_samples
from vlib.loader import LoaderError, MASK64, Process, decode_a64_site, sext

PROP = "C01"
META = {
    "ready": True,
    "level": "model_checking",
    "technique": "TLA+ decision table (psABI rule vs transcription of wild's relocation phases) checked exhaustively by TLC; every enumerated case replayed into the real linker, observed through an independent loader model whose observations are judged by the spec's own formula operator, and executed natively",
    "level_text": "All 4516 applicable single-site cases (16 symbol kinds x 25 x86-64 reference kinds x 5 output kinds x writability x relax x pack-relative-relocs) and a pruned two-sites-per-symbol product are enumerated by TLC; declarative psABI classification and the operational transcription of wild agree on all of them up to named deviations. Every sampled (quick) or every (thorough) case is linked by the real wild; the semantic value of the site after loading at two base sets is compared by TLC with the psABI formula on marker-derived addresses, and the program is executed natively under ASLR.",
    "level_note": "Bound: one or two sites per symbol, 2-3 objects, fixed addends; AArch64 covered only for static relocation kinds by static decoding (no execution). Trusted base: TLC, GNU as, the harness loader model (cross-checked against native execution and against GNU ld outputs), the system ld.so/libc for execution.",
    "engine": "tlc",
}
ACTIONS = ["Relax", "Process", "Write", "Load"]


def model(ctx, cov):
    # (-coverage makes TLC an order of magnitude slower on this operator-heavy module; vacuity is
    # excluded structurally instead: every case must pass through all four phase actions, i.e. the
    # graph has depth 5 and exactly 5 states per emitted record).  The four runs are independent.
    import os
    from concurrent.futures import ThreadPoolExecutor
    cfgs = ["mc/Reloc_full.cfg", "mc/Reloc_pairs.cfg", "mc/Reloc_broken.cfg", "mc/Reloc_oldrelax.cfg"]
    with ThreadPoolExecutor(max_workers=4) as ex:
        r, rp, rb, ro = list(ex.map(lambda c: tlc.run_tlc("MCReloc", c, workers=3, timeout=900, coverage=False,
                                                           name=f"MCReloc.{c.split(chr(47))[-1]}.{os.getpid()}"), cfgs))
    if not r.ok:
        raise ToolError(f"Reloc model check failed: {r.violated} {r.error_text} timeout={r.timed_out}\n{r.trace_text[:3000]}{r.out[-800:]}")
    if len(r.records) < 4000 or r.depth != 5 or r.distinct != 5 * len(r.records):
        raise ToolError(f"vacuous Reloc run: {len(r.records)} records, depth {r.depth}, {r.distinct} states "
                        f"(expected Relax/Process/Write/Load taken once per case)")
    runs = [{"cfg": "mc/Reloc_full.cfg", **r.summary(), "records": len(r.records)}]
    if rb.ok or rb.violated != "InvConform":
        raise ToolError("broken declarative rule was NOT caught by InvConform: the conformance invariant is vacuous")
    runs.append({"cfg": "mc/Reloc_broken.cfg", "expected_violation": rb.violated})
    # the relaxation rules the tree had before 174c817 (REX.W mov of an absolute symbol -> sign-extending
    # imm32, GOTPCREL mov of an absolute symbol -> lea) must be rejected: they are no accepted deviation
    if ro.ok or ro.violated != "InvConform":
        raise ToolError("the old GOT relaxation rules for absolute symbols were NOT rejected by InvConform")
    runs.append({"cfg": "mc/Reloc_oldrelax.cfg", "expected_violation": ro.violated})
    if not rp.ok or rp.depth != 5 or rp.distinct != 5 * len(rp.records):
        raise ToolError(f"Reloc pairs model check failed: {rp.violated} {rp.error_text} depth={rp.depth}\n{rp.trace_text[:2000]}")
    runs.append({"cfg": "mc/Reloc_pairs.cfg", **rp.summary(), "records": len(rp.records)})
    cov["states"] = r.distinct + rp.distinct
    cov["transitions"] = r.generated + rp.generated
    cov["tlc_runs"] = runs
    return r.records, rp.records


def rec_to_case(rec):
    c = {k: rec[k] for k in ("sym", "ref", "out", "secw", "relax", "relr")}
    if rec.get("extra"):
        c["extra"] = list(rec["extra"])
    return c


TLS_SLOT_REFS = ("gottpoff_mov", "tlsgd", "tlsdesc")      # initial-exec slot, module/offset pair, descriptor


def tls_slot_combinations(pairs):
    """Always replayed (quick and thorough): a TLS symbol of a shared object (where nothing is relaxed
    away) that needs every non-empty combination of GOT slot kinds [tpoff][dtpmod,dtpoff][desc], each
    member observed in turn - the address of one slot depends on which of the others exist."""
    import itertools
    idx = {(p["sym"], p["ref"], p["extra"][0], p["out"]): p for p in pairs if p.get("extra")}
    out = []
    for sym in ("tls_def", "tls_imp"):
        for obs in TLS_SLOT_REFS:
            others = [r for r in TLS_SLOT_REFS if r != obs]
            for n in (1, 2):
                for extra in itertools.combinations(others, n):
                    base = idx.get((sym, obs, extra[0], "shared"))
                    if base is None:
                        raise ToolError(f"the pairs model no longer emits ({sym}, {obs}, +{extra[0]}, shared)")
                    rec = dict(base, extra=list(extra))
                    out.append(rec)
    # and in a PIE, where the combinations are partly relaxed (GD -> IE, TLSDESC -> IE for imports)
    for obs, extra in (("tlsdesc", "gottpoff_mov"), ("gottpoff_mov", "tlsdesc"), ("tlsgd", "tlsdesc")):
        base = idx.get(("tls_imp", obs, extra, "pie"))
        if base is not None:
            out.append(dict(base))
    return out


def select(records, pairs, ctx):
    rng = random.Random(ctx.seed)
    if not ctx.quick:
        prng = random.Random(ctx.seed + 1)
        return [rec for rec in records], tls_slot_combinations(pairs) + prng.sample(pairs, min(len(pairs), 1500))
    # quick: every (sym, ref, out) combination class at least... no: stratified sample, every named
    # deviation and every reference kind / symbol kind / output kind represented
    by = {}
    for rec in records:
        by.setdefault((rec["ref"], rec["out"]), []).append(rec)
    chosen = []
    for j, k in enumerate(sorted(by)):
        if k[1] == "staticpie" and (j + ctx.seed) % 2:
            continue                      # libc-based links are ~20x more expensive: half of the strata per seed
        n = 1 if k[1] == "staticpie" else 2
        chosen += rng.sample(by[k], min(n, len(by[k])))
    # where the fixed relaxation defects (174c817) used to show: GOT loads of absolute / undefined weak symbols
    sens = [rec for rec in records if rec["sym"] in ("abs_small", "abs_2g", "abs_4g", "weakundef")
            and rec["ref"] in ("gotpcrel", "rex_gotpcrelx", "gotpcrelx_mov32") and rec["out"] != "staticpie"]
    chosen += rng.sample(sens, min(16, len(sens)))
    sens_sp = [rec for rec in records if rec["sym"] in ("abs_2g", "weakundef") and rec["ref"] in ("gotpcrel", "rex_gotpcrelx")
               and rec["out"] == "staticpie"]
    chosen += rng.sample(sens_sp, min(2, len(sens_sp)))
    devs = {}
    for rec in records:
        if rec["dev"]:
            devs.setdefault((rec["dev"], rec["out"] == "staticpie"), []).append(rec)
    for k in sorted(devs):
        chosen += rng.sample(devs[k], min(1 if k[1] else 3, len(devs[k])))
    seen, out = set(), []
    for rec in chosen:
        key = json.dumps(rec, sort_keys=True)
        if key not in seen:
            seen.add(key)
            out.append(rec)
    return out, tls_slot_combinations(pairs) + rng.sample(pairs, min(len(pairs), 24))


def judge(ctx, results, recs, cov, tag):
    """Feed the site facts to TLC, combine with identity / native results, raise violations."""
    sites = []
    for i, res in enumerate(results):
        if "obs" in res and res["obs"]["facts"]:
            sites.append((i, res["obs"]["facts"]))
    verdict = rr.tlc_judge(sites=sites, name=f"c01{tag}") if sites else {"sites_bad": [], "nsites": 0}
    bad_ids = {b["id"]: b["bad"] for b in verdict["sites_bad"]}
    # the python twin must agree with the specification's evaluation (else the projection is wrong)
    for i, fs in sites:
        py_bad = any(rg.eval_fact(f) != f["lhs"] for f in fs)
        if py_bad != (i in bad_ids):
            raise ToolError(f"python and TLA+ evaluation of the psABI formula disagree on {results[i]['name']}: "
                            f"python={py_bad} tla={bad_ids.get(i)}")
    stats = {"link-ok": 0, "link-wrong": 0, "diag": 0, "allocfail": 0, "unloadable": 0, "other": 0}
    mism = []
    for i, (res, rec) in enumerate(zip(results, recs)):
        real = res["real"]
        stats[real if real in stats else "other"] += 1
        c = res["case"]
        if real in ("panic", "hang") or real.startswith("signal"):
            # not this property's subject (C22); keep it visible
            log(f"C01 note: wild {real} on {res['name']}")
            continue
        pred = rec.get("predicted")
        if rec.get("extra"):
            pred = pred if rec.get("predicted2") in ("link-ok", "") or pred != "link-ok" else rec["predicted2"]
        if pred and real != pred and not (real == "unloadable" and pred == "link-wrong"):
            mism.append({"case": res["name"], "predicted": pred, "real": real})
        if real in ("link-wrong", "unloadable"):
            o = res["obs"]
            # guard against an observer bug: static says wrong, CPU says fine, and GNU ld's output of the
            # same program fails the same static check while running fine too
            if real == "link-wrong" and o["native"] and all(rc == 0 for rc in o["native"]) \
                    and res.get("ld") == "link-wrong" and res.get("ld_native") and all(rc == 0 for rc in res["ld_native"]) \
                    and i in bad_ids:
                raise ToolError(f"observer suspected: {res['name']} fails statically for wild AND GNU ld while both run fine: "
                                f"{o['detail']} / {res.get('ld_detail')}")
            key = rr.case_key(c, "wrong-value")
            text = (f"{res['name']}: link accepted but the run-time value is not the psABI value "
                    f"({rec.get('formula')}; class={rec.get('class')}/{rec.get('reason')}): {o['detail'][:400]}; "
                    f"GNU ld on the same objects: {res.get('ld')} {res.get('ld_err', '').strip()[-120:]}")

            def mk(res=res, rec=rec, o=o):
                return save_replay(PROP, res["name"], src_dir=res["dir"],
                                   meta={"case": res["case"], "spec_record": rec, "wild_args": res["wild_args"],
                                         "observed": {k: v for k, v in o.items() if k != "facts"},
                                         "facts": o["facts"], "ld": res.get("ld"), "ld_detail": res.get("ld_detail")})
            ctx.verdict.report(key, text, mk)
    cov.setdefault("outcomes", {})[tag] = stats
    cov.setdefault("prediction_mismatches", []).extend(mism[:40])
    cov["n_prediction_mismatches" + tag] = len(mism)
    accepted = stats["link-ok"] + stats["link-wrong"] + stats["unloadable"]
    if accepted < len(results) // 3:
        raise ToolError(f"only {accepted} of {len(results)} generated links were accepted by wild: the replay is vacuous")
    return stats, verdict.get("nsites", 0)


# -------------------------------------------------------------------------------------------------
# AArch64: static relocation kinds, static decoding only

A64_SITES = {
    # kind: (section, text with {S}, decode kind, addend)
    "abs64": ("data", "    .xword {S}+8\n", "abs64", 8),
    "abs32": ("data", "    .word {S}+8\n    .word 0\n", "abs32", 8),
    "prel32": ("data", "    .word {S}+8 - .\n    .word 0\n", "prel32", 8),
    "prel64": ("data", "    .xword {S}+8 - .\n", "prel64", 8),
    "call26": ("text", "    bl {S}\n", "call26", 0),
    "jump26": ("text", "    b {S}\n", "jump26", 0),
    "adr_lo21": ("text", "    adr x0, {S}\n", "adr_lo21", 0),
    "adrp_add": ("text", "    adrp x0, {S}\n    add x0, x0, :lo12:{S}\n", "adrp_add", 0),
    "adrp_ldst64": ("text", "    adrp x0, {S}\n    ldr x1, [x0, :lo12:{S}]\n", "adrp_ldst64", 0),
    "adrp_ldst32": ("text", "    adrp x0, {S}\n    ldr w1, [x0, :lo12:{S}]\n", "adrp_ldst32", 0),
    "adrp_ldst8": ("text", "    adrp x0, {S}\n    ldrb w1, [x0, :lo12:{S}]\n", "adrp_ldst8", 0),
    "got": ("text", "    adrp x0, :got:{S}\n    ldr x0, [x0, :got_lo12:{S}]\n", "got", 0),
    "tlsle": ("text", "    add x0, x0, :tprel_hi12:{S}\n    add x0, x0, :tprel_lo12_nc:{S}\n", "tlsle", 0),
    "tlsie": ("text", "    adrp x0, :gottprel:{S}\n    ldr x0, [x0, :gottprel_lo12:{S}]\n", "tlsie", 0),
}
A64_SYMS = {"g_d": "data", "h_d": "data", "l_d": "data", "g_f": "func", "t_d": "tls"}


def a64_program(kind, sym):
    sec, text, dk, A = A64_SITES[kind]
    cls = A64_SYMS[sym]
    defs = f"""    .section .data.defs,"aw",%progbits
    .balign 8
    .ascii "{rg.mk('g_d')}"
    .globl g_d
g_d: .xword 0x1202, 0
    .ascii "{rg.mk('h_d')}"
    .globl h_d
    .hidden h_d
h_d: .xword 0x1303, 0
    .text
    .balign 8
    .ascii "{rg.mk('g_f')}"
    .globl g_f
    .type g_f,%function
g_f: mov w0, #0x2101
    ret
    .section .tdata,"awT",%progbits
    .balign 8
    .ascii "{rg.mk('t_d')}"
    .globl t_d
t_d: .xword 0x5101, 0
"""
    main = f"""    .section .data.loc,"aw",%progbits
    .balign 8
    .ascii "{rg.mk('l_d')}"
l_d: .xword 0x1101, 0
"""
    if sec == "data":
        main += f"""    .section .data.site,"aw",%progbits
    .balign 8
    .ascii "{rg.mk('site')}"
site:
{text.format(S=sym)}    .text
    .globl _start
_start:
    adrp x2, site
    mov x8, #93
    svc #0
"""
    else:
        main += f"""    .text
    .globl _start
_start:
    b 1f
    .balign 8
    .ascii "{rg.mk('site')}"
1:
{text.format(S=sym)}    mov x8, #93
    svc #0
    adrp x3, t_d_keep
    .section .data.keep,"aw",%progbits
t_d_keep: .xword g_d, h_d
"""
    return main, defs, dk, A, cls


def aarch64_part(ctx, cov, d):
    build_wild()
    n = bad = 0
    samples = []
    done_kinds = set()
    for kind in A64_SITES:
        for sym in A64_SYMS:
            cls = A64_SYMS[sym]
            if ctx.quick and kind in done_kinds:
                continue                # quick: one symbol per relocation kind (both output kinds)
            tlskind = kind in ("tlsle", "tlsie")
            if tlskind != (cls == "tls"):
                continue
            if kind in ("call26", "jump26") and cls != "func":
                continue
            if kind == "abs32" and cls == "tls":
                continue
            if kind == "adrp_ldst64" and cls == "func":
                continue
            if kind == "got" and sym == "l_d":
                continue        # clang reduces :got:local to section+addend; lld 14 and wild both ignore that addend
            done_kinds.add(kind)
            for out in ("static", "staticpie"):
                if out == "staticpie" and kind in ("abs32",):
                    continue
                cd = d / f"a64-{kind}-{sym}-{out}"
                cd.mkdir()
                main, defs, dk, A, _ = a64_program(kind, sym)
                (cd / "main.s").write_text(main)
                (cd / "defs.s").write_text(defs)
                o1 = assemble(cd / "main.s", arch="aarch64")
                o2 = assemble(cd / "defs.s", arch="aarch64")
                args = ["-m", "aarch64linux"] + (["-pie"] if out == "staticpie" else []) + [str(o1), str(o2), "-o", str(cd / "out")]
                r = run_wild(args, timeout=60)
                if r.rc != 0:
                    continue                       # rejected: not C01's subject
                n += 1
                for base in (0, 0x55d52b5f7000) if out == "staticpie" else (0,):
                    try:
                        pr = Process([cd / "out"], [base], machine="aarch64").relocate()
                        site = rg.marker_addr(pr, pr.mods[0], "site")
                        dec = decode_a64_site(pr, dk, site)
                        if cls == "tls":
                            img = pr.mods[0].tls_image()
                            off = img.find(rg.mk(sym).encode()) + len(rg.mk(sym))
                            tls = pr.mods[0].tls
                            # AArch64 variant I: tp + 16 (TCB) aligned to the segment alignment
                            exp = ((16 + tls["align"] - 1) // tls["align"] * tls["align"]) + off
                            ok = dec.value == exp
                            detail = f"tpoff 0x{dec.value:x} expected 0x{exp:x}"
                        else:
                            S = rg.marker_addr(pr, pr.mods[0], sym)
                            exp = (S + A) & MASK64
                            if dec.form == "field32z":
                                ok = dec.value == exp
                            else:
                                ok = dec.value == exp
                            detail = f"{dec.form} 0x{dec.value:x} expected 0x{exp:x}"
                    except LoaderError as e:
                        ok, detail = False, f"loader model: {e}"
                    if len(samples) < 3:
                        samples.append({"arch": "aarch64", "kind": kind, "sym": sym, "out": out, "base": hex(base), "observed": detail})
                    if not ok:
                        bad += 1
                        ctx.verdict.report(
                            f"wrong-value:aarch64:{kind}:{sym}:{out}",
                            f"AArch64 {kind} to {sym} ({out}, base 0x{base:x}): {detail}",
                            lambda cd=cd, args=args, detail=detail: save_replay(PROP, cd.name, src_dir=cd,
                                                                                meta={"args": args, "observed": detail}))
                        break
    cov["aarch64_links_observed"] = n
    cov["aarch64_wrong"] = bad
    if n < (14 if ctx.quick else 40):
        raise ToolError(f"only {n} AArch64 links accepted: the AArch64 part is vacuous")
    return samples


def run(ctx):
    cov = {"samples": []}
    records, pairs = model(ctx, cov)
    # pairs: the second site must itself be a representable reference, else a native failure could
    # not be attributed to the observed site
    pairs = [p for p in pairs if p.get("class2") == "ok" and p.get("predicted2") == "link-ok"]
    single, pr = select(records, pairs, ctx)
    cov["cases_enumerated"] = len(records)
    cov["pairs_enumerated"] = len(pairs)
    with scratch("c01") as d:
        tbdir = d / "tb"
        results = rr.run_cases([rec_to_case(r) for r in single], d / "w", tbdir, with_ld="auto" if ctx.quick else True,
                               native=True, jobs=8)
        s1, n1 = judge(ctx, results, single, cov, "")
        for res, rec in list(zip(results, single))[:200]:
            if res["real"] == "link-ok" and len(cov["samples"]) < 4 and res["obs"]["facts"]:
                f = res["obs"]["facts"][-1]
                cov["samples"].append({"case": res["name"], "class": rec["class"], "formula": f["formula"],
                                       "observed": hex(f["lhs"]), "S": hex(f.get("S", 0)), "A": f.get("A", 0),
                                       "form": res["obs"]["forms"], "native_exit": res["obs"]["native"],
                                       "gnu_ld": res.get("ld")})
        results2 = rr.run_cases([rec_to_case(r) for r in pr], d / "w2", tbdir, with_ld=False, native=True, jobs=8)
        s2, n2 = judge(ctx, results2, pr, cov, "_pairs")
        cov["ld_oracle"] = {"links": sum(1 for r in results if r.get("ld") not in (None, "diag")),
                            "ld_ok": sum(1 for r in results if r.get("ld") == "link-ok"),
                            "ld_wrong_by_observer": sum(1 for r in results if r.get("ld") in ("link-wrong", "unloadable")),
                            "ld_rejects": sum(1 for r in results if r.get("ld") == "diag")}
        # binding demonstration: corrupt one byte of an accepted output before observing it
        demo = None
        for res in results:
            # a field whose link-time content is what the program reads (no dynamic relocation rewrites it)
            cse = res["case"]
            if res["real"] == "link-ok" and cse["sym"] in ("local_d", "global_d", "hidden_d", "protected_d") and \
                    ((cse["ref"] == "pc32" and cse["out"] in ("pie", "static")) or (cse["ref"] == "abs64" and cse["out"] == "static")):
                tb = rg.Toolbox(tbdir)
                cd = Path(res["dir"])
                outp = cd / "out"
                o = rg.observe_case(res["case"], outp, tb, cd, 0)
                data = bytearray(outp.read_bytes())
                from vlib.elf import Elf
                off = Elf(outp).vaddr_to_off(o["P"] - o["bases"][0])
                data[off] ^= 0x10
                (cd / "out.corrupt").write_bytes(data)
                (cd / "out.corrupt").chmod(0o755)
                shutil.copy(cd / "out.corrupt", cd / "out")
                o2 = rr._observe(res["case"], outp, tb, cd, native=True)
                demo = {"case": res["name"], "corrupted_status": o2["status"]}
                if o2["status"] == "link-ok":
                    raise ToolError(f"binding demonstration failed: flipping a bit of the relocated field of {res['name']} went unnoticed")
                j = rr.tlc_judge(sites=[(0, o2["facts"])], name="c01demo") if o2["facts"] else {"sites_bad": [1]}
                demo["tlc_rejected"] = bool(j["sites_bad"])
                if o2["facts"] and not j["sites_bad"] and not o2["detail"].startswith("native"):
                    raise ToolError("binding demonstration failed: TLC accepted a corrupted observation")
                break
        if demo is None:
            raise ToolError("no accepted abs64/pc32 case available for the binding demonstration")
        cov["binding_demo"] = demo
        cov["samples"] += aarch64_part(ctx, cov, d)
    cov["traces_validated_against_impl"] = len(results) + len(results2)
    cov["site_observations_judged_by_tlc"] = n1 + n2
    cov["exhaustive"] = not ctx.quick
    cov["samples"] = trim_samples(cov["samples"], 6, 900)
    return {
        "level": "model_checking",
        "coverage": cov,
        "assumptions": [
            "one or two relocation sites per symbol, 2-3 objects; fixed addends (8 for data/absolute symbols, 0 otherwise)",
            "the harness loader model implements the x86-64 dynamic relocation semantics of glibc's ld.so (cross-checked by native execution and on GNU ld outputs)",
            "undefined weak symbols and preemptible symbols are not overridden at run time in the generated environment",
            "AArch64: static relocation kinds only, statically decoded, not executed",
        ],
    }


def replay(ctx, path):
    meta = json.loads((Path(path) / "replay.json").read_text())
    if "case" not in meta:
        print(json.dumps(meta, indent=1)[:3000])
        return 0
    with scratch("c01r") as d:
        res = rr.run_cases([meta["case"]], d / "w", d / "tb", with_ld=True, native=True, jobs=1)[0]
        print(json.dumps({"case": res["name"], "real": res["real"], "detail": res.get("obs", {}).get("detail"),
                          "wild_err": res.get("wild_err", "")[-300:], "gnu_ld": res.get("ld")}, indent=1))
        if res["real"] in ("link-wrong", "unloadable"):
            print(f"VIOLATION property={PROP} replay={path} key={rr.case_key(res['case'], 'wrong-value')}")
            return 1
    return 0
