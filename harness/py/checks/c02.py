"""C02 - Symbol references bind to the definition the ELF rules select.

1. TLC, exhaustive inside the bounds: SymRes.tla over the full product of file kinds x definition
   kinds x visibilities for two files (and three files in thorough): the declarative ElfRule agrees
   with the incremental (sequential) resolution, the operational model of wild's phases (name
   table, alternatives, canonicalise-undefined, undefined check) with all implementation quirks
   switched off agrees with the rule, LoadedOnce / confluence of the activation protocol.
2. Replay (mode R): every TLC-enumerated configuration (a seeded sample in the quick tier) becomes
   real objects / archives / helper shared objects, is linked with the real wild (various thread
   counts, seeded yields, thin/grouped archives, --start-lib), and which definition every reference
   denotes is read from the output bytes (identity words), together with the error class.
   GNU ld and ld.lld link the same inputs: a case counts against wild only if a reference linker
   supports the rule; if both agree with each other against the rule the run is a tool error.
"""
from vlib import symres

PROP = "C02"
META = {
    "ready": True,
    "level": "model_checking",
    "technique": "TLA+ decision-procedure spec (declarative ELF rule vs operational model of wild's resolution phases) exhaustively checked by TLC; every enumerated configuration replayed into the real linker and compared by identity words, with GNU ld and lld as cross-oracles",
    "level_text": "TLC enumerates the full product of file kinds (object, archive member, whole-archive member, shared, as-needed shared) x definition kinds (none, undefined, weak undefined, weak, strong, common 4/8, GNU unique; plus a family with COMMON definitions of three sizes 4/8/16 in every order over three/four files, the size of the chosen common being part of the observed identity: st_size of the symbol in the output and the room really allocated for it) x visibilities for two files and one name (and three files in the thorough tier), with and without --allow-multiple-definition; for each configuration the rule's prediction (binding of every reference by (file, name), error class) is compared with what the real wild produced.",
    "level_note": "Bounds: <= 3 files, one name per C02 family (two in the C03 families), x86-64, non-PIE executables, data symbols, no COMDAT groups, no symbol versions. Which shared object provides a dynamic definition is not observed (only that the reference is dynamic). Cases where GNU ld and lld disagree with each other and neither supports the rule are not judged.",
    "engine": "tlc",
}
# deviations this property owns (the others are recorded under the property they belong to)
OWN = {"quirks": {"uniqWeak", "weakZero"}, "loading": False}
ASPECTS = ("error", "bind")


def oracle_known(info):
    """Classes where GNU ld and lld agree with each other against the rule, wild agrees with the rule, and
    the property text takes the rule's side.  common-meets-lazy-definition: ld and lld extract an archive
    member that really defines a name which so far is only a COMMON symbol (--fortran-common); C03's text
    makes only non-weak REFERENCES a reason to load a member, and a COMMON symbol is a definition."""
    if info.get("flags", {}).get("commonLazy") and symres.same(info["wild"], info["expect"], ASPECTS):
        return "common-meets-lazy-definition"
    return None


def run(ctx):
    plan = [("mc/SymRes_c02_quick.cfg", 900, 24 if ctx.quick else 1), ("mc/SymRes_c02_dup.cfg", 600, 6 if ctx.quick else 1)]
    # COMMON definitions of three sizes in every order: replayed in full, the interesting orders are few
    plan.append(("mc/SymRes_c02_common3.cfg", 600, 1))
    if not ctx.quick:
        plan.append(("mc/SymRes_c02_triple.cfg", 2400, 1))
        plan.append(("mc/SymRes_c02_common4.cfg", 900, 2))
    cov = symres.run_plan(ctx, PROP, plan, ASPECTS, "both", oracle_known, skip_load_divergent=OWN)
    cov.pop("_pool", None)
    return {
        "level": "model_checking",
        "coverage": cov,
        "assumptions": [
            "GNU ld 2.40 and ld.lld 14 are the arbiters of the rule where the property text is silent; a case is held against wild only when at least one of them supports the rule",
            "an undefined weak reference that wild leaves as a dynamic weak reference no linked library satisfies is counted as resolving to zero",
            "the definition a reference denotes is read from output bytes (identity word at the address stored for `.quad name`), commons by their .symtab size",
        ],
    }
