"""C02 - Symbol references bind to the definition the ELF rules select.

1. TLC, exhaustive inside the bounds: SymRes.tla over the full product of file kinds x definition
   kinds x visibilities for two files (and three files in thorough): the declarative ElfRule agrees
   with the incremental (sequential) resolution, the operational model of wild's phases (name
   table, alternatives, canonicalise-undefined, undefined check) with all implementation quirks
   switched off agrees with the rule, LoadedOnce / confluence of the activation protocol.
2. Replay (mode R): every TLC-enumerated configuration (a seeded sample in the quick tier) becomes
   real objects / archives / helper shared objects, is linked with the real wild (various thread
   counts, seeded yields, thin/grouped archives, --start-lib), and which definition every reference
   denotes is read from the output bytes (identity words), together with the error class.
   GNU ld and ld.lld link the same inputs: a case counts against wild only if a reference linker
   supports the rule; if both agree with each other against the rule the run is a tool error.
3. COMDAT section groups (family `comdat`, specs/Comdat.tla + vlib/comdat.py): TLC enumerates every sequence of
   <= 3 files x {object, lazily extracted archive member} x {caller only (weak / non-weak reference to the extra
   member), group variant 1 strong/weak, group variant 2 (other sizes, one more member section) strong/weak,
   definition outside any group strong/weak}; the rule (the first LOADED file in command-line order that carries
   the signature keeps its group, all other carriers lose theirs with every member section, symbols of discarded
   groups are references, not definitions) is compared with the transcription of what wild does; every configuration
   (quick: a fixed core + a seeded sample) is assembled, linked by wild (--gc-sections on/off, 1/2/8 threads,
   seeded yields, thin archives), GNU ld and lld, and the linked program is EXECUTED: every file's caller reports
   which variant of f / fd / h it reached; .symtab (value, size, bytes at the value) and the byte patterns of
   discarded variants in the output file are checked too.
"""
from concurrent.futures import ThreadPoolExecutor

from vlib import comdat, symres
from vlib.common import trim_samples

PROP = "C02"
META = {
    "ready": True,
    "level": "model_checking",
    "technique": "TLA+ decision-procedure spec (declarative ELF rule vs operational model of wild's resolution phases) exhaustively checked by TLC; every enumerated configuration replayed into the real linker and compared by identity words, with GNU ld and lld as cross-oracles",
    "level_text": "TLC enumerates the full product of file kinds (object, archive member, whole-archive member, shared, as-needed shared) x definition kinds (none, undefined, weak undefined, weak, strong, common 4/8, GNU unique; plus a family with COMMON definitions of three sizes 4/8/16 in every order over three/four files, the size of the chosen common being part of the observed identity: st_size of the symbol in the output and the room really allocated for it) x visibilities for two files and one name (and three files in the thorough tier), with and without --allow-multiple-definition; for each configuration the rule's prediction (binding of every reference by (file, name), error class) is compared with what the real wild produced. COMDAT section groups (Comdat.tla): every sequence of <= 3 files (4368 configurations; four files in the thorough tier) over {object, archive member} x {caller only, group variant 1, group variant 2 with other sizes and an extra member section, each with strong or weak symbols, strong/weak definition outside any group}: the kept group is the one of the first loaded carrier in command-line order (unextracted members do not count), symbols of discarded groups are not definitions (no duplicate error, references - also those of the losing file's own non-group sections - bind to the kept group, a name only the losing variant defines is undefined), a strong definition outside groups plus a kept strong group definition is a duplicate; observed by executing the linked program, from .symtab and by searching the output for the bytes of discarded variants, with --gc-sections on and off and 1/2/8 threads.",
    "level_note": "Bounds: <= 3 files, one name per C02 family (two in the C03 families), x86-64, non-PIE executables, data symbols (functions and data in the COMDAT family), COMDAT groups: one signature, two variants, x86-64 only, no .gnu.linkonce (wild has no support for it), local symbols of discarded group sections referenced from outside the group are out of scope; no symbol versions. Which shared object provides a dynamic definition is not observed (only that the reference is dynamic). Cases where GNU ld and lld disagree with each other and neither supports the rule are not judged.",
    "engine": "tlc",
}
# deviations this property owns (the others are recorded under the property they belong to)
OWN = {"quirks": {"uniqWeak", "weakZero"}, "loading": False}
ASPECTS = ("error", "bind")


def oracle_known(info):
    """Classes where GNU ld and lld agree with each other against the rule, wild agrees with the rule, and
    the property text takes the rule's side.  common-meets-lazy-definition: ld and lld extract an archive
    member that really defines a name which so far is only a COMMON symbol (--fortran-common); C03's text
    makes only non-weak REFERENCES a reason to load a member, and a COMMON symbol is a definition."""
    if info.get("flags", {}).get("commonLazy") and symres.same(info["wild"], info["expect"], ASPECTS):
        return "common-meets-lazy-definition"
    return None


def run(ctx):
    plan = [("mc/SymRes_c02_quick.cfg", 900, 24 if ctx.quick else 1), ("mc/SymRes_c02_dup.cfg", 600, 6 if ctx.quick else 1)]
    # COMMON definitions of three sizes in every order: replayed in full, the interesting orders are few
    plan.append(("mc/SymRes_c02_common3.cfg", 600, 1))
    if not ctx.quick:
        plan.append(("mc/SymRes_c02_triple.cfg", 2400, 1))
        plan.append(("mc/SymRes_c02_common4.cfg", 900, 2))
    # the COMDAT family (its own TLC module and generator) runs beside the SymRes families
    with ThreadPoolExecutor(max_workers=1) as ex:
        fcd = ex.submit(comdat.run_family, ctx, PROP)
        try:
            cov = symres.run_plan(ctx, PROP, plan, ASPECTS, "both", oracle_known, skip_load_divergent=OWN)
        finally:
            cd = fcd.result()
    cov.pop("_pool", None)
    cov["states"] += cd["states"]
    cov["transitions"] += cd["transitions"]
    cov["traces_validated_against_impl"] += cd["replayed"]
    cov["tlc_runs"] += cd["tlc_runs"]
    cov["comdat_binding_demo"] = cd["binding_demo"]
    cov["samples"] = list(cov["samples"]) + trim_samples(cd["samples"], 1, 900)
    return {
        "level": "model_checking",
        "coverage": cov,
        "assumptions": [
            "GNU ld 2.40 and ld.lld 14 are the arbiters of the rule where the property text is silent; a case is held against wild only when at least one of them supports the rule",
            "an undefined weak reference that wild leaves as a dynamic weak reference no linked library satisfies is counted as resolving to zero",
            "the definition a reference denotes is read from output bytes (identity word at the address stored for `.quad name`), commons by their .symtab size",
            "COMDAT family: GNU ld and lld resolve groups while reading the command line sequentially; configurations in which wild's name-table fixpoint loads other archive members than the sequential reading (C03: shadowed-lazy-definition), or in which a member that precedes the kept carrier is extracted after it, are replayed but not judged",
        ],
    }
