"""C02 - Symbol references bind to the definition the ELF rules select.

1. TLC, exhaustive inside the bounds: SymRes.tla over the full product of file kinds x definition
   kinds x visibilities for two files (and three files in thorough): the declarative ElfRule agrees
   with the incremental (sequential) resolution, the operational model of wild's phases (name
   table, alternatives, canonicalise-undefined, undefined check) with all implementation quirks
   switched off agrees with the rule, LoadedOnce / confluence of the activation protocol.
2. Replay (mode R): every TLC-enumerated configuration (a seeded sample in the quick tier) becomes
   real objects / archives / helper shared objects, is linked with the real wild (various thread
   counts, seeded yields, thin/grouped archives, --start-lib), and which definition every reference
   denotes is read from the output bytes (identity words), together with the error class.
   GNU ld and ld.lld link the same inputs: a case counts against wild only if a reference linker
   supports the rule; if both agree with each other against the rule the run is a tool error.
"""
from vlib import symres, tlc
from vlib.common import ToolError, build_wild, log, trim_samples

PROP = "C02"
META = {
    "ready": False,
    "level": "model_checking",
    "technique": "TLA+ decision-procedure spec (declarative ELF rule vs operational model of wild's resolution phases) exhaustively checked by TLC; every enumerated configuration replayed into the real linker and compared by identity words, with GNU ld and lld as cross-oracles",
    "level_text": "TLC enumerates the full product of file kinds (object, archive member, whole-archive member, shared, as-needed shared) x definition kinds (none, undefined, weak undefined, weak, strong, common 4/8, GNU unique) x visibilities for two files and one name (and three files in the thorough tier), with and without --allow-multiple-definition; for each configuration the rule's prediction (binding of every reference by (file, name), error class) is compared with what the real wild produced.",
    "level_note": "Bounds: <= 3 files, one name per C02 family (two in the C03 families), x86-64, non-PIE executables, data symbols, no COMDAT groups, no symbol versions. Which shared object provides a dynamic definition is not observed (only that the reference is dynamic). Cases where GNU ld and lld disagree with each other and neither supports the rule are not judged.",
    "engine": "tlc",
}
EXPECTED_ACTIONS = ["Start", "PeekAny", "TakeAny", "Finish"]
ASPECTS = ("error", "bind")


def tlc_records(cfg, timeout, workers=8):
    """Exhaustive TLC run of one bounded family; returns (result, deduplicated REPLAY records).
    (-coverage makes TLC an order of magnitude slower on this module, so action coverage is
    established separately by coverage_run on a tiny family.)"""
    r = tlc.run_tlc("MCSymRes", cfg, workers=workers, timeout=timeout, coverage=False)
    if r.timed_out:
        raise ToolError(f"TLC timed out on {cfg}")
    if not r.ok:
        raise ToolError(f"SymRes model check failed ({cfg}): {r.violated} {r.error_text}\n{r.out[-3000:] if not r.trace_text else r.trace_text[:3000]}")
    seen, recs = set(), []
    for rec in r.records:
        k = repr(sorted(rec["files"], key=repr) if False else rec["files"]) + repr(rec["opts"])
        if k in seen:
            continue
        seen.add(k)
        recs.append(rec)
    if not recs:
        raise ToolError(f"no REPLAY records from {cfg}")
    return r, recs


def coverage_run(cfg="mc/SymRes_cover.cfg"):
    r = tlc.run_tlc("MCSymRes", cfg, workers=4, timeout=600, coverage=True)
    if not r.ok:
        raise ToolError(f"coverage run failed: {r.violated} {r.error_text}")
    missing = tlc.zero_coverage_actions(r, EXPECTED_ACTIONS)
    if missing:
        raise ToolError(f"vacuous model: actions never taken: {missing}")
    return {"cfg": cfg, **r.summary(), "action_coverage": {a: r.coverage[a][1] for a in EXPECTED_ACTIONS}}


def racy_must_fail(cfg="mc/SymRes_racy.cfg"):
    r = tlc.run_tlc("MCSymRes", cfg, workers=4, timeout=600, coverage=False)
    if r.ok or r.violated != "LoadedOnce":
        raise ToolError(f"racy variant of the take was NOT caught (violated={r.violated}): invariants are vacuous")
    return {"cfg": cfg, "expected_violation": r.violated, "states_to_find": r.distinct}


def sample(recs, seed, k):
    return [(i, rec) for i, rec in enumerate(recs) if (i + seed) % k == 0]


def oracle_known(info):
    """Classes where GNU ld and lld agree with each other against the rule, wild agrees with the rule, and
    the property text takes the rule's side.  common-meets-lazy-definition: ld and lld extract an archive
    member that really defines a name which so far is only a COMMON symbol (--fortran-common); C03's text
    makes only non-weak REFERENCES a reason to load a member, and a COMMON symbol is a definition."""
    if info.get("flags", {}).get("commonLazy") and symres.same(info["wild"], info["expect"], ASPECTS):
        return "common-meets-lazy-definition"
    return None


def run(ctx):
    cov = {"samples": []}
    build_wild()
    plan = [("mc/SymRes_c02_quick.cfg", 900, 4 if ctx.quick else 1), ("mc/SymRes_c02_dup.cfg", 600, 2 if ctx.quick else 1)]
    if not ctx.quick:
        plan.append(("mc/SymRes_c02_triple.cfg", 2400, 5))
    states = trans = replayed = 0
    runs = []
    agg = {}
    for cfg, to, k in plan:
        r, recs = tlc_records(cfg, to)
        states += r.distinct
        trans += r.generated
        chosen = sample(recs, ctx.seed, k)
        log(f"{cfg}: {r.distinct} states, {len(recs)} configurations, replaying {len(chosen)}")
        st = symres.replay_records(ctx, PROP, chosen, ASPECTS, "both", jobs=8, known_oracle_classes=oracle_known,
                                   label=cfg.split("_")[-1].split(".")[0])
        replayed += st["replayed"]
        runs.append({"cfg": cfg, **r.summary(), "configurations": len(recs), "replayed": st["replayed"],
                     **{kk: vv for kk, vv in st.items() if kk not in ("samples", "replayed")}})
        cov["samples"] += st["samples"]
    runs.append(coverage_run())
    runs.append(racy_must_fail())
    cov["states"] = states
    cov["transitions"] = trans
    cov["traces_validated_against_impl"] = replayed
    cov["tlc_runs"] = runs
    cov["samples"] = trim_samples(cov["samples"], 3, 900)
    return {
        "level": "model_checking",
        "coverage": cov,
        "assumptions": [
            "GNU ld 2.40 and ld.lld 14 are the arbiters of the rule where the property text is silent; a case is held against wild only when at least one of them supports the rule",
            "an undefined weak reference that wild leaves as a dynamic weak reference no linked library satisfies is counted as resolving to zero",
            "the definition a reference denotes is read from output bytes (identity word at the address stored for `.quad name`), commons by their .symtab size",
        ],
    }
