"""C03 - Archive members are loaded exactly when needed.

1. TLC, exhaustive inside the bounds: SymRes.tla, activation part.  For every reference graph over
   objects / archive members (/ whole-archive members) and two names: the concurrent activation
   protocol of resolution.rs (one task per loaded file; a request = is_taken read + atomic take)
   loads each file at most once (LoadedOnce), never loads a file outside the fixpoint (LoadedSound)
   and ends in the least fixpoint whatever the interleaving (Confluence); wild's design fixpoint
   over its name table equals the declarative LFP (which depends on the command line only through
   the relative order of the DEFINITIONS of a name, i.e. not on where the archive sits relative to
   the referencing object), and differs from the sequential reading of lld only in the classes
   named in the spec.  The deliberately non-atomic take must violate LoadedOnce.
2. Replay (mode R): the enumerated configurations become real `ar rc` / thin `ar rcT` archives,
   grouped archives, --start-lib/--end-lib groups, --whole-archive regions and `-u` roots; wild is
   run with 1..8 threads and seeded yields; the set of loaded members is read from the output
   (file markers, --no-gc-sections) and compared with the rule; ld.lld (and GNU ld where its
   order-sensitive scan does not apply) link the same inputs as cross-oracles.
"""
from vlib import symres

PROP = "C03"
META = {
    "ready": False,
    "level": "model_checking",
    "technique": "TLA+ spec of archive activation (declarative least fixpoint vs concurrent request/take protocol, all interleavings by TLC) + replay of every enumerated reference graph into the real linker, member set read from output markers, lld/GNU ld as cross-oracles",
    "level_text": "TLC explores every interleaving of the request/take protocol for all reference graphs over three objects/archive members and two names (quick) plus -u roots, weak references, whole-archive members, and four-file chains (thorough): LoadedOnce, soundness and confluence to the least fixpoint; each configuration is replayed into the real wild (thin/grouped archives, --start-lib, 1-8 threads, seeded yields) and the loaded member set and error class are compared with the rule.",
    "level_note": "Schedules of the real activation are sampled (thread counts; yield injection currently only perturbs the layout phase), only the model is exhaustive; trace validation of try_request_file_id needs the hooks listed in the final report. Bounds: <= 4 files, 2 names. Configurations where a COMMON symbol meets a lazy definition are judged by the property text (a COMMON is not a reference), not by ld/lld.",
    "engine": "tlc",
}
# deviations this property owns (the others are recorded under the property they belong to)
OWN = {"quirks": set(), "loading": True}
ASPECTS = ("error", "loaded")


def oracle_known(info):
    if info.get("flags", {}).get("commonLazy") and symres.same(info["wild"], info["expect"], ASPECTS):
        return "common-meets-lazy-definition"
    return None


def run(ctx):
    if ctx.quick:
        plan = [("mc/SymRes_c03_quick.cfg", 900, 4), ("mc/SymRes_c03_roots.cfg", 900, 4)]
    else:
        plan = [("mc/SymRes_c03_quick.cfg", 900, 1), ("mc/SymRes_c03_roots.cfg", 900, 1),
                ("mc/SymRes_c03_weak.cfg", 2400, 8), ("mc/SymRes_c03_chain.cfg", 1200, 3)]
    cov = symres.run_plan(ctx, PROP, plan, ASPECTS, "both", oracle_known, skip_load_divergent=OWN)
    return {
        "level": "model_checking",
        "coverage": cov,
        "assumptions": [
            "sequential consistency of the AtomicTake; real schedules are sampled by thread count",
            "a member counts as loaded iff its marker section is in the output (--no-gc-sections)",
            "ld.lld 14 / GNU ld 2.40 arbitrate the rule where the text is silent (several definitions of one name); a case is held against wild only if one of them supports the rule",
        ],
    }
