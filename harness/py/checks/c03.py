"""C03 - Archive members are loaded exactly when needed.

1. TLC, exhaustive inside the bounds: SymRes.tla, activation part.  For every reference graph over
   objects / archive members (/ whole-archive members) and two names: the concurrent activation
   protocol of resolution.rs (one task per loaded file; a request = is_taken read + atomic take)
   loads each file at most once (LoadedOnce), never loads a file outside the fixpoint (LoadedSound)
   and ends in the least fixpoint whatever the interleaving (Confluence); wild's design fixpoint
   over its name table equals the declarative LFP (which depends on the command line only through
   the relative order of the DEFINITIONS of a name, i.e. not on where the archive sits relative to
   the referencing object), and differs from the sequential reading of lld only in the classes
   named in the spec.  The deliberately non-atomic take must violate LoadedOnce.
2. Replay (mode R): the enumerated configurations become real `ar rc` / thin `ar rcT` archives,
   grouped archives, --start-lib/--end-lib groups, --whole-archive regions and `-u` roots; wild is
   run with 1..8 threads and seeded yields; the set of loaded members is read from the output
   (file markers, --no-gc-sections) and compared with the rule; ld.lld (and GNU ld where its
   order-sensitive scan does not apply) link the same inputs as cross-oracles.
"""
from vlib import symres

PROP = "C03"
META = {
    "ready": True,
    "level": "model_checking",
    "technique": "TLA+ spec of archive activation (declarative least fixpoint vs concurrent request/take protocol, all interleavings by TLC) + replay of every enumerated reference graph into the real linker, member set read from output markers, lld/GNU ld as cross-oracles",
    "level_text": "TLC explores every interleaving of the request/take protocol for all reference graphs over three objects/archive members and two names (quick) plus -u roots, weak references, whole-archive members, and four-file chains (thorough): LoadedOnce, soundness and confluence to the least fixpoint; each configuration is replayed into the real wild (thin/grouped archives, --start-lib, 1-8 threads, seeded yields) and the loaded member set and error class are compared with the rule. Scaled replay: sampled configurations are re-linked with the referencing objects padded to > 10000 symbols so that the decisive non-weak reference is symbol number 4998..5001 / 9999..10001 of its object (the boundaries of wild's 5000-symbol resolution work items), same expectation.",
    "level_note": "Schedules of the real activation are sampled (thread counts; yield injection currently only perturbs the layout phase), only the model is exhaustive; trace validation of try_request_file_id needs the hooks listed in the final report. Bounds: <= 4 files, 2 names. Configurations where a COMMON symbol meets a lazy definition are judged by the property text (a COMMON is not a reference), not by ld/lld.",
    "engine": "tlc",
}
# deviations this property owns (the others are recorded under the property they belong to)
OWN = {"quirks": set(), "loading": True}
ASPECTS = ("error", "loaded")


def oracle_known(info):
    if info.get("flags", {}).get("commonLazy") and symres.same(info["wild"], info["expect"], ASPECTS):
        return "common-meets-lazy-definition"
    return None


TRACE_EVENTS = {"Load", "ResBegin", "Request", "Peek", "Take", "ResEnd"}


def trace_validation(ctx, cov):
    """Mode T for the activation protocol: needs the Request/Peek/Take/Load hooks in resolution.rs
    (see SymResTrace.tla).  Until they are in the build the step reports their absence and does nothing."""
    import json
    import random
    from vlib import tlc
    from vlib.common import ToolError, save_replay, scratch
    rng = random.Random(ctx.seed)

    def sym(d):
        return {"def": d, "vis": "default"}

    n_links = 6 if ctx.quick else 40
    accepted = events = 0
    with scratch("c03-trace") as top:
        for k in range(n_links):
            # object -> chain of members, plus members that are referenced only weakly / not at all
            nm = rng.choice([2, 3, 4])
            files = [{"kind": "obj", "syms": {"a": sym("undef"), "b": sym(rng.choice(["none", "undef", "weakundef"]))}}]
            for i in range(nm):
                files.append({"kind": "member", "syms": {"a": sym("strong" if i == 0 else rng.choice(["none", "undef"])),
                                                          "b": sym("strong" if i == nm - 1 else rng.choice(["none", "undef", "weakundef"]))}})
            rng.shuffle(files)
            cfg = {"files": files, "opts": {}}
            d = top / f"t{k}"
            d.mkdir()
            line = symres.emit(cfg, d, variant=rng.choice([0, 1, 2, 4]))
            tr = d / "trace.ndjson"
            env = {"WILD_VERIF_TRACE": str(tr), "WILD_VERIF_YIELD_SEED": str(rng.getrandbits(31)), "WILD_FILES_PER_GROUP": "1"}
            r = symres.link("wild", line, d, "out.wild", threads=rng.choice([2, 4, 8]), env=env)
            if r.timed_out or not tr.exists():
                continue
            evs = [json.loads(x) for x in tr.read_text().splitlines() if x.strip()]
            evs = [e for e in evs if e.get("ev") in TRACE_EVENTS]
            if not any(e["ev"] == "ResBegin" for e in evs):
                cov["trace_validation"] = "skipped: the resolution.rs hooks (Load/ResBegin/Request/Peek/Take/ResEnd) are not in this build"
                return
            # one call of the resolver per trace
            last = max(i for i, e in enumerate(evs) if e["ev"] == "ResEnd") if any(e["ev"] == "ResEnd" for e in evs) else None
            if last is None:
                if r.rc == 0:
                    raise ToolError("trace without ResEnd from a successful link (hook drift)")
                continue
            evs = evs[:last + 1]
            f = d / "res.ndjson"
            f.write_text("".join(json.dumps(e) + "\n" for e in evs))
            ok, info = tlc.validate_trace("SymResTrace", "mc/SymResTrace.cfg", f, name=f"c03.tr.{k}")
            events += len(evs)
            if ok:
                accepted += 1
            else:
                ctx.verdict.report("activation-trace-rejected",
                                   f"activation trace of a real link is not a behaviour of the protocol: event #{info.get('unmatched_index')} {info.get('unmatched_event')}",
                                   lambda: save_replay(PROP, f"trace-{k}", d, meta={"line": line, "env": env, "info": info}))
    cov["trace_validation"] = {"traces_accepted": accepted, "events": events}


def run(ctx):
    if ctx.quick:
        plan = [("mc/SymRes_c03_quick.cfg", 900, 24), ("mc/SymRes_c03_roots.cfg", 900, 12)]
    else:
        plan = [("mc/SymRes_c03_quick.cfg", 900, 2), ("mc/SymRes_c03_roots.cfg", 900, 1),
                ("mc/SymRes_c03_weak.cfg", 2400, 16), ("mc/SymRes_c03_chain.cfg", 1200, 6)]
    cov = symres.run_plan(ctx, PROP, plan, ASPECTS, "both", oracle_known, skip_load_divergent=OWN)
    pool = cov.pop("_pool", [])
    cov["scaled_replay"] = symres.scaled_replay(ctx, PROP, pool, 3 if ctx.quick else 30, ASPECTS)
    cov["traces_validated_against_impl"] += cov["scaled_replay"]["replayed"]
    trace_validation(ctx, cov)
    return {
        "level": "model_checking",
        "coverage": cov,
        "assumptions": [
            "sequential consistency of the AtomicTake; real schedules are sampled by thread count",
            "a member counts as loaded iff its marker section is in the output (--no-gc-sections)",
            "ld.lld 14 / GNU ld 2.40 arbitrate the rule where the text is silent (several definitions of one name); a case is held against wild only if one of them supports the rule",
        ],
    }
