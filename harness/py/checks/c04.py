"""C04 - Output ELF files are structurally well-formed.

1. TLC, exhaustive on scaled constants: the placement machine of specs/Layout.tla (wild's
   layout_section_parts / segment start-stop rules / align_modulo) with the invariant
   Placed => WellFormed(Img); three deliberately broken placement rules must be rejected.
2. Observed-state validation: a generated population of real links (all output kinds, page sizes,
   -z norelro, --section-start, linker scripts, alignments 1..65536, odd / zero sizes, TLS data/bss
   mixes, NOBITS between PROGBITS, x86-64 and AArch64) is linked by wild; every output is projected
   onto the image vocabulary (vlib/wellformed.py) and the SAME WellFormed operator is evaluated on
   it by TLC (specs/LayoutObs.tla), which names the failing conjunct and the offending
   sections / segments.
3. Observer sanity: vlib.elf against `readelf -lSW`; GNU ld outputs of the same inputs through the
   same predicate; a byte-patched output must be rejected (binding demonstration).
"""
import json
import os
import random
import re
import shutil
from concurrent.futures import ThreadPoolExecutor
from pathlib import Path

from vlib import asm, tlc
from vlib import wellformed as wf
from vlib.common import ToolError, build_wild, log, run_wild, save_replay, scratch, sh, trim_samples
from vlib.elf import Elf

PROP = "C04"
META = {
    "ready": True,
    "level": "model_checking",
    "technique": "TLA+ placement machine model-checked with TLC against WellFormed; the same TLA+ WellFormed operator evaluated by TLC on observations of real wild outputs (observed-state validation)",
    "level_text": "The section/segment placement rules of wild (cursor, alignment, NOBITS, align_modulo at segment starts, RELRO cut, fixed addresses) are a TLA+ state machine whose every terminal image satisfies WellFormed for all part lists in the bound (TLC, exhaustive); the identical WellFormed operator is then evaluated by TLC on every output of a wide generated population of real links (six output kinds, page sizes, norelro, section-start, linker scripts, alignments up to 64K, TLS mixes, two architectures).",
    "level_note": "The model predicts admissibility, not wild's exact addresses; observed outputs are a sampled population (seeded), the model is exhaustive on scaled constants. Memory coordinates are squeezed by an order/residue-preserving map so they fit TLC integers (argued in Layout.tla / wellformed.py). Trusted base: TLC, vlib.elf (cross-checked against readelf on every run).",
    "engine": "tlc",
}

KINDS = ["static", "static-pie", "pie", "dyn-nonpie", "shared", "relocatable"]
ALIGNS = [1, 2, 4, 8, 16, 32, 64, 128, 512, 4096, 65536]
SIZES = [0, 1, 3, 7, 8, 13, 100, 257, 4097]


# ---------------------------------------------------------------------------------------------
# 1. the model


def model_check(ctx, cov):
    runs = []
    states = trans = 0
    cfgs = [("MCLayoutQuick", "mc/Layout_quick.cfg", 900)]
    if not ctx.quick:
        cfgs += [("MCLayoutMid", "mc/Layout_mid.cfg", 2400), ("MCLayoutWide", "mc/Layout_wide.cfg", 2400)]
    for mod, cfg, to in cfgs:
        r = tlc.run_tlc(mod, cfg, workers=8, timeout=to, name=f"c04.{mod}")
        runs.append({"cfg": cfg, **r.summary()})
        if r.timed_out and not ctx.quick:
            log(f"{cfg}: timed out after {to}s with {r.distinct} distinct states (counted as partial)")
            states += r.distinct
            trans += r.generated
            continue
        if not r.ok:
            raise ToolError(f"Layout model check failed ({cfg}): {r.violated} {r.error_text}\n{r.trace_text[:3000]}")
        missing = tlc.zero_coverage_actions(r, ["PlacePart", "Finish"])
        if missing:
            raise ToolError(f"vacuous model run {cfg}: actions never taken: {missing}")
        states += r.distinct
        trans += r.generated
    def bad(v):
        return v, tlc.run_tlc("MCLayout", f"mc/Layout_bad_{v}.cfg", workers=2, timeout=600, coverage=False, name=f"c04.bad.{v}")

    with ThreadPoolExecutor(max_workers=4) as ex:
        for v, r in ex.map(bad, ("naive-nobits", "no-modulo", "no-cut", "page-modulo-at-location")):
            if r.ok or r.violated != "PlacedWellFormed":
                raise ToolError(f"broken placement rule '{v}' was NOT rejected by WellFormed: the invariant is vacuous\n"
                                + r.out[-1500:])
            m = [ln for ln in r.out.splitlines() if "MODEL-FAIL" in ln]
            runs.append({"cfg": f"mc/Layout_bad_{v}.cfg", "expected_violation": r.violated,
                         "conjunct": m[0] if m else ""})
    cov["states"] = states
    cov["transitions"] = trans
    cov["tlc_runs"] = runs


# ---------------------------------------------------------------------------------------------
# 2. the population of real links

START = {
    "x86_64": "    mov $60, %eax\n    xor %edi, %edi\n    syscall\n",
    "aarch64": "    mov x8, #93\n    mov x0, #0\n    svc #0\n",
}
CALL = {"x86_64": "    call ext@PLT\n", "aarch64": "    bl ext\n"}
NOP = {"x86_64": "    nop\n", "aarch64": "    nop\n"}


def helper_lib(d, arch):
    """A tiny shared library made WITHOUT wild (GNU ld for x86-64, lld for AArch64)."""
    src = (".globl ext\n.type ext,%function\next:\n    ret\n.data\n.globl extd\n.type extd,%object\n"
           ".size extd,8\nextd: .quad 1\n")
    o = asm.write_asm(d, f"libx_{arch}", src, arch=arch)
    so = Path(d) / f"libx_{arch}.so"
    if arch == "x86_64":
        asm.gnu_ld(["-shared", o, "-o", so, "-soname", so.name], check=True)
    else:
        asm.lld(["-shared", o, "-o", so, "-soname", so.name], check=True)
    return so


def sec_asm(sec, arch):
    """Assembly of one input section."""
    flags = sec["flags"]
    typ = "%nobits" if sec["nobits"] else ("%init_array" if sec["name"].startswith(".init_array") else "%progbits")
    t = [f'.section {sec["name"]},"{flags}",{typ}']
    if sec["align"] > 1:
        t.append(f".balign {sec['align']}")
    t.append(f".globl {sec['sym']}")
    t.append(f"{sec['sym']}:")
    n = sec["size"]
    if sec["nobits"]:
        if n:
            t.append(f"    .skip {n}")
    elif "x" in flags:
        # whole instructions on AArch64 (4 bytes each); arbitrary byte counts on x86-64
        if arch == "aarch64":
            t += ["    nop"] * ((n + 3) // 4)
        else:
            t += ["    nop"] * n
    elif sec["name"].startswith(".init_array"):
        t.append("    .quad _start")
    else:
        ref = sec.get("ref")
        if ref and n >= 8 and sec["align"] >= 8:
            t.append(f"    .quad {ref}")
            n -= 8
        if n:
            t.append(f"    .fill {n}, 1, 0x5a")
    return "\n".join(t) + "\n"


def gen_scenario(rng, i, tier_quick):
    arch = "aarch64" if rng.random() < 0.3 else "x86_64"
    kind = KINDS[i % len(KINDS)]
    scn = {"id": f"s{i}", "arch": arch, "kind": kind, "opts": [], "tags": []}
    secs = []
    nsym = [0]

    def add(name, flags, nobits=False, align=None, size=None, ref=None):
        nsym[0] += 1
        secs.append(dict(name=name, flags=flags, nobits=nobits,
                         align=align if align is not None else rng.choice(ALIGNS),
                         size=size if size is not None else rng.choice(SIZES),
                         sym=f"sym{nsym[0]}", ref=ref, obj=rng.randrange(3)))

    # ordinary sections
    for _ in range(rng.randrange(0, 3)):
        add(f".text.f{rng.randrange(4)}", "ax", align=rng.choice([1, 4, 16, 64, 4096]))
    for _ in range(rng.randrange(0, 3)):
        add(rng.choice([".rodata", ".rodata.a", ".rodata.b"]), "a")
    for _ in range(rng.randrange(0, 3)):
        add(rng.choice([".data", ".data.a", ".data.b"]), "aw", ref=rng.choice([None, "_start", "sym1"]))
    for _ in range(rng.randrange(0, 3)):
        add(rng.choice([".bss", ".bss.a"]), "aw", nobits=True)
    if rng.random() < 0.4:
        add(".data.rel.ro", "aw", ref="_start", align=rng.choice([8, 16, 64]), size=rng.choice([8, 24, 100]))
    if rng.random() < 0.3:
        add(".init_array", "aw", align=8, size=8)
    # TLS mixes
    tls = rng.choice(["none", "none", "data", "bss", "both", "both", "multi"])
    if tls in ("data", "both", "multi"):
        add(".tdata", "awT", align=rng.choice([1, 4, 8, 16, 64]), size=rng.choice([1, 4, 12, 100]))
    if tls == "multi":
        add(".tdata.x", "awT", align=rng.choice([1, 32, 128]), size=rng.choice([0, 3, 8]))
        add(".tbss.x", "awT", nobits=True, align=rng.choice([1, 16, 256]), size=rng.choice([0, 5, 64]))
    if tls in ("bss", "both", "multi"):
        add(".tbss", "awT", nobits=True, align=rng.choice([1, 4, 8, 32, 64]), size=rng.choice([1, 8, 40]))
    scn["tls"] = tls
    # custom sections
    customs = []
    for _ in range(rng.randrange(0, 4)):
        flags, nb = rng.choice([("a", False), ("aw", False), ("ax", False), ("aw", True)])
        name = rng.choice([".cust", "cset", ".zzz", ".mmm"]) + str(len(customs)) + ("x" if "x" in flags else "") + ("w" if "w" in flags else "") + ("n" if nb else "")
        add(name, flags, nobits=nb)
        customs.append(secs[-1])
    scn["secs"] = secs

    # options
    opts = scn["opts"]
    if kind != "relocatable":
        page = rng.choice([None, None, 0x1000, 0x10000, 0x200000])
        if page:
            opts += ["-z", f"max-page-size={page:#x}"]
            scn["tags"].append(f"page{page:#x}")
        if rng.random() < 0.2:
            opts += ["-z", "norelro"]
            scn["tags"].append("norelro")
        if rng.random() < 0.3:
            opts += ["-z", "now"]
        if rng.random() < 0.3:
            opts.append("--hash-style=" + rng.choice(["gnu", "sysv", "both"]))
        if rng.random() < 0.2:
            opts.append("--build-id=sha1")
        if rng.random() < 0.2:
            opts.append("--no-eh-frame-hdr")
        if rng.random() < 0.15:
            opts.append("--strip-all")
    opts.append("--no-gc-sections" if rng.random() < 0.85 else "--gc-sections")
    opts.append(f"--threads={rng.choice([1, 2, 4, 8])}")

    # fixed addresses
    mode = rng.random()
    fixed_ok = kind in ("static", "dyn-nonpie")      # absolute addresses only make sense in non-PIE executables
    if fixed_ok and customs and mode < 0.35:
        # ascending addresses in wild's output order (ro, exec, data, bss customs), far from the image
        order = sorted(customs, key=lambda s: (("a", False), ("ax", False), ("aw", False), ("aw", True)).index((s["flags"], s["nobits"])))
        base = rng.choice([0x1000000, 0x10000000, 0x7f000000, 0x100000000])
        k = 0
        for s in order:
            if rng.random() < 0.6:
                addr = base + k * 0x300000000 + rng.choice([0, 0, 1, 0x10, 0x123])
                opts.append(f"--section-start={s['name']}={addr:#x}")
                k += 1
        if k:
            scn["tags"].append("secstart")
    elif fixed_ok and customs and mode < 0.42:
        # an address inside the default image: must be rejected or still give a valid image
        s = rng.choice(customs)
        addr = rng.choice([0x400000, 0x400040, 0x401000, 0x3ff000])
        opts.append(f"--section-start={s['name']}={addr:#x}")
        scn["tags"].append("secstart-collides-image")
    elif fixed_ok and mode < 0.62:
        scn["script"] = gen_script(rng, secs, customs, far_ok=(kind == "static"))
        scn["tags"].append("script")
        # a script address inside the range the automatic layout uses for what the script does not
        # mention (headers, .interp, .dynsym, .plt.got, ... at 0x400000 + a few pages): same input
        # class as the deliberate --section-start collision above
        page = next((int(o.split("=")[1], 16) for o in opts if o.startswith("max-page-size=")), 0x1000)
        m = re.search(r"\. = (0x[0-9a-f]+);", scn["script"])
        if m and int(m.group(1), 16) < 0x400000 + 4 * page:
            scn["tags"].append("secstart-collides-image")
    elif kind in ("shared", "pie") and mode < 0.5:
        scn["script"] = gen_script(rng, secs, customs, absolute=False)
        scn["tags"].append("script-rel")
    return scn


def gen_fixed_overaligned(rng, j):
    """The combination the placement model singles out (MCLayout ListsLoc / Layout_bad_page-modulo-at-
    location.cfg): a part with a fixed address followed, in the same PT_LOAD, by a part whose alignment
    exceeds the page size.  Enumerated over section class x mechanism x page size; always part of the
    population."""
    classes = [("a", False, "r"), ("ax", False, "x"), ("aw", False, "w"), ("aw", True, "n"), ("ax", False, "t")]
    flags, nobits, tag = classes[j % len(classes)]
    mech = ("secstart", "script")[(j // len(classes)) % 2]
    page = 0x1000       # wild supports alignments up to 64 KiB, so only 4 KiB pages leave room above the page
    arch = "aarch64" if j % 7 == 3 else "x86_64"
    kind = ("static", "dyn-nonpie")[j % 2]
    big = (0x10000, 0x2000, 0x8000)[(j // (2 * len(classes))) % 3]
    loc = dict(name=f".loc0{tag}", flags=flags, nobits=nobits, align=rng.choice([1, 8, 16]), size=rng.choice([3, 13, 100]),
               sym="symloc", ref=None, obj=0)
    if tag == "t":      # the follower is .text itself (placed after custom executable sections)
        fol = dict(name=".text.fol", flags="ax", nobits=False, align=big, size=rng.choice([5, 64]), sym="symfol", ref=None, obj=0)
    else:
        fol = dict(name=f".fol1{tag}", flags=flags, nobits=nobits, align=big, size=rng.choice([1, 7, 257]),
                   sym="symfol", ref=None, obj=0)
    extra = dict(name=".data.a", flags="aw", nobits=False, align=8, size=24, sym="symd", ref="_start", obj=rng.randrange(2))
    addr = rng.choice([0x1000000, 0x1000010, 0x7f001230, 0x10002468]) + (8 if mech == "script" else 0)
    scn = {"id": f"f{j}", "arch": arch, "kind": kind, "tls": "none", "secs": [loc, fol, extra],
           "opts": ["-z", f"max-page-size={page:#x}", "--no-gc-sections", f"--threads={rng.choice([1, 4])}"],
           "tags": [f"page{page:#x}", "fixed+overaligned"], "pair": (loc["name"], ".text" if tag == "t" else fol["name"])}
    if mech == "secstart":
        scn["opts"].append(f"--section-start={loc['name']}={addr:#x}")
        scn["tags"].append("secstart")
    else:
        foln = ".text.fol" if tag == "t" else fol["name"]
        body = [f"    {loc['name']} {addr:#x} : {{ KEEP(*({loc['name']})) }}",
                f"    {foln} : {{ KEEP(*({foln})) }}"]
        lines = ["SECTIONS", "{", "    . = 0x600000;", "    .text : { *(.text) }", "    .rodata : { *(.rodata .rodata.*) }"]
        lines += body + ["    .data : { *(.data .data.*) }", "    .bss : { *(.bss .bss.*) }", "}"]
        scn["script"] = "\n".join(lines) + "\n"
        scn["tags"].append("script")
        scn["pair"] = (loc["name"], foln)
    return scn


def pair_effective(scn, path):
    """Did the dedicated scenario produce what it is for: both sections in one PT_LOAD, the
    over-aligned one after the fixed one?"""
    e = Elf(path)
    a, b = e.section(scn["pair"][0]), e.section(scn["pair"][1])
    if a is None or b is None or b["addr"] <= a["addr"]:
        return False
    page = int(scn["opts"][1].split("=")[1], 16)
    for p_ in e.segments:
        if p_["type"] == 1 and p_["vaddr"] <= a["addr"] and b["addr"] + b["size"] <= p_["vaddr"] + p_["memsz"]:
            return b["addralign"] > page
    return False


def gen_script(rng, secs, customs, absolute=True, far_ok=True):
    """A small SECTIONS script in the subset wild supports."""
    lines = ["SECTIONS", "{"]
    if absolute:
        lines.append(f"    . = {rng.choice([0x600000, 0x10000000, 0x200000000] if far_ok else [0x600000, 0x10000000]):#x};")
    lines.append("    .text : { *(.text .text.*) }")
    if rng.random() < 0.5:
        lines.append(f"    . = ALIGN({rng.choice([16, 4096, 65536])});")
    lines.append("    .rodata : { *(.rodata .rodata.*) }")
    cust = list(customs)
    rng.shuffle(cust)
    addr = 0x20000000 if absolute else None
    body = []
    for s in cust:
        if absolute and rng.random() < 0.5:
            addr += rng.choice([0x100000, 0x1000000, 0x100000000])
            body.append(f"    {s['name']} {addr + rng.choice([0, 0, 8, 0x11]):#x} : {{ KEEP(*({s['name']})) }}")
        elif rng.random() < 0.3:
            body.append(f"    {s['name']} : ALIGN({rng.choice([8, 64, 4096])}) {{ KEEP(*({s['name']})) }}")
        else:
            body.append(f"    {s['name']} : {{ KEEP(*({s['name']})) }}")
    data = ["    .data : { *(.data .data.*) }", "    .bss : { *(.bss .bss.*) }"]
    if rng.random() < 0.5:
        # NOBITS between PROGBITS: .bss before .data, customs in between
        data.reverse()
    k = rng.randrange(len(body) + 1)
    lines += body[:k] + [data[0]] + body[k:] + [data[1]]
    lines.append("}")
    return "\n".join(lines) + "\n"


def emit(scn, d, libs):
    """Write the scenario's objects; returns (inputs, link options incl. kind)."""
    arch = scn["arch"]
    dyn = scn["kind"] in ("pie", "dyn-nonpie", "shared")
    texts = {0: [], 1: [], 2: []}
    head = ['.section .text,"ax",%progbits', ".globl _start", ".type _start,%function", "_start:", "    .cfi_startproc"]
    if dyn and scn["kind"] != "shared":
        head.append(CALL[arch].rstrip("\n"))
    head += [START[arch].rstrip("\n"), "    .cfi_endproc"]
    texts[0].append("\n".join(head) + "\n")
    if dyn:
        texts[0].append('.section .data,"aw",%progbits\n.balign 8\ndynref:\n    .quad extd\n')
    for s in scn["secs"]:
        texts[s["obj"]].append(sec_asm(s, arch))
    objs = []
    for o, parts in texts.items():
        if parts:
            objs.append(asm.write_asm(d, f"o{o}", "".join(parts), arch=arch))
    args = [str(o) for o in objs]
    k = scn["kind"]
    interp = "/lib64/ld-linux-x86-64.so.2" if arch == "x86_64" else "/lib/ld-linux-aarch64.so.1"
    if k == "static":
        pass
    elif k == "static-pie":
        args += ["-static", "-pie"]
    elif k == "pie":
        args += ["-pie", f"--dynamic-linker={interp}", str(libs[arch])]
    elif k == "dyn-nonpie":
        args += [f"--dynamic-linker={interp}", str(libs[arch])]
    elif k == "shared":
        args += ["-shared", str(libs[arch])]
    elif k == "relocatable":
        args += ["-r"]
    if "script" in scn:
        p = Path(d) / "layout.ld"
        p.write_text(scn["script"])
        args += ["-T", str(p)]
    args += scn["opts"]
    if arch == "aarch64":
        args = ["-m", "aarch64linux"] + args
    return args


def scenario_class(scn):
    tags = [t for t in scn["tags"] if t in ("secstart", "secstart-collides-image", "script", "script-rel", "fixed+overaligned")]
    return f"{scn['kind']}:{'+'.join(tags) if tags else 'plain'}"


COLLIDE_CONJUNCTS = {"LoadOrder", "MemOverlap", "InLoad", "Perm", "FileMap", "Phdr"}
CLAUSE_POS = {"Header": 0, "Tls": 1, "Relro": 1, "Phdr": 1, "Extent": 1}


def parse_bad(bad):
    return [tuple(int(x) for x in m.split(",")) for m in re.findall(r"<<([-0-9, ]+)>>", bad)]


def failure_key(scn, f, o, failing=()):
    """Stable key of one failing conjunct on one output: conjunct (+ failed sub-clauses) and the
    input class.  Two input classes with a recorded finding get their own key."""
    conj = f["conjunct"]
    tuples = parse_bad(f["bad"])
    if conj == "Null0":
        return ("shdr0-nonzero", "section header 0 is not all-zero (sh_flags=SHF_ALLOC, sh_addr=image base): "
                                 "gABI requires the index-0 entry to be zero")
    clauses = ""
    if conj in CLAUSE_POS:
        clauses = ".c" + "+".join(str(c) for c in sorted({t[CLAUSE_POS[conj]] for t in tuples}))
    text = (f"WellFormed conjunct {conj}{clauses} fails on a wild output ({scn['arch']} {scn['kind']} "
            f"{scn['tags']}): offenders {f['bad']}")
    if conj == "Header" and clauses == ".c12" and "script" in scn and "--no-gc-sections" in scn["opts"]:
        secs = {s_["idx"]: s_ for s_ in o["secs"]}
        offenders = [secs[t[1]] for t in tuples]
        if any(s_["type"] == "SYMTAB" for s_ in offenders) and all(s_["type"] in ("SYMTAB", "RELA") and not s_["alloc"] and s_["link"] == 0 for s_ in offenders):
            return ("input-symtab-copied:script+no-gc-sections",
                    "with -T script and --no-gc-sections the input objects' .symtab/.strtab/.rela.* sections are copied "
                    f"into the output (an extra SHT_SYMTAB with sh_link=0): {text}")
    overlapping = bool({"LoadOrder", "MemOverlap", "InLoad"} & set(failing))
    if "secstart-collides-image" in scn["tags"] and (
            conj in COLLIDE_CONJUNCTS or (conj in ("Relro", "Tls") and overlapping)):
        return ("fixed-address-collides-image:overlap",
                "a --section-start / script address inside the range of the automatically placed part of the image is "
                f"accepted and segments overlap: {text}")
    return f"{conj}{clauses}:{scenario_class(scn)}", text


def link_population(ctx, d, rng, n, libs):
    scns = [gen_scenario(rng, i, ctx.quick) for i in range(n)]
    scns += [gen_fixed_overaligned(rng, j) for j in range(20 if ctx.quick else 80)]

    def job(s):
        sub = d / s["id"]
        sub.mkdir()
        s["dir"] = sub
        s["args"] = emit(s, sub, libs)
        r = run_wild(s["args"] + ["-o", str(sub / "out")], cwd=sub, timeout=60)
        return s, r

    with ThreadPoolExecutor(max_workers=8) as ex:
        return list(ex.map(job, scns))


def summarize(scn):
    return {"id": scn["id"], "arch": scn["arch"], "kind": scn["kind"], "tags": scn["tags"], "tls": scn["tls"],
            "sections": [f"{s['name']}/{s['flags']}{'/nobits' if s['nobits'] else ''}/a{s['align']}/s{s['size']}/o{s['obj']}"
                         for s in scn["secs"]],
            "opts": scn["opts"], "script": scn.get("script")}


def replay_dir(scn, fail_lines, name):
    meta = {"scenario": summarize(scn), "args": [str(a) for a in scn["args"]], "failures": fail_lines,
            "how": "wild <args> -o out; python: vlib.wellformed.check_outputs_wellformed([out])"}
    return save_replay(PROP, name, scn["dir"], meta=meta)


def run(ctx):
    cov = {"samples": []}
    rng = random.Random(ctx.seed)
    model_check(ctx, cov)
    build_wild()
    n_links = int(os.environ.get("C04_LINKS", 0)) or (180 if ctx.quick else 2400)
    declined = {}
    crashed = []
    observed = []
    with scratch("c04") as d:
        libs = {a: helper_lib(d, a) for a in ("x86_64", "aarch64")}
        t0 = ctx.elapsed()
        results = link_population(ctx, d, rng, n_links, libs)
        log(f"c04: {n_links} links generated+linked in {ctx.elapsed() - t0:.1f}s")
        obs = []
        by_id = {}
        for scn, r in results:
            if r.klass() in ("panic", "hang") or r.signaled:
                crashed.append({"id": scn["id"], "class": r.klass(), "err": r.err[-300:]})
                continue
            if r.rc != 0:
                lines = [ln.strip() for ln in r.err.strip().splitlines() if ln.strip()] or ["?"]
                msg = re.sub(r"/\S+", "<path>", lines[-1])
                msg = re.sub(r"-?\d+", "N", msg)
                declined.setdefault(msg[:100], []).append(scn["id"])
                continue
            out = scn["dir"] / "out"
            try:
                o = wf.observe_for_tla(out, scn["id"], scripted="script" in scn)
            except wf.ObserveError as e:
                raise ToolError(f"cannot encode observation of {scn['id']}: {e}")
            obs.append(o)
            by_id[scn["id"]] = scn
            observed.append(scn)
        ded = [s_ for s_ in observed if "fixed+overaligned" in s_["tags"]]
        eff = sum(1 for s_ in ded if pair_effective(s_, s_["dir"] / "out"))
        cov["fixed_then_overaligned_in_one_load"] = {"linked": len(ded), "effective": eff}
        if eff < 8:
            raise ToolError(f"dedicated fixed-address + over-aligned-follower links are not effective: {eff} of {len(ded)}")
        if len(obs) < 0.6 * n_links:
            raise ToolError(f"generator problem: only {len(obs)} of {n_links} links accepted; declined: "
                            + json.dumps({k: len(v) for k, v in declined.items()}))
        # GNU ld outputs of some of the same x86-64 inputs go through the same predicate (observer /
        # predicate sanity), and so do byte-patched copies of one wild output (binding demonstration)
        plain = [s_ for s_ in observed if s_["arch"] == "x86_64" and "script" not in s_
                 and not any(t.startswith("secstart") for t in s_["tags"])]
        gl = []
        for scn in plain[:12]:
            args = [a for a in scn["args"] if not str(a).startswith("--threads")]
            r = asm.gnu_ld(args + ["-o", str(scn["dir"] / "out.ld"), "-z", "separate-code"], cwd=scn["dir"])
            if r.rc == 0:
                gl.append(wf.observe_for_tla(scn["dir"] / "out.ld", "gnuld-" + scn["id"]))
        muts, mobs, mut_base = [], [], None
        cand = [s_ for s_ in plain if s_["kind"] != "relocatable"]
        if cand:
            mut_base = cand[0]
            raw = bytearray((mut_base["dir"] / "out").read_bytes())
            e = Elf(data=bytes(raw))
            load = [p for p in e.segments if p["type"] == 1][-1]
            sec = [s_ for s_ in e.sections if s_["flags"] & 2 and s_["size"] > 0 and s_["type"] != 8][0]
            muts = [("load.vaddr+8", wf.phdr_field_off(e, load["index"], "vaddr"), lambda v: v + 8, {"LoadCongruent", "InLoad", "FileMap"}),
                    ("sec.addr+1", wf.shdr_field_off(e, sec["index"], "addr"), lambda v: v + 1, {"SecAlign", "MemOverlap", "FileMap", "InLoad"}),
                    ("load.flags|=W|X", wf.phdr_field_off(e, load["index"], "type"), lambda v: v | (3 << 32), {"WX", "Perm"})]
            for label, off, fn, _exp in muts:
                b = bytearray(raw)
                wf.patch_u64(b, off, fn)
                mobs.append(wf.observe_for_tla(None, "mut-" + label, data=bytes(b)))
        t0 = ctx.elapsed()
        allfails, checked, res = wf.run_layout_obs(obs + gl + mobs, name="c04.obs", timeout=900 if ctx.quick else 2400)
        log(f"c04: TLC evaluated WellFormed on {len(obs)}+{len(gl)}+{len(mobs)} observations in {ctx.elapsed() - t0:.1f}s")
        fails = [f for f in allfails if not f["id"].startswith(("gnuld-", "mut-"))]
        gfails = [f for f in allfails if f["id"].startswith("gnuld-")]
        mf = [f for f in allfails if f["id"].startswith("mut-")]
        bad = [f for f in gfails if f["conjunct"] not in ("Perm", "Relro", "Tls", "LoadOrder")]
        if bad:
            raise ToolError(f"GNU ld outputs fail WellFormed conjuncts the predicate must accept: {bad[:4]}")
        cov["gnu_ld_reference_outputs"] = {"checked": len(gl), "layout_convention_differences": sorted({f["conjunct"] for f in gfails})}
        demo = []
        if mut_base is not None:
            base_fail = {f["conjunct"] for f in fails if f["id"] == mut_base["id"]}
            for label, _off, _fn, exp in muts:
                got = {f["conjunct"] for f in mf if f["id"] == "mut-" + label} - base_fail
                demo.append({"mutation": label, "of": mut_base["id"], "newly_rejected_by": sorted(got)})
                if not (got & exp):
                    raise ToolError(f"binding demonstration failed: patched output ({label}) was accepted (got {got})")
        # group failures per (scenario, conjunct)
        per = {}
        for f in fails:
            per.setdefault(f["id"], []).append(f)
        obs_by_id = {o["id"]: o for o in obs}
        for ident, fl in per.items():
            scn = by_id[ident]
            for f in fl:
                key, text = failure_key(scn, f, obs_by_id[ident], [g["conjunct"] for g in fl])
                ctx.verdict.report(key, text, lambda scn=scn, fl=fl: replay_dir(scn, fl, f"{scn['id']}-seed{ctx.seed}"))
        for scn in observed[:3]:
            cov["samples"].append(summarize(scn))
        # observer vs readelf on a sample
        disc = []
        for scn in observed[:: max(1, len(observed) // 20)]:
            dd = wf.crosscheck_with_readelf(scn["dir"] / "out")
            if dd:
                disc.append((scn["id"], dd[:5]))
        if disc:
            raise ToolError(f"observer disagrees with readelf: {disc[:3]}")
        cov["binding_demo"] = demo
    kinds = {}
    for s in observed:
        kinds[f"{s['arch']}:{s['kind']}"] = kinds.get(f"{s['arch']}:{s['kind']}", 0) + 1
    cov["traces_validated_against_impl"] = len(observed)
    cov["observed_by_kind"] = kinds
    cov["observed_by_feature"] = {t: sum(1 for s in observed if t in s["tags"]) for t in
                                  ("secstart", "secstart-collides-image", "script", "script-rel", "norelro")}
    cov["links_declined_by_wild"] = {k: len(v) for k, v in declined.items()}
    cov["links_crashed"] = crashed[:5]
    cov["conjuncts"] = ["MemOverlap", "FileOverlap", "InLoad", "Perm", "FileMap", "WX", "LoadCongruent", "LoadOrder",
                        "SecAlign", "Tls", "Relro", "Dynamic", "Interp", "Phdr", "Header", "Extent", "Null0"]
    cov["samples"] = trim_samples(cov["samples"], 3, 1500)
    return {
        "level": "model_checking",
        "coverage": cov,
        "assumptions": [
            "the population of real links is sampled (seeded generator); only the placement model is exhaustive, on scaled constants",
            "memory coordinates are squeezed by an order- and residue-preserving map before TLC sees them (file coordinates are exact)",
            "relro-eligible sections are classified by name/type following the GNU ld convention (.init_array, .fini_array, .data.rel.ro, .dynamic, .tdata must be protected; .data/.bss/custom sections must stay writable)",
            "AArch64 outputs are observed, never executed",
        ],
    }
