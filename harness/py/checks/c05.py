"""C05 - Garbage collection keeps everything reachable.

Spec: GcTraversal.tla (Closure: with no errors the handled set is exactly the closure of the roots
under the request graph, for every interleaving) and GcObs.tla (the same reachability operator
evaluated on observations of real links).
Binding:
 (R) TLC enumerates every request graph on 3 items (512 graphs, x root sets) with the set the model
     keeps; each becomes a real 4-object program (one function section per item, call edges as the
     graph says, _start referencing the roots) linked by wild with default GC; the sections found in
     the output (marker bytes) must include the model's kept set.
 (O) seeded random graphs (functions, data sections pointing at functions, C-identifier-named
     sections kept through __start_/__stop_ references, 3..12 objects) are linked with GC on and off,
     1..16 threads, one file per group; graph + observed kept set go to TLC, which evaluates
     KeepsReachable on every observation.
"""
import json
import random
from concurrent.futures import ThreadPoolExecutor

from vlib import asm, tlc
from vlib.common import SPECS, ToolError, build_wild, run_wild, save_replay, scratch, sh, trim_samples

PROP = "C05"
META = {
    "ready": True,
    "level": "model_checking",
    "technique": "TLA+ traversal model (Closure under all interleavings) checked by TLC; every enumerated request graph replayed as a real link and random larger graphs validated as observations by a TLA+ reachability module",
    "level_text": "All 512 digraphs on 3 work items (cycles, self-loops, edges into the delayed synthetic group) are model-checked for Closure under every interleaving and each is replayed as a real multi-object link whose kept sections must contain the model's kept set; larger seeded graphs (functions, data pointers, dependency-only relocations, C-identifier-named section sets referenced through __start_X, __stop_X or both - the rule that either keeps every member is stated in GcObs.tla -, GC on/off, threads, one file per group) are observed and KeepsReachable is evaluated on them by TLC.",
    "level_note": "Kept sections are detected by unique marker bytes in the output file; roots exercised: entry symbol, references via named symbols, data pointers, __start_/__stop_ sections. Exported-symbol, KEEP and init-array roots are covered by other checks' scenarios only.",
    "engine": "tlc",
}


def enum_part(ctx, cov, d):
    cfg = "mc/GcEnum_quick.cfg" if ctx.quick else "mc/GcEnum_thorough.cfg"
    r = tlc.run_tlc("MCGcEnum", cfg, workers=8, timeout=1800, coverage=False)
    if not r.ok:
        raise ToolError(f"GcTraversal enumeration failed: {r.violated} {r.error_text}")
    recs = {json.dumps(x, sort_keys=True): x for x in r.records}.values()
    cov["states"], cov["transitions"] = r.distinct, r.generated
    items = ["a", "b", "c"]
    jobs = []
    for k, rec in enumerate(recs):
        succ = rec["succ"]
        roots = rec["roots"]
        rootset = set()
        for v in (roots.values() if isinstance(roots, dict) else roots):
            rootset |= set(v)
        jobs.append((k, succ, sorted(rootset), set(rec["done"])))
    rng = random.Random(ctx.seed)
    if ctx.quick:
        rng.shuffle(jobs)
        jobs = jobs[:200]

    def one(j):
        k, succ, roots, done = j
        sub = d / f"e{k}"
        sub.mkdir()
        objs = []
        body = '.section .text._start,"ax",@progbits\n.globl _start\n_start:\n' + \
               "".join(f"    call fn_{x}\n" for x in roots) + asm.EXIT_X86
        objs.append(asm.write_asm(sub, "start", body))
        for it in items:
            t = f'.section .text.fn_{it},"ax",@progbits\n.globl fn_{it}\nfn_{it}:\n'
            t += "".join(f"    call fn_{y}\n" for y in succ[it]) + "    ret\n" + f'    .ascii "{asm.marker(it)}"\n'
            objs.append(asm.write_asm(sub, f"o_{it}", t))
        args = [str(o) for o in objs] + ["-o", str(sub / "out"), f"--threads={1 + k % 4}"]
        r = run_wild(args, env={"WILD_FILES_PER_GROUP": "1", "WILD_VERIF_YIELD_SEED": str(k)}, timeout=60)
        kept = None
        if r.rc == 0:
            data = (sub / "out").read_bytes()
            kept = {it for it in items if asm.marker(it).encode() in data}
        return j, sub, args, r, kept

    with ThreadPoolExecutor(max_workers=8) as ex:
        results = list(ex.map(one, jobs))
    extra = 0
    for (k, succ, roots, done), sub, args, r, kept in results:
        if kept is None:
            raise ToolError(f"enumerated graph link failed: {r}")
        if not done <= kept:
            ctx.verdict.report("reachable-section-dropped:enumerated-graph",
                               f"graph succ={succ} roots={roots}: model keeps {sorted(done)}, wild kept {sorted(kept)}",
                               lambda: save_replay(PROP, f"enum-{k}", sub, meta={"succ": succ, "roots": roots, "expected": sorted(done), "kept": sorted(kept), "args": args}))
        if kept - done:
            extra += 1
    cov["enumerated_graphs_replayed"] = len(results)
    cov["enumerated_graphs_with_unreachable_kept"] = extra
    return [{"succ": j[1], "roots": j[2], "model_keeps": sorted(j[3])} for j in jobs[:2]]


def random_part(ctx, cov, d):
    rng = random.Random(ctx.seed + 1)
    n = 40 if ctx.quick else 400
    obs = []
    metas = []
    for k in range(n):
        sub = d / f"g{k}"
        sub.mkdir()
        scn = asm.gc_scenario(rng, rng.choice([3, 5, 8, 12]), rng.choice([6, 12, 25]), p_edge=rng.choice([0.05, 0.12, 0.25]),
                              n_sets=rng.choice([0, 1, 2]))
        objs = asm.gc_emit_x86(scn, sub)
        gc = rng.random() < 0.75
        threads = rng.choice([1, 2, 4, 16])
        args = [str(o) for o in objs] + ["-o", str(sub / "out"), f"--threads={threads}"] + ([] if gc else ["--no-gc-sections"])
        env = {"WILD_FILES_PER_GROUP": str(rng.choice([1, 2, 64])), "WILD_VERIF_YIELD_SEED": str(rng.getrandbits(30))}
        r = run_wild(args, env=env, timeout=60)
        if r.rc != 0:
            # the generated program is valid by construction: GNU ld must agree, then wild's failure contradicts C05's
            # premise-free reading (a reachable section - here the one a boundary symbol refers to - was dropped or the
            # traversal failed) and is reported; if GNU ld rejects the inputs too, the generator is at fault
            g = asm.gnu_ld([str(o) for o in objs] + ["-o", str(sub / "out.ld")] + (["--gc-sections"] if gc else []))
            if g.rc != 0:
                raise ToolError(f"random graph link failed in wild AND GNU ld (generator bug?): {r} / {g}")
            ctx.verdict.report(f"valid-link-{r.klass()}",
                               f"a valid generated program (GNU ld links it) fails in wild with gc={gc} threads={threads}: {r.err[-300:]}",
                               lambda sub=sub, args=args, env=env: save_replay(PROP, f"link-fails-{k}", sub, meta={"args": args, "env": env, "stderr": r.err[-2000:]}))
            continue
        nodes = sorted(asm.gc_all_nodes(scn))
        idx = {nm: i + 1 for i, nm in enumerate(nodes)}
        edges = []
        for f in scn["funcs"]:
            for g in scn["edges"][f] + scn["data_edges"].get(f, []):
                edges.append([idx[f], idx[g]])
        for dn, dd in scn["datas"].items():
            edges += [[idx[dn], idx[g]] for g in dd["points_to"]]
        for sname, s in scn["sets"].items():
            for o in s["members"]:
                edges += [[idx[f"{sname}@{o}"], idx[g]] for g in s["member_points_to"][o]]
        # references to the boundary symbols of a C-identifier-named section set: the RULE (either symbol keeps every
        # section of that name, in every file) is stated in GcObs.tla, the harness only reports who references what
        snames = sorted(scn["sets"])
        setrefs = [[idx[f], si + 1, asm.set_ref_mode(f, sname)] for si, sname in enumerate(snames)
                   for f in scn["funcs"] if f in scn["sets"][sname]["referenced_by"]]
        setmembers = [[si + 1, idx[f"{sname}@{o}"]] for si, sname in enumerate(snames) for o in scn["sets"][sname]["members"]]
        kept = sorted(idx[x] for x in asm.kept_nodes(sub / "out", scn))
        obs.append({"id": k, "n": len(nodes), "edges": edges, "setrefs": setrefs, "setmembers": setmembers,
                    "roots": [idx[scn["entry"]]], "kept": kept, "gc": gc, "mustkeep": []})
        metas.append((sub, args, env, nodes))
    # binding demonstration: drop a reachable node from a copy of an observation -> TLC must flag it
    src = next((o for o in obs if o["gc"] and len(o["kept"]) > 1), obs[0])
    bad = dict(src, kept=[x for x in src["kept"] if x != src["roots"][0]][:-1] + src["roots"], id=-1)
    bad["kept"] = [x for x in src["kept"] if x in src["roots"]]
    demo_needed = src["gc"] and len(src["kept"]) > len(bad["kept"])
    obs_all = obs + [bad]
    p = d / "obs.ndjson"
    p.write_text("\n".join(json.dumps(o) for o in obs_all) + "\n")
    r = tlc.run_tlc("GcObs", "mc/GcObs.cfg", workers=1, timeout=600, coverage=False, env={"OBS": str(p)},
                    jvm_opts=["-Xss1g"])
    import re
    m = re.search(r'"OBS-COUNT", (\d+)', r.out)
    if not m or int(m.group(1)) != len(obs_all):
        raise ToolError(f"GcObs did not evaluate the observations:\n{r.out[-2000:]}")
    bad = re.search(r'"OBS-BAD", \{([^}]*)\}', r.out)
    bad_idx = [int(x) for x in bad.group(1).split(",") if x.strip()] if bad else None
    if bad_idx is None:
        raise ToolError("GcObs output unparsable")
    if demo_needed and len(obs_all) not in bad_idx:
        raise ToolError("binding demonstration failed: observation with a dropped reachable node was not flagged by GcObs")
    cov["binding_demo"] = "observation with dropped reachable node flagged"
    for i in bad_idx:
        if i > len(obs):
            continue
        sub, args, env, nodes = metas[i - 1]
        o = obs[i - 1]
        ctx.verdict.report("reachable-section-dropped:random-graph",
                           f"observation {i}: TLC KeepsReachable is false (kept {len(o['kept'])} of {o['n']} nodes)",
                           lambda: save_replay(PROP, f"random-{i}", sub, meta={"args": args, "env": env, "observation": o, "nodes": nodes}))
    nc = re.search(r'"OBS-NOTCOLLECTED", \{([^}]*)\}', r.out)
    cov["random_graphs_observed"] = len(obs)
    cov["random_graphs_not_fully_collected"] = len([x for x in nc.group(1).split(",") if x.strip()]) if nc else 0
    return [{"nodes": obs[0]["n"], "edges": obs[0]["edges"][:8], "kept": obs[0]["kept"][:10], "gc": obs[0]["gc"]}]


def run(ctx):
    cov = {}
    build_wild()
    with scratch("c05") as d:
        s1 = enum_part(ctx, cov, d)
        s2 = random_part(ctx, cov, d)
    cov["traces_validated_against_impl"] = cov["enumerated_graphs_replayed"] + cov["random_graphs_observed"]
    cov["samples"] = trim_samples(s1 + s2, 4, 900)
    return {"level": "model_checking", "coverage": cov,
            "assumptions": ["kept sections detected by marker bytes", "x86-64 only"]}
