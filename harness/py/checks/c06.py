"""C06 - Output bytes are deterministic.

Spec side: confluence of the concurrent models - every terminal state TLC reaches for one scenario of
GcTraversal has the same kept set (MCGcEnum records grouped by scenario), StringMerge consumes
groups per bucket strictly in group order (InGroupOrder, checked by C40's configs), Lifecycle's
success outcome is `complete` for every prior-output state and write mode.
Binding: a corpus of generated programs chosen to hit every ordering mechanism (many objects and
groups, multi-group string merging in two output sections, a shared object with hundreds of exported
and versioned symbols incl. foo@V1 / foo@@V2, unwind tables) is linked under the matrix
threads x WILD_FILES_PER_GROUP x --wild-experiments grouping values x seeded yields x prior output
state (absent, shorter, longer, random bytes, identical) x write mode x fork; the sha256 of the
output must be one value per program.
"""
import hashlib
import os
import random
from concurrent.futures import ThreadPoolExecutor

from vlib import asm, strgen, tlc
from vlib.common import ToolError, build_wild, run_wild, save_replay, scratch, sha256, trim_samples
from vlib import lifecycle as lc

PROP = "C06"
META = {
    "ready": True,
    "level": "exploration",
    "technique": "confluence of the TLA+ concurrency models checked by TLC (unique terminal result per scenario over all interleavings) + replay of a program corpus under a matrix of thread counts, partitioning knobs, seeded schedules, prior output states and write modes, comparing output hashes",
    "level_text": "TLC shows the traversal model's result is the same in every terminal state of a scenario; 4 generated programs covering the ordering mechanisms are each linked >= 40 (quick) / 400 (thorough) times under varied threads, files-per-group, grouping experiments, yield seeds, 5 prior-output states, 3 write modes, fork/no-fork, and every output must hash identically.",
    "level_note": "Implementation schedules are sampled. Build-id modes other than the default are not varied here.",
    "engine": "tlc",
}


def model_confluence(cov):
    r = tlc.run_tlc("MCGcEnum", "mc/GcReport.cfg", workers=4, timeout=600, coverage=False)
    if not r.ok:
        raise ToolError(f"GcTraversal confluence run failed: {r.violated}")
    by = {}
    for rec in r.records:
        by.setdefault((str(rec["succ"]), str(rec["roots"]), str(rec["soft"])), set()).add(str(sorted(rec["done"])))
    if any(len(v) != 1 for v in by.values()):
        raise ToolError("model: the kept set differs between terminal states of one scenario")
    cov["states"], cov["transitions"] = r.distinct, r.generated
    cov["model_scenarios_confluent"] = len(by)


def prog_gc(rng, d):
    scn = asm.gc_scenario(rng, 12, 40, p_edge=0.1, n_sets=2)
    return [str(o) for o in asm.gc_emit_x86(scn, d)], []


def prog_str(rng, d):
    scn = strgen.make_scenario(rng, n_objs=4, secs_per_obj=2, strings_per_sec=(80, 200), out_names=(".rodata", "vstrs"))
    return [str(p) for p in strgen.emit(scn, d)], ["--no-gc-sections"]


def prog_shared(rng, d):
    objs = []
    for o in range(6):
        t = []
        for i in range(60):
            nm = f"exp_{o}_{i}_{rng.getrandbits(20):x}"
            t += [f".globl {nm}", f".type {nm},@function", f'.section .text.{nm},"ax",@progbits', f"{nm}: ret"]
        # pairs of exported names with the SAME 32-bit GNU hash ('aQ' and 'b0' hash alike: 97*33+81 ==
        # 98*33+48), defined in different objects: any ordering of dynamic symbols that is keyed on the
        # hash alone leaves their relative order to scheduling / grouping
        for i in range(4):
            for suffix, owner in (("aQ", o), ("b0", (o + 1) % 6)):
                if owner == o and suffix == "aQ" or suffix == "b0" and False:
                    nm = f"col{o}_{i}_{suffix}"
                    t += [f".globl {nm}", f".type {nm},@function", f'.section .text.{nm},"ax",@progbits', f"{nm}: ret"]
            prev = (o - 1) % 6
            nm = f"col{prev}_{i}_b0"
            t += [f".globl {nm}", f".type {nm},@function", f'.section .text.{nm},"ax",@progbits', f"{nm}: ret"]
        if o == 0:
            t += ['.section .text.vers,"ax",@progbits', ".globl foo_v1", "foo_v1: ret", ".globl foo_v2", "foo_v2: ret",
                  ".symver foo_v1, foo@V1", ".symver foo_v2, foo@@V2",
                  ".globl bar_v1", "bar_v1: ret", ".globl bar_v2", "bar_v2: ret",
                  ".symver bar_v1, bar@V1", ".symver bar_v2, bar@@V2"]
        objs.append(str(asm.write_asm(d, f"sh{o}", "\n".join(t) + "\n")))
    vs = d / "v.map"
    vs.write_text("V1 { global: *; };\nV2 { global: foo; bar; } V1;\n")
    return objs, ["-shared", f"--version-script={vs}", "--hash-style=both"]


def prog_eh(rng, d):
    c = d / "eh.c"
    fns = "\n".join(f"int fn{i}(int x) {{ volatile int y = x * {i + 3}; return y + {i}; }}" for i in range(30))
    c.write_text(fns + "\nvoid _start(void) { int s = 0; " + " ".join(f"s += fn{i}(s);" for i in range(30)) +
                 " __asm__ volatile(\"mov $60,%%eax; xor %%edi,%%edi; syscall\" ::: \"memory\"); }\n")
    o = asm.cc(c, flags=["-O1", "-ffreestanding", "-fno-stack-protector", "-ffunction-sections", "-fasynchronous-unwind-tables"])
    c2 = d / "eh2.c"
    c2.write_text("\n".join(f"int gn{i}(int x) {{ return x ^ {i}; }}" for i in range(20)) + "\n")
    o2 = asm.cc(c2, flags=["-O1", "-ffreestanding", "-ffunction-sections", "-fasynchronous-unwind-tables"])
    return [str(o), str(o2)], ["--no-gc-sections", "--eh-frame-hdr"]


def prog_dynexe(rng, d):
    """A dynamically linked executable whose objects define symbols that shared libraries (built by
    GNU ld) reference, so they are exported through ExportDynamic requests; several pairs of names
    share their 32-bit GNU hash ('…aQ' / '…b0'), each pair split over two objects and requested by
    two different libraries."""
    pairs = [(f"cbk{i}_aQ", f"cbk{i}_b0") for i in range(6)]
    libs = []
    for li in range(2):
        t = [".text", f".globl use{li}", f"use{li}:"]
        for a, b in pairs:
            t.append(f"    call {(a, b)[li]}@PLT")
            if li == 0:
                t.append(f"    call {b}@PLT")       # library 0 asks for both, library 1 only for one
        t.append("    ret")
        o = asm.write_asm(d, f"lib{li}", "\n".join(t) + "\n")
        so = d / f"libuse{li}.so"
        asm.gnu_ld(["-shared", "-o", so, o], check=True)
        libs.append(str(so))
    objs = []
    body = ['.globl _start', '.section .text._start,"ax",@progbits', "_start:", "    call use0@PLT", "    call use1@PLT", asm.EXIT_X86]
    objs.append(str(asm.write_asm(d, "start", "\n".join(body) + "\n")))
    for oi in range(3):
        t = []
        for k, (a, b) in enumerate(pairs):
            for nm, owner in ((a, k % 3), (b, (k + 1) % 3)):
                if owner == oi:
                    t += [f".globl {nm}", f".type {nm},@function", f'.section .text.{nm},"ax",@progbits', f"{nm}: ret"]
        objs.append(str(asm.write_asm(d, f"def{oi}", "\n".join(t) + "\n")))
    return objs + libs, ["-dynamic-linker", "/lib64/ld-linux-x86-64.so.2", "--hash-style=gnu"]


PROGS = [("dynamic-exe-exports", prog_dynexe), ("gc-graph", prog_gc), ("string-merge", prog_str), ("shared-versions", prog_shared), ("eh-frame", prog_eh)]


def prior_state(rng, out, kind, ref_bytes):
    if kind == "absent":
        return
    if kind == "shorter":
        out.write_bytes(os.urandom(100))
    elif kind == "longer":
        out.write_bytes(os.urandom(len(ref_bytes) * 2 + 5000 if ref_bytes else 100000))
    elif kind == "random":
        out.write_bytes(os.urandom(len(ref_bytes) if ref_bytes else 5000))
    elif kind == "identical" and ref_bytes:
        out.write_bytes(ref_bytes)
    os.chmod(out, 0o755) if out.exists() else None


def run(ctx):
    cov = {}
    model_confluence(cov)
    build_wild()
    rng = random.Random(ctx.seed)
    reps = 40 if ctx.quick else 400
    samples = []
    total = 0
    with scratch("c06") as d:
        for name, gen in PROGS:
            pd = d / name
            pd.mkdir()
            inputs, extra = gen(rng, pd)
            (pd / "ref").mkdir()
            ref = pd / "ref" / ("lib.so" if "-shared" in extra else "prog")
            r = run_wild(inputs + extra + ["-o", str(ref), "--threads=1", "--no-fork"], timeout=120)
            if r.rc != 0:
                raise ToolError(f"{name}: reference link failed: {r}")
            ref_bytes = ref.read_bytes()
            ref_hash = hashlib.sha256(ref_bytes).hexdigest()
            variants = []
            for i in range(reps):
                v = {"threads": rng.choice([1, 2, 3, 4, 8, 16]),
                     "fpg": rng.choice(["1", "2", "7", "256", None]),
                     "exp": rng.choice([None, "_,256,1,1", "24,1024,8,64", "1,_,2,3", "_,_,1,400"]),
                     "seed": rng.getrandbits(30),
                     "prior": rng.choice(["absent", "shorter", "longer", "random", "identical"]),
                     "wmode": rng.choice([None, "--update-in-place", "--no-update-in-place"]),
                     "fork": rng.random() < 0.5, "mmap": rng.random() < 0.8}
                variants.append((i, v))

            def one(iv):
                i, v = iv
                out = pd / f"o{i}" / ("lib.so" if "-shared" in extra else "prog")
                out.parent.mkdir()
                prior_state(random.Random(v["seed"]), out, v["prior"], ref_bytes)
                args = inputs + extra + ["-o", str(out), f"--threads={v['threads']}"]
                if v["exp"]:
                    args.append(f"--wild-experiments={v['exp']}")
                if v["wmode"]:
                    args.append(v["wmode"])
                if not v["fork"]:
                    args.append("--no-fork")
                if not v["mmap"]:
                    args.append("--no-mmap-output-file")
                env = {"WILD_VERIF_YIELD_SEED": str(v["seed"])}
                if v["fpg"]:
                    env["WILD_FILES_PER_GROUP"] = v["fpg"]
                import subprocess
                p = subprocess.Popen([str(build_wild())] + args, env=dict(os.environ, **env), stdout=subprocess.PIPE,
                                     stderr=subprocess.PIPE, start_new_session=True)
                try:
                    so, se = p.communicate(timeout=120)
                except subprocess.TimeoutExpired:
                    os.killpg(p.pid, 9)
                    so, se = p.communicate()
                lc.wait_session_gone(p.pid, 30)
                h = sha256(out) if out.exists() else None
                return i, v, args, env, p.returncode, h, se.decode("utf-8", "replace")[-300:]

            with ThreadPoolExecutor(max_workers=6) as ex:
                results = list(ex.map(one, variants))
            total += len(results)
            hashes = {}
            for i, v, args, env, rc, h, err in results:
                if rc != 0:
                    raise ToolError(f"{name}: variant link failed rc={rc} {v} {err}")
                hashes.setdefault(h, []).append((i, v))
            samples.append({"program": name, "links": len(results), "distinct_hashes": len(hashes) + (0 if ref_hash in hashes else 1)})
            if set(hashes) != {ref_hash}:
                groups = [{"sha256": h, "count": len(v), "example": v[0][1]} for h, v in hashes.items()]
                ctx.verdict.report(
                    f"output-differs:{name}",
                    f"{name}: {len(set(hashes) | {ref_hash})} different output files over {len(results) + 1} links of the same inputs and arguments",
                    lambda: save_replay(PROP, name, None, files={}, meta={"inputs": inputs, "extra": extra, "reference_sha256": ref_hash, "groups": groups}))
    cov["evaluations"] = total
    cov["distinct_nontrivial"] = len(PROGS)
    cov["rule"] = "programs x random variants of (threads, files-per-group, grouping experiments, yield seed, prior output state, write mode, fork, mmap); distinct = programs; every variant is a full link"
    cov["samples"] = trim_samples(samples, 5, 600)
    cov["traces_validated_against_impl"] = total
    return {"level": "exploration", "coverage": cov, "assumptions": ["schedules sampled"]}
