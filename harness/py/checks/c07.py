"""C07 - String merging preserves every referenced string.

Spec: StrData.tla (ExpectedAt: what a reference at any offset of a mergeable string section must
read; Distinct: the strings that must occur in the output).
Binding:
 (R) MCStrData enumerates every pair of sections of <= 2 (thorough: 3) strings over a 2-letter
     alphabet (empty strings, duplicates, shared suffixes) with the expected bytes at every offset;
     each scenario becomes a real two-object link with a reference to every offset in both forms
     (named symbol + addend, section symbol + offset); the bytes the relocated pointers designate in
     the output must equal the spec's.
 (O) seeded larger scenarios (sections of several KB so that the 256-byte work groups of
     --wild-experiments split inside strings, 1..16 threads, split parallelism 1..24, two merged
     output sections) are observed and StrDataObs (TLC) evaluates RefOK / Missing on them.
 Unterminated data must be rejected with a diagnostic.
"""
import json
import random
import re
from concurrent.futures import ThreadPoolExecutor

from vlib import asm, strgen, tlc
from vlib.common import ToolError, build_wild, run_wild, save_replay, scratch, trim_samples
from vlib.elf import Elf

PROP = "C07"
META = {
    "ready": True,
    "level": "model_checking",
    "technique": "TLA+ data-layer spec of string merging; TLC-enumerated small sections replayed as real links (every offset, both reference forms) and larger seeded scenarios validated as observations by a TLA+ module",
    "level_text": "All pairs of sections with <= 2 strings from {'', a, b, ab, ba, aa, bba} (3136 scenarios; thorough: <= 3 strings) are enumerated by TLC with the expected bytes at every offset and replayed into real links; larger seeded scenarios with multi-KB sections, forced 256-byte work groups, 1-16 threads are observed (pointer targets, strings present) and checked by TLC against the same operators.",
    "level_note": "Static non-PIE x86-64 outputs (pointers are read directly from the output); entsize-1 string sections; non-string merge sections (aM) are not generated.",
    "engine": "tlc",
}
CH = {1: "a", 2: "b"}


def enum_part(ctx, cov, d):
    cfg = "mc/StrData_quick.cfg" if ctx.quick else "mc/StrData_thorough.cfg"
    r = tlc.run_tlc("MCStrData", cfg, workers=4, timeout=1800, coverage=False)
    if not r.ok:
        raise ToolError(f"StrData enumeration failed: {r.violated} {r.error_text}")
    recs = list({json.dumps(x, sort_keys=True): x for x in r.records}.values())
    cov["states"], cov["transitions"] = r.distinct, r.generated
    rng = random.Random(ctx.seed)
    rng.shuffle(recs)
    recs = recs[:250] if ctx.quick else recs[:6000]

    def one(kr):
        k, rec = kr
        sub = d / f"e{k}"
        sub.mkdir()
        secs = [rec["s1"], rec["s2"]]
        scn = {"objs": [[{"name": ".rodata", "strings": ["".join(CH[b] for b in s) for s in sec]}] for sec in secs],
               "refs": []}
        for o, key in enumerate(("e1", "e2")):
            for off in sorted(int(x) for x in rec[key]):
                scn["refs"] += [(o, 0, off, "sec"), (o, 0, off, "sym")]
        paths = strgen.emit(scn, sub)
        args = strgen.link_args(paths, sub / "out", [f"--threads={1 + k % 3}"])
        r = run_wild(args, timeout=60)
        if r.rc != 0:
            return k, rec, sub, args, r, None
        return k, rec, sub, args, r, strgen.observe_refs(scn, sub / "out")

    with ThreadPoolExecutor(max_workers=8) as ex:
        results = list(ex.map(one, list(enumerate(recs))))
    for k, rec, sub, args, r, obs in results:
        if obs is None:
            raise ToolError(f"enumerated string scenario failed to link: {r}")
        for item in obs:
            if item[0] == "reftab":
                raise ToolError(f"reference table not found: {item}")
            (o, _k, off, kind), ptr, _exp_py, got, _ = item
            exp = bytes(rec["e1" if o == 0 else "e2"][str(off)]).translate(bytes.maketrans(b"\x01\x02", b"ab"))
            if got != exp:
                ctx.verdict.report(
                    f"wrong-bytes:{kind}-reference",
                    f"sections {rec['s1']} / {rec['s2']}: {kind} reference to offset {off} of section {o} reads {got!r}, spec says {exp!r}",
                    lambda: save_replay(PROP, f"enum-{k}", sub, meta={"record": rec, "args": args, "ref": [o, off, kind], "got": repr(got), "expected": repr(exp)}))
                break
    cov["enumerated_scenarios_replayed"] = len(results)
    return [{"s1": recs[0]["s1"], "s2": recs[0]["s2"], "expected_at": recs[0]["e1"]}]


def strings_present(elf, names, wanted):
    data = b"".join(elf.section_data(s) for s in elf.sections if s["name"] in names)
    return [w for w in wanted if w in data]


def random_part(ctx, cov, d):
    rng = random.Random(ctx.seed + 3)
    n = 16 if ctx.quick else 150
    obs, metas = [], []
    for k in range(n):
        sub = d / f"r{k}"
        sub.mkdir()
        scn = strgen.make_scenario(rng, n_objs=rng.choice([2, 3, 4]), secs_per_obj=rng.choice([1, 2]),
                                   strings_per_sec=(40, 160), out_names=(".rodata", ".rodata", "vstrs"), refs_per_sec=12)
        paths = strgen.emit(scn, sub)
        args = strgen.link_args(paths, sub / "out", [f"--threads={rng.choice([1, 2, 4, 16])}",
                                                     f"--wild-experiments={rng.choice([1, 2, 24])},256"])
        env = {"WILD_VERIF_YIELD_SEED": str(rng.getrandbits(30))}
        r = run_wild(args, env=env, timeout=60)
        if r.rc != 0:
            raise ToolError(f"string scenario failed to link: {r}")
        e = Elf(sub / "out")
        flat = []          # sections in (object, k) order, as the refs index them
        index = {}
        for o, secs in enumerate(scn["objs"]):
            for kk, sec in enumerate(secs):
                index[(o, kk)] = len(flat) + 1
                flat.append([[ord(c) for c in s] for s in sec["strings"]])
        refs = []
        for item in strgen.observe_refs(scn, sub / "out"):
            if item[0] == "reftab":
                raise ToolError(f"reference table not found: {item}")
            (o, kk, off, kind), ptr, _e, got, _ = item
            refs.append({"sec": index[(o, kk)], "off": off, "got": list(got) if got is not None else [255]})
        wanted = set()
        for secs in scn["objs"]:
            for sec in secs:
                wanted |= {s.encode() + b"\0" for s in sec["strings"]}
        present = strings_present(e, {".rodata", "vstrs"}, sorted(wanted))
        obs.append({"secs": flat, "refs": refs, "present": [list(p) for p in present]})
        metas.append((sub, args, env))
    # binding demonstration: a corrupted copy of the first observation must be flagged by TLC
    bad = json.loads(json.dumps(obs[0]))
    bad["refs"][0]["got"] = [x ^ 1 for x in bad["refs"][0]["got"][:1]] + bad["refs"][0]["got"][1:]
    obs_all = obs + [bad]
    p = d / "obs.ndjson"
    p.write_text("\n".join(json.dumps(o) for o in obs_all) + "\n")
    r = tlc.run_tlc("StrDataObs", "mc/StrDataObs.cfg", workers=1, timeout=900, coverage=False, env={"OBS": str(p)},
                    jvm_opts=["-Xss1g"])
    m = re.search(r'"OBS-COUNT", (\d+)', r.out)
    done = re.search(r'"OBS-DONE", (\d+)', r.out)
    if not m or int(m.group(1)) != len(obs_all) or not done:
        raise ToolError(f"StrDataObs did not evaluate the observations:\n{r.out[-2500:]}")
    if not re.search(r'"OBS-BADREF", %d,' % len(obs_all), r.out):
        raise ToolError("binding demonstration failed: corrupted observation was not flagged by StrDataObs")
    cov["binding_demo"] = "corrupted observation flagged"
    for kind, pat in (("wrong-bytes:observed-reference", r'"OBS-BADREF", (\d+), (\{[^}]*\})'),
                      ("string-missing-from-output", r'"OBS-MISSING", (\d+), (\{.*?\}) >>')):
        for mm in re.finditer(pat, r.out, re.S):
            i = int(mm.group(1))
            if i > len(obs):
                continue          # the deliberately corrupted observation
            sub, args, env = metas[i - 1]
            ctx.verdict.report(kind, f"observation {i}: {mm.group(2)[:200]}",
                               lambda: save_replay(PROP, f"obs-{i}", sub, meta={"args": args, "env": env, "tlc": mm.group(0)[:500]}))
    cov["random_scenarios_observed"] = len(obs)
    cov["references_checked_by_tlc"] = sum(len(o["refs"]) for o in obs)
    return [{"sections": len(obs[0]["secs"]), "refs": obs[0]["refs"][:3]}]


def unterminated(ctx, cov, d):
    sub = d / "unterm"
    sub.mkdir()
    o = asm.write_asm(sub, "u", '.globl _start\n.section .text,"ax",@progbits\n_start: lea .Ls(%rip), %rax\n' + asm.EXIT_X86 +
                      '.section .rodata.str1.1,"aMS",@progbits,1\n.Ls: .ascii "no terminator"\n')
    r = run_wild([str(o), "-o", str(sub / "out")], timeout=60)
    cov["unterminated_outcome"] = r.klass()
    if r.klass() not in ("diagnostic",):
        if r.klass() == "success":
            # accepted: then the reference must still read the input bytes
            data = (sub / "out").read_bytes()
            if b"no terminator" not in data:
                ctx.verdict.report("unterminated-data-silently-dropped", "unterminated merge string accepted but its bytes are not in the output",
                                   lambda: save_replay(PROP, "unterminated", sub, meta={"rc": r.rc}))
        else:
            ctx.verdict.report(f"unterminated-data:{r.klass()}", f"unterminated merge-string data made wild {r.klass()}",
                               lambda: save_replay(PROP, "unterminated", sub, meta={"rc": r.rc, "stderr": r.err[-400:]}))


def run(ctx):
    cov = {}
    build_wild()
    with scratch("c07") as d:
        s1 = enum_part(ctx, cov, d)
        s2 = random_part(ctx, cov, d)
        unterminated(ctx, cov, d)
    cov["traces_validated_against_impl"] = cov["enumerated_scenarios_replayed"] + cov["random_scenarios_observed"]
    cov["samples"] = trim_samples(s1 + s2, 4, 700)
    return {"level": "model_checking", "coverage": cov,
            "assumptions": ["static non-PIE x86-64", "entsize 1 string sections"]}
