"""C08 - Dynamic symbol hash tables find every exported symbol.

1. TLC, exhaustive on a bounded model (specs/MCHashTables.tla over specs/HashTables.tla): wild's
   construction of .gnu.hash / .hash (sort by (bucket, name), chain words, stop bits, bloom filter,
   bucket heads; SysV bucket/chain fill) for every assignment of 6-bit hashes to a few names (each
   in one or more versions), 1/2/4 buckets, one or two bloom words, with and without undefined
   symbols in front, every input order for sysv-only; the loader's lookups (glibc do_lookup_x
   transcribed) must find every defined symbol (by name, and by name+version) and must answer
   "none" for the undefined name and for an absent name with any critical hash value.  The bloom
   word is selected as glibc does ((h/64) & (maskwords-1)) while wild's writer uses % bloom_count:
   a builder with 3 bloom words must be rejected.  Seven deliberately broken builders / parameter
   sets must each be rejected (anti-vacuity).
2. Observed-state validation (specs/HashTablesObs.tla, the same lookup operators at ELF64 sizes):
   generated shared objects (x86-64, AArch64) and --export-dynamic executables with 0..1000 (more
   in the thorough tier) exported names crafted to collide (one bucket, full 32-bit dl_new_hash
   collisions, elf_hash collisions, hashes equal but for bit 0), versioned duplicates, undefined
   symbols in front, --hash-style=gnu|sysv|both are linked by the real wild; the harness reads the
   tables through PT_DYNAMIC and hashes the names itself; TLC evaluates the lookups for every
   defined symbol and ~3x as many absent names.
3. Real loader: on x86-64 a host program dlopen()s every wild-linked library and dlsym()/dlvsym()s
   every name; executables are run with a library whose relocations bind to the executable's
   exported symbols.
4. Sanity of spec + observer: GNU ld's outputs for the same inputs go through the same TLC check and
   must pass.  Detection demo: corrupted copies of a wild output must be rejected.
"""
import json
import random
import re
from concurrent.futures import ThreadPoolExecutor
from pathlib import Path

from vlib import asm, hashobs, tlc
from vlib import elf as velf
from vlib.common import ToolError, build_wild, log, run_wild, save_replay, scratch, sh, trim_samples

PROP = "C08"
META = {
    "ready": True,
    "level": "model_checking",
    "technique": "TLA+ spec of the glibc GNU/SysV hash lookups and of wild's table construction, exhaustively "
                 "model-checked with TLC on a bounded instance; the same lookup operators evaluated by TLC on tables "
                 "observed in real wild outputs; dlopen/dlsym cross-check",
    "level_text": "TLC checks exhaustively, for every assignment of 6-bit hashes to up to 2-3 names in up to 3 versions "
                  "(<= 5 symbols), 1/2/4(/8) buckets, 1/2(/4) bloom words, both tie orders of versioned duplicates and "
                  "every input order for sysv-only tables, that the loader's lookups on wild's modelled tables find "
                  "every defined symbol and nothing else; the identical lookup operators, instantiated at ELF64 sizes, "
                  "are evaluated by TLC on the .gnu.hash/.hash/.dynsym of generated real outputs (0..1000+ exported "
                  "names, crafted bucket and full-hash collisions, versioned duplicates, all --hash-style values, "
                  "x86-64 and AArch64, shared objects and --export-dynamic executables) for every defined symbol and "
                  "~3x as many absent names; on x86-64 the real glibc loader resolves every name as well.",
    "level_note": "Name sets of real outputs are sampled (seeded), only the bounded model is exhaustive; trusted base: "
                  "TLC, the harness's ELF reader and hash functions (cross-checked against glibc through dlsym and "
                  "against GNU ld outputs), the <<hi,lo>> integer encoding (cross-checked against an integer "
                  "re-implementation on every observation).",
    "engine": "tlc",
}

BROKEN = ["unsorted", "stopearly", "symoff", "bloomshift", "sysvlast", "bloomwords", "bloomwords_assert"]
IMPORTS = ["getpid", "strlen", "abs", "atoi", "labs", "toupper", "tolower"]
LDSO = "/lib64/ld-linux-x86-64.so.2"


# ---------------------------------------------------------------------------------------------
# 1. the bounded model


def model_check(ctx, cov, workers):
    runs = []
    cfgs = [("mc/HashTables_quick.cfg", 1500)] if ctx.quick else \
        [("mc/HashTables_thorough.cfg", 1500), ("mc/HashTables_thorough2.cfg", 1500),
         ("mc/HashTables_quick.cfg", 900), ("mc/HashTables_full.cfg", 1200)]
    states = trans = 0

    def broken(v):
        return v, tlc.run_tlc("MCHashTables", f"mc/HashTables_broken_{v}.cfg", workers=1, timeout=900, coverage=False,
                              name=f"c08.broken.{v}.{ctx.seed}")

    def main_run(ct):
        cfg, to = ct
        return cfg, to, tlc.run_tlc("MCHashTables", cfg, workers=workers, timeout=to,
                                    name=f"c08.{Path(cfg).stem}.{ctx.seed}")

    with ThreadPoolExecutor(max_workers=2) as ex, ThreadPoolExecutor(max_workers=1 if ctx.quick else 2) as ex2:
        broken_results = ex.map(broken, BROKEN)        # alongside the main runs
        for cfg, to, r in ex2.map(main_run, cfgs):
            runs.append({"cfg": cfg, **r.summary()})
            if r.timed_out:
                if ctx.quick:
                    raise ToolError(f"model check {cfg} timed out after {to}s ({r.distinct} states)")
                # TLC prints the totals only at the end: take the last progress line
                pm = re.findall(r"Progress\(\d+\) at [^:]*:[^:]*:[^:]*: ([\d,]+) states generated.*?([\d,]+) distinct states found", r.out)
                if pm:
                    r.generated, r.distinct = (int(x.replace(",", "")) for x in pm[-1])
                    runs[-1].update(states=r.distinct, transitions=r.generated)
                log(f"{cfg}: timed out after {to}s with {r.distinct} distinct states (counted as partial)")
                runs[-1]["partial"] = True
                states += r.distinct
                trans += r.generated
                continue
            if not r.ok:
                # the model of wild's construction violates the property: a statement about the
                # transcription until reproduced against the binary (part 2 does that) -> tool error
                raise ToolError(f"HashTables model check failed ({cfg}): {r.violated} {r.error_text}\n{r.trace_text[:3000]}")
            missing = tlc.zero_coverage_actions(r, ["AddName", "AddDup"])
            if missing:
                raise ToolError(f"vacuous model run {cfg}: actions never taken: {missing}")
            states += r.distinct
            trans += r.generated
        for v, r in broken_results:
            if r.ok or not r.violated:
                raise ToolError(f"broken builder '{v}' was NOT rejected by the model: the invariants are vacuous\n{r.out[-1500:]}")
            runs.append({"cfg": f"mc/HashTables_broken_{v}.cfg", "expected_violation": r.violated,
                         "states_to_find": r.distinct})
    cov["states"] = states
    cov["transitions"] = trans
    cov["tlc_runs"] = runs


# ---------------------------------------------------------------------------------------------
# 2. cases


class Case:
    pass


def plan_names(rng, n, strategy, birthday_pairs):
    """n distinct exported names according to the strategy."""
    names, seen = [], set()

    def add(nm):
        if nm not in seen and len(names) < n:
            seen.add(nm)
            names.append(nm)

    nb = hashobs.wild_gnu_buckets(n + 4)
    if strategy == "bucket" and n >= 2:
        mod = min(nb, 64) if n > 200 else max(nb, 2)
        res = rng.randrange(mod)
        for nm in hashobs.names_mod(rng, (n + 1) // 2, mod, res, velf.gnu_hash_name):
            add(nm)
        # the other half collides in the SysV hash (same modulus)
        for nm in hashobs.names_mod(rng, n - len(names), mod, rng.randrange(mod), velf.sysv_hash_name, taken=seen):
            add(nm)
    elif strategy == "multi" and n >= 2:
        while len(names) < n:
            k = min(rng.choice([2, 3, 4, 8, 16]), n - len(names))
            if k < 2:
                add(hashobs.rand_name(rng))
                continue
            for nm in hashobs.multiway_gnu_collision(rng, k):
                add(nm)
            # and an elf_hash collider / low-bit neighbour of a member, defined as well
            base = names[-1]
            for c in (hashobs.sysv_colliders(base)[:1] + hashobs.lowbit_neighbours(base)[:1]):
                add(c)
    elif strategy == "birthday" and n >= 2:
        for a, b in birthday_pairs:
            if rng.random() < 0.7:
                add(a)
                add(b)
            else:
                add(a)        # b stays absent: it becomes a probe (see absent list)
    elif strategy == "odd":
        for nm in ["_", "a", "A0", "x" * 200, "y" * 1000, "s.dot", "s$dollar", "_Z3fooIiEvT_", "a1", "a2", "b1", "Aa", "BB"]:
            add(nm)
    while len(names) < n:
        add(hashobs.rand_name(rng, 1 if strategy == "odd" else 3, 12))
    rng.shuffle(names)
    return names


def make_case(rng, root, idx, n, birthday_pairs, force=None):
    """Generate inputs for one link.  Returns a Case (nothing is linked yet)."""
    force = force or {}
    c = Case()
    c.idx = idx
    c.n = n
    c.kind = force.get("kind") or rng.choice(["so", "so", "so", "exe-pie", "exe"])
    c.arch = force.get("arch") or ("x86_64" if c.kind != "so" else rng.choice(["x86_64", "x86_64", "aarch64"]))
    c.style = force.get("style") or rng.choice(["gnu", "sysv", "both", "both", "default"])
    c.strategy = force.get("strategy") or rng.choice(["plain", "bucket", "multi", "birthday", "odd"])
    c.n_dup = force.get("n_dup", rng.choice([0, 0, 1, 2, 5]) if c.kind == "so" and n >= 1 else 0)
    c.n_dup = min(c.n_dup, n)
    c.n_imp = force.get("n_imp", rng.choice([0, 0, 1, 3, 7]) if c.kind == "so" else 0)
    c.vscript_local = c.n_dup > 0 and rng.random() < 0.4
    c.threads = force.get("threads") or rng.choice([None, None, 1, 2, 8])
    c.id = f"c{idx}.{c.arch}.{c.kind}.n{n}.{c.style}.{c.strategy}.d{c.n_dup}.u{c.n_imp}"
    c.dir = root / f"c{idx}"
    c.dir.mkdir()
    names = plan_names(rng, n, c.strategy, birthday_pairs)
    c.names = names
    entries = []           # assembly definitions (symbol, id, kind)
    c.expect = []          # (name, version|None, kind, id) for dlsym/dlvsym
    symver = []
    ident = 100
    dup = set(names[:c.n_dup])
    for k, nm in enumerate(names):
        kind = "d" if (c.kind != "so" or k % 2) else "f"
        if c.kind != "so" and k % 5 == 4:
            kind = "f"
        if nm in dup:
            i1, i2 = f"c08i_{k}_v1", f"c08i_{k}_v2"
            entries += [(i1, ident, kind), (i2, ident + 1, kind)]
            symver += [f".symver {i1}, {nm}@V1", f".symver {i2}, {nm}@@V2"]
            c.expect += [(nm, "V1", kind, ident), (nm, "V2", kind, ident + 1), (nm, None, kind, ident + 1)]
            if not c.vscript_local:
                c.expect += [(i1, None, kind, ident), (i2, None, kind, ident + 1)]
            ident += 2
        else:
            entries.append((nm, ident, kind))
            c.expect.append((nm, None, kind, ident))
            ident += 1
    c.entries = entries
    text = hashobs.emit_defs(c.arch, entries) + "\n".join(symver) + "\n"
    c.imports = IMPORTS[:c.n_imp]
    text += hashobs.emit_imports(c.arch, c.imports)
    c.objs = []
    c.extra_inputs = []
    c.vscript = None
    if c.n_dup:
        v1 = sorted(dup) + [nm for k, nm in enumerate(names) if nm not in dup and k % 3 == 0]
        vs = "V1 { global: " + " ".join(f'"{x}";' for x in v1) + (" local: *; " if c.vscript_local else "") + "};\n"
        vs += "V2 { global: " + " ".join(f'"{x}";' for x in sorted(dup)) + " } V1;\n"
        c.vscript = c.dir / "v.map"
        c.vscript.write_text(vs)
        if c.vscript_local:
            # only what the script lists stays exported
            keep = set(v1)
            c.expect = [e for e in c.expect if e[0] in keep]
            c.expect += [(x, "V1", k, i) for (x, v, k, i) in list(c.expect) if v is None and x not in dup]
    if c.kind == "so":
        c.objs.append(asm.write_asm(c.dir, "defs", text, arch=c.arch))
    else:
        start = ".text\n.globl _start\n.type _start,@function\n_start:\n    call probe_check@PLT\n" \
                "    mov %eax, %edi\n    mov $60, %eax\n    syscall\n"
        c.objs.append(asm.write_asm(c.dir, "defs", text + start, arch=c.arch))
        data = [(s, i) for (s, i, k) in entries if k == "d"]
        lib = [".text", ".globl probe_check", ".type probe_check,@function", "probe_check:",
               "    lea c08_tab(%rip), %rsi", "    xor %eax, %eax", f"    mov ${len(data)}, %ecx",
               "1:  test %ecx, %ecx", "    jz 2f", "    mov (%rsi), %rdx", "    mov 8(%rsi), %r8",
               "    cmp %r8d, (%rdx)", "    je 3f", "    inc %eax", "3:  add $16, %rsi", "    dec %ecx",
               "    jmp 1b", "2:  ret", ".data", ".balign 8", "c08_tab:"]
        for s, i in data:
            lib += [f"    .quad {hashobs._q(s)}", f"    .quad {i}"]
        lo = asm.write_asm(c.dir, "probe", "\n".join(lib) + "\n")
        asm.gnu_ld(["-shared", "-o", c.dir / "libprobe.so", lo, "-soname", "libprobe.so"], check=True)
        c.extra_inputs = [c.dir / "libprobe.so"]
    c.out = c.dir / ("out.so" if c.kind == "so" else "out.exe")
    return c


def link_args(c, out, linker="wild"):
    a = []
    if c.arch == "aarch64":
        a += ["-m", "aarch64linux"]
    if c.kind == "so":
        a += ["-shared", "-soname", "libc08case.so"]
    else:
        a += ["--export-dynamic", "-dynamic-linker", LDSO]
        a += ["-pie"] if c.kind == "exe-pie" else (["-no-pie"] if linker != "wild" else [])
    if c.style != "default":
        a.append(f"--hash-style={c.style}")
    if c.vscript:
        a.append(f"--version-script={c.vscript}")
    if c.threads and linker == "wild":
        a.append(f"--threads={c.threads}")
    a += ["-o", str(out)] + [str(o) for o in c.objs] + [str(x) for x in c.extra_inputs]
    return a


def wants(c):
    st = "both" if c.style == "default" else c.style
    return st in ("gnu", "both"), st in ("sysv", "both")


# ---------------------------------------------------------------------------------------------
# TLC over observations

_OBS_RE = re.compile(r'^<<"C08OBS", "((?:[^"\\]|\\.)*)", (\d+), (\d+), (\d+), (\d+)>>$')
_HDR_RE = re.compile(r'^<<"C08HDR", "((?:[^"\\]|\\.)*)", "(\w+)", (\d+)>>$')
_FAIL_RE = re.compile(r'^<<"C08FAIL", "((?:[^"\\]|\\.)*)", "(gnu|sysv)", "(def|probe)", (\d+), "((?:[^"\\]|\\.)*)", '
                      r'\[st \|-> "(\w+)", idx \|-> (\d+)\]>>$')


def tlc_check_observations(obs_list, d, workers, timeout, name):
    """One TLC run over all observations.  Returns {id: {"defined", "probes", "fails": [...]}}."""
    od = hashobs.dump_obs(obs_list, d)
    r = tlc.run_tlc("HashTablesObs", "mc/HashTablesObs.cfg", workers=workers, timeout=timeout, coverage=False,
                    env={"OBSDIR": str(od), "NOBS": str(len(obs_list))}, extra=["-continue"],
                    jvm_opts=["-Xss512m", "-Xmx6g"], name=name)
    if r.timed_out:
        raise ToolError(f"TLC timed out on {len(obs_list)} observations after {timeout}s")
    res = {}
    # TLC pretty-prints long tuples over several lines: take whole <<"C08...>> records
    for m0 in re.finditer(r'<<\s*"C08(?:OBS|FAIL|HDR)",.*?>>', r.out, re.S):
        ln = re.sub(r"\s+", " ", m0.group(0)).replace("<< ", "<<").replace(" >>", ">>")
        m = _OBS_RE.match(ln)
        if m:
            res.setdefault(m.group(1), {"fails": []}).update(
                defined=int(m.group(2)), probes=int(m.group(3)), nbad_gnu=int(m.group(4)), nbad_sysv=int(m.group(5)))
            continue
        m = _HDR_RE.match(ln)
        if m:
            res.setdefault(m.group(1), {"fails": []})["hdr"] = (m.group(2), int(m.group(3)))
            continue
        m = _FAIL_RE.match(ln)
        if m:
            res.setdefault(m.group(1), {"fails": []})["fails"].append(
                dict(table=m.group(2), what=m.group(3), index=int(m.group(4)), name=m.group(5), st=m.group(6),
                     idx=int(m.group(7))))
            continue
        raise ToolError(f"unparsable C08 line from TLC: {ln[:300]}")
    ids = [o["id"] for o in obs_list]
    missing = [i for i in ids if i not in res or "defined" not in res[i]]
    if missing:
        raise ToolError(f"TLC did not evaluate observations {missing[:5]} (of {len(ids)}):\n{r.out[-3000:]}")
    any_fail = any(v["fails"] or v.get("hdr") for v in res.values())
    if any_fail != (r.violated is not None):
        raise ToolError(f"TLC verdict ({r.violated}) and printed failures disagree:\n{r.out[-2000:]}")
    for v in res.values():
        if len(v["fails"]) != v["nbad_gnu"] + v["nbad_sysv"]:
            raise ToolError("TLC failure lines and counts disagree")
    return res, r


def cross_check_encoding(raw, tres):
    """TLC (pieces of 16 bits) and the python reference (plain integers) must agree exactly on
    which lookups fail and on the counts; anything else is an encoding/observer error."""
    ref = hashobs.ref_bad(raw)
    got = {(f["table"], f["what"], f["index"]) for f in tres["fails"]}
    nd = sum(1 for s in raw["syms"][1:] if s["defd"])
    if tres["defined"] != nd or tres["probes"] != len(raw["probes"]):
        raise ToolError(f"{raw['id']}: TLC saw {tres['defined']} defined / {tres['probes']} probes, "
                        f"python {nd} / {len(raw['probes'])}")
    g = raw["gnu"]
    mw = g["maskwords"]
    hdr_bad = bool(raw["want_gnu"] and g["present"] and not g["malformed"] and g["nbuckets"] and mw and mw & (mw - 1))
    if hdr_bad != bool(tres.get("hdr")):
        raise ToolError(f"{raw['id']}: TLC and the integer reference disagree on the header assertion (maskwords={mw})")
    if ref != got:
        raise ToolError(f"{raw['id']}: TLC and the integer reference disagree: only TLC {sorted(got - ref)[:5]}, "
                        f"only reference {sorted(ref - got)[:5]}")


# ---------------------------------------------------------------------------------------------


def corrupt_copies(c, raw, d):
    """Detection demo: byte-level corruptions of a wild output that break the property."""
    out = []
    data = bytearray(Path(c.out).read_bytes())
    e = velf.Elf(data=bytes(data))
    gs = e.section_of_type(0x6ffffff6)
    hs = e.section_of_type(5)
    if gs is not None and raw["gnu_raw"] and len(raw["gnu_raw"]["chain"]) >= 2:
        g = raw["gnu_raw"]
        chain_off = gs["offset"] + 16 + 8 * g["maskwords"] + 4 * g["nbuckets"]
        # (a) set the stop bit on the first chain word of a bucket with >= 2 entries
        for ci, w in enumerate(g["chain"][:-1]):
            if not w & 1:
                b = bytearray(data)
                b[chain_off + 4 * ci] |= 1
                out.append(("gnu-stop-bit-early", bytes(b)))
                break
        # (b) clear the bloom filter's lowest set byte
        b = bytearray(data)
        boff = gs["offset"] + 16
        for k in range(8 * g["maskwords"]):
            if b[boff + k]:
                b[boff + k] = 0
                out.append(("gnu-bloom-byte-cleared", bytes(b)))
                break
        # (c) symoffset + 1
        b = bytearray(data)
        b[gs["offset"] + 4] = (b[gs["offset"] + 4] + 1) & 0xff
        out.append(("gnu-symoffset+1", bytes(b)))
    if hs is not None and raw["sysv_raw"] and raw["sysv_raw"]["nbucket"]:
        s = raw["sysv_raw"]
        for bi, v in enumerate(s["buckets"]):
            if v:
                b = bytearray(data)
                b[hs["offset"] + 8 + 4 * bi: hs["offset"] + 12 + 4 * bi] = (0).to_bytes(4, "little")
                out.append(("sysv-bucket-zeroed", bytes(b)))
                break
        for ci, v in enumerate(s["chain"]):
            if v:
                b = bytearray(data)
                o = hs["offset"] + 8 + 4 * s["nbucket"] + 4 * ci
                b[o:o + 4] = ci.to_bytes(4, "little")       # self loop
                out.append(("sysv-chain-self-loop", bytes(b)))
                break
    res = []
    for label, blob in out:
        p = d / f"demo-{label}.bin"
        p.write_bytes(blob)
        res.append((label, p))
    return res


def run(ctx):
    cov = {"samples": []}
    rng = random.Random(ctx.seed)
    wild = build_wild()
    with scratch("c08") as d, ThreadPoolExecutor(max_workers=1) as bg:
        # the bounded model runs in the background while the links are generated
        mc_future = bg.submit(model_check, ctx, cov, 4 if ctx.quick else 3)
        try:
            result = observed(ctx, cov, rng, d, wild)
        finally:
            mc_future.result()
    return result


def observed(ctx, cov, rng, d, wild):
    host = hashobs.build_host(d)
    birthday_pairs = hashobs.birthday_gnu(rng, 150000 if ctx.quick else 600000)
    cov["birthday_full_hash_collisions_found"] = len(birthday_pairs)
    sizes = [0, 1, 2, 3, 5, 17, 100, 1000]
    # the number of exported symbols also selects derived table parameters (bucket count, possibly
    # bloom size ...): walk through the ranges between powers of two, sparsely, plus seeded values
    band_sizes = [33, 64, 70, 80, 90, 120, 128, 140, 150, 180, 200, 215, 260, 300, 400]
    band_sizes += sorted(rng.sample(range(6, 131), 3)) + [rng.randrange(131, 520)]
    band_variants = [
        dict(kind="so", arch="x86_64", style="both", strategy="plain", n_dup=1, n_imp=1),
        dict(kind="so", arch="x86_64", style="gnu", strategy="multi", n_dup=0, n_imp=0),
        dict(kind="so", arch="aarch64", style="default", strategy="bucket", n_dup=2, n_imp=0),
        dict(kind="exe-pie", style="both", strategy="plain"),
        dict(kind="so", arch="x86_64", style="default", strategy="birthday", n_dup=0, n_imp=3),
        dict(kind="exe", style="gnu", strategy="plain"),
    ]
    plan = []
    # a fixed backbone (every size as a shared object with both tables, crafted collisions,
    # versioned duplicates) plus seeded random variation
    backbone = [
        dict(kind="so", arch="x86_64", style="both", strategy="multi", n_dup=2, n_imp=1),
        dict(kind="so", arch="x86_64", style="gnu", strategy="bucket", n_dup=1, n_imp=0),
        dict(kind="so", arch="aarch64", style="both", strategy="bucket", n_dup=2, n_imp=3),
        dict(kind="so", arch="x86_64", style="sysv", strategy="birthday", n_dup=0, n_imp=0),
        dict(kind="exe-pie", style="both", strategy="plain"),
        dict(kind="exe", style="gnu", strategy="multi"),
        dict(kind="so", arch="x86_64", style="default", strategy="odd", n_dup=1, n_imp=7),
        dict(kind="so", arch="aarch64", style="sysv", strategy="multi", n_dup=5, n_imp=0),
    ]
    quick_picks = {0: [0, 3, 4], 1: [1, 2], 2: [2, 5], 3: [3, 6], 5: [4, 7], 17: [0, 5], 100: [6, 1, 2], 1000: [0, 7]}
    k = 0
    for n in sizes:
        picks = [backbone[j] for j in quick_picks[n]] if ctx.quick else backbone
        for f in picks:
            plan.append((n, dict(f)))
        for _ in range(1 if ctx.quick else 12):
            plan.append((n, None))
    for i, n in enumerate(band_sizes):
        if ctx.quick:
            plan.append((n, dict(band_variants[i % len(band_variants)])))
        else:
            for j in range(4):
                plan.append((n, dict(band_variants[(i + j) % len(band_variants)])))
            for _ in range(4):
                plan.append((n, None))
    if not ctx.quick:
        plan += [(5000, dict(kind="so", arch="x86_64", style="both", strategy="plain", n_dup=5, n_imp=1, threads=t))
                 for t in (1, 8)]
        plan += [(3000, dict(kind="so", arch="x86_64", style="both", strategy="multi", n_dup=5, n_imp=0))]
    cases = []
    for n, f in plan:
        cases.append(make_case(rng, d, k, n, birthday_pairs, force=f))
        k += 1

    def link(c):
        c.args = link_args(c, c.out)
        c.res = run_wild(c.args, timeout=120, wild=wild)
        return c

    with ThreadPoolExecutor(max_workers=3 if ctx.quick else 6) as ex:
        list(ex.map(link, cases))

    obs_list, raws, meta = [], {}, {}
    linked = 0
    for c in cases:
        if c.res.timed_out or c.res.rc != 0 or not c.out.exists():
            # not a statement about hash tables; but a generated, valid link that wild refuses is
            # something the run must not hide
            raise ToolError(f"generated link failed: {c.id}: {c.res}")
        linked += 1
        wg, ws = wants(c)
        defined_now = [s for s in c.names]
        absent = hashobs.absent_probes(rng, defined_now + [e[0] for e in c.entries], max(6, 3 * len(defined_now)))
        if c.strategy == "birthday":
            absent += [b for a, b in birthday_pairs if b not in c.names] + [a for a, b in birthday_pairs if a not in c.names]
        absent += c.imports        # undefined dynamic symbols: must not be "found"
        absent += c.names          # names a version script made local are probed as well (TLC decides from .dynsym)
        o, raw = hashobs.observe(c.out, c.id, absent, wg, ws)
        obs_list.append(o)
        raws[c.id] = raw
        meta[c.id] = ("wild", c)

    # GNU ld on a few of the same inputs (spec/observer sanity)
    ref_cases = [c for c in cases if c.arch == "x86_64" and c.kind == "so"]
    ref_cases = ref_cases[:6] if ctx.quick else ref_cases[::3]
    n_ref = 0
    for c in ref_cases:
        out = c.dir / "ref.so"
        r = asm.gnu_ld(link_args(c, out, linker="ld"), timeout=120)
        if r.rc != 0:
            log(f"GNU ld refused {c.id} (skipped as reference): {r.err[-200:]}")
            continue
        wg, ws = wants(c)
        if c.style == "default":
            wg, ws = True, False       # observe what ld emitted
            e = velf.Elf(out)
            ws = e.section_of_type(5) is not None
            wg = e.section_of_type(0x6ffffff6) is not None
        o, raw = hashobs.observe(out, "ref:" + c.id, raws[c.id]["probes"], wg, ws)
        obs_list.append(o)
        raws[o["id"]] = raw
        meta[o["id"]] = ("ld", c)
        n_ref += 1

    # detection demo: corrupted copies of one wild output with both tables and >= 17 symbols
    demo_src = next((c for c in cases if c.kind == "so" and c.style in ("both", "default") and 17 <= c.n <= 100), None)
    demos = []
    if demo_src is not None:
        for label, p in corrupt_copies(demo_src, raws[demo_src.id], d):
            o, raw = hashobs.observe(p, f"demo:{label}", raws[demo_src.id]["probes"], True, True)
            obs_list.append(o)
            raws[o["id"]] = raw
            meta[o["id"]] = ("demo", demo_src)
            demos.append(label)
        # and a corruption of an observation (not of the file): flip bit 1 of one chain word
        o = json.loads(json.dumps(next(x for x in obs_list if x["id"] == demo_src.id)))
        if o["gnu"]["chain"]:
            o["id"] = "demo:obs-chain-word-flipped"
            o["gnu"]["chain"][0][1] ^= 2
            obs_list.append(o)
            meta[o["id"]] = ("demo-obs", demo_src)
            demos.append("obs-chain-word-flipped")
    if len(demos) < 4:
        raise ToolError("detection demo could not be constructed")

    res, tr = tlc_check_observations(obs_list, d / "obs", workers=4 if ctx.quick else 6,
                                     timeout=900 if ctx.quick else 3000, name=f"c08.obs.{ctx.seed}")

    n_lookups = 0
    validated = 0
    demo_out = []
    for o in obs_list:
        oid = o["id"]
        who, c = meta[oid]
        t = res[oid]
        if who != "demo-obs":
            cross_check_encoding(raws[oid], t)
        n_lookups += (t["defined"] * 2 + t["probes"]) * (int(o["want_gnu"]) + int(o["want_sysv"]))
        if who in ("demo", "demo-obs"):
            demo_out.append({"corruption": oid[5:], "rejected": bool(t["fails"]), "failed_lookups": len(t["fails"])})
            if not t["fails"]:
                raise ToolError(f"detection demo failed: corrupted table ({oid}) was accepted")
            continue
        if who == "ld":
            if t["fails"]:
                raise ToolError(f"GNU ld's tables for {oid} do not pass the spec: spec or observer is wrong: {t['fails'][:3]}")
            continue
        validated += 1
        if len(cov["samples"]) < 4 and (c.n in (17, 100) or c.n_dup):
            cov["samples"].append({"case": c.id, "defined_dynsyms": t["defined"], "probe_names": t["probes"],
                                   "gnu": {k: o["gnu"][k] for k in ("present", "nbuckets", "symoffset", "maskwords", "shift")},
                                   "sysv": {k: o["sysv"][k] for k in ("present", "nbucket", "nchain")},
                                   "first_names": c.names[:4]})
        if t.get("hdr"):
            what, val = t["hdr"]
            ctx.verdict.report(
                f"gnu:bloom-{what}-not-power-of-two:{c.kind}:{c.style}",
                f"{c.id}: .gnu.hash has {what}={val}, not a power of two: glibc's _dl_setup_hash asserts "
                f"(bitmask_nwords & (bitmask_nwords - 1)) == 0 and picks the bloom word with & ({what} - 1); "
                f"{t['defined']} defined dynamic symbols",
                lambda c=c, o=o, t=t: save_replay(PROP, f"hdr-{c.id}", c.dir, files={"observation.json": json.dumps(o)},
                                                  meta={"args": c.args, "header": t["hdr"], "id": c.id}))
        if t["fails"]:
            by = {}
            for f in t["fails"]:
                by.setdefault((f["table"], f["what"], f["st"]), []).append(f)
            for (tab, what, st), fl in by.items():
                kind = {"def": "defined-symbol-not-found", "probe": "wrong-answer-for-name"}[what]
                key = f"{tab}:{kind}:{st}:{c.kind}:{c.style}:{c.strategy}:dup{min(c.n_dup, 1)}"
                text = (f"{c.id}: {tab} lookup gives '{st}' for {len(fl)} name(s), e.g. {fl[0]['name']!r} "
                        f"(dynsym index/probe {fl[0]['index']}); wild {' '.join(x.rsplit('/', 1)[-1] if x.startswith('/') else x.replace(str(c.dir) + '/', '') for x in c.args)}")
                ctx.verdict.report(key, text, lambda c=c, fl=fl, o=o: save_replay(
                    PROP, f"{c.id}", c.dir, files={"observation.json": json.dumps(o)},
                    meta={"args": c.args, "fails": fl[:50], "id": c.id}))

    # 3. the real loader (x86-64)
    dl_checked = dl_syms = exe_runs = 0
    unattributed = []
    for c in cases:
        if c.arch != "x86_64":
            continue
        if c.kind == "so":
            r, fails, done = hashobs.run_host(host, c.out, c.expect, c.dir, "wild")
            if not done:
                msg = (r.out + r.err)[-300:]
                if "bitmask_nwords" in msg or ("Assertion" in msg and "dl-lookup" in msg):
                    ctx.verdict.report(f"dlopen:loader-assertion-bitmask_nwords:{c.style}",
                                       f"{c.id}: the glibc loader rejects the library's hash table: {msg.strip()[-200:]}",
                                       lambda c=c: save_replay(PROP, f"dl-{c.id}", c.dir, meta={"args": c.args, "out": msg}))
                elif "undefined symbol" in msg and any(nm in msg for nm in c.names):
                    ctx.verdict.report(f"dlopen:undefined-symbol:{c.style}:{c.strategy}", f"{c.id}: {msg}",
                                       lambda c=c: save_replay(PROP, f"dl-{c.id}", c.dir, meta={"args": c.args, "out": msg}))
                else:
                    unattributed.append({"case": c.id, "what": "dlopen failed", "msg": msg})
                continue
            dl_checked += 1
            dl_syms += len(c.expect)
            nf = [f for f in fails if f.endswith("notfound")]
            wrong = [f for f in fails if "wrong" in f]
            if nf:
                vers = "versioned" if any(" V" in f for f in nf) else "plain"
                ctx.verdict.report(
                    f"dlsym:notfound:{vers}:{c.style}:{c.strategy}",
                    f"{c.id}: the glibc loader does not find {len(nf)} defined exported name(s), e.g. {nf[0]}",
                    lambda c=c, nf=nf: save_replay(PROP, f"dl-{c.id}", c.dir, meta={"args": c.args, "fails": nf[:50]}))
            if wrong:
                unattributed.append({"case": c.id, "what": "dlsym returned an address with another content", "n": len(wrong),
                                     "first": wrong[0]})
        else:
            r = sh([c.out], timeout=30, env={"LD_LIBRARY_PATH": str(c.dir), "LD_BIND_NOW": "1"})
            exe_runs += 1
            if r.rc != 0:
                msg = (r.out + r.err)[-300:]
                if "bitmask_nwords" in msg or ("Assertion" in msg and "dl-lookup" in msg):
                    ctx.verdict.report(f"exe-run:loader-assertion-bitmask_nwords:{c.kind}:{c.style}",
                                       f"{c.id}: the glibc loader rejects the executable's hash table: {msg.strip()[-200:]}",
                                       lambda c=c: save_replay(PROP, f"run-{c.id}", c.dir, meta={"args": c.args, "out": msg}))
                elif "undefined symbol" in msg or "symbol lookup error" in msg:
                    ctx.verdict.report(f"exe-run:undefined-symbol:{c.kind}:{c.style}:{c.strategy}", f"{c.id}: {msg}",
                                       lambda c=c: save_replay(PROP, f"run-{c.id}", c.dir, meta={"args": c.args, "out": msg}))
                else:
                    unattributed.append({"case": c.id, "what": f"run rc={r.rc}", "msg": msg})
    def gnu_defined(c):
        return sum(1 for x in raws[c.id]["syms"][1:] if x["defd"]) if raws[c.id]["gnu"]["present"] else -1
    dl_bands = {"65..96": 0, "129..224": 0, "257..480": 0}
    for c in cases:
        if c.arch == "x86_64" and c.kind == "so":
            nd = gnu_defined(c)
            for b in dl_bands:
                lo, hi = map(int, b.split(".."))
                if lo <= nd <= hi:
                    dl_bands[b] += 1
    if min(dl_bands.values()) == 0:
        raise ToolError(f"generator: no dlopen-checked library with .gnu.hash in a symbol-count range: {dl_bands}")
    for u in unattributed:
        log(f"note (not attributed to C08): {u}")

    cov["traces_validated_against_impl"] = validated
    cov["observations"] = {"wild_outputs": validated, "gnu_ld_reference_outputs": n_ref, "corrupted_demo": len(demo_out),
                           "lookups_evaluated_by_tlc": n_lookups, "tlc_wall_s": round(tr.wall, 1)}
    cov["real_loader"] = {"libraries_dlopened": dl_checked, "dlsym_dlvsym_calls": dl_syms, "executables_run": exe_runs, "dlopened_with_gnu_hash_by_defined_count": dl_bands,
                          "unattributed_runtime_anomalies": unattributed[:5]}
    cov["binding_demo"] = demo_out
    cov["case_matrix"] = {
        "sizes": sorted({c.n for c in cases}),
        "defined_dynsym_counts": sorted({sum(1 for x in raws[c.id]["syms"][1:] if x["defd"]) for c in cases}),
        "styles": sorted({c.style for c in cases}), "kinds": sorted({c.kind for c in cases}),
        "archs": sorted({c.arch for c in cases}), "strategies": sorted({c.strategy for c in cases}),
        "with_versioned_duplicates": sum(1 for c in cases if c.n_dup), "with_undefined_in_front": sum(1 for c in cases if c.n_imp)}
    cov["samples"] = trim_samples(cov["samples"], 4, 1200)
    return {
        "level": "model_checking",
        "coverage": cov,
        "assumptions": [
            "the loader is glibc's do_lookup_x/check_match as transcribed in HashTables.tla (bloom, bucket, chain walk, "
            "SysV walk; defined-ness, name and version index comparison); other loaders are not modelled",
            "name sets of the real outputs are generated (seeded) rather than exhaustive; exhaustive only in the bounded model",
            "reads outside the table's section, a bloom size that is not a power of two and an endless SysV walk count as "
            "lookup faults",
            "AArch64 outputs are checked statically only (no loader available)",
        ],
    }


def replay(ctx, path):
    meta = json.loads((path / "replay.json").read_text())
    log(json.dumps(meta, indent=1)[:4000])
    return 0
