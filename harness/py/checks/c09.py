"""C09 - Position-independent outputs are correct at any load address.

1. TLC, exhaustive: the linker/loader model of specs/Loader.tla - up to 3 pointer fields at 10
   candidate offsets of a section that is 1-aligned (starting at an even or odd address) or
   8-aligned, RELR on/off - satisfies Exactly1, RelrEven, ImageShift at bases 0, 0x10000 and
   0x7f12_3456_7000 and reserves exactly what it writes (MAccounting) with the rule of the tree
   (elf::relr_eligible: even offset in a section aligned >= 2, same on both sides), with the most
   permissive correct rule (RELR iff the place is even) and with GNU-ld-style bitmap packing; the
   old rule (layout by section-offset parity, writer by address parity - the defect fixed by
   `fix: decide RELR eligibility the same way at layout and at write time`) must be rejected.
2. Replay/observation: every REPLAY record (chosen offsets, parity of the section start, RELR
   on/off) is realised as a program for PIE, shared and static-PIE, linked by the real wild; the
   observation (AddrPlaces from markers + offsets + the decoded GOT slot, R_X86_64_RELATIVE entries,
   raw RELR words, file words at the places) is judged by TLC with the specification's own operators
   (LoaderObs.tla: Exactly1 / RelrEven / ImageShift at three bases).  PIE and shared outputs (and a
   libc-based static PIE) are also executed at ASLR-chosen bases: every pointer must dereference to
   its identity word.  GNU ld links the same objects as oracle of the scenario and of the observer
   (its RELR tables use bitmaps).
   A link that fails with a size-accounting error is C23's subject; here it is reported under the
   same key as a C09 known finding only when the input is position independent and GNU ld links it.
"""
import json
import os
import random
from concurrent.futures import ProcessPoolExecutor
from pathlib import Path

from vlib import allocprobe, relocgen as rg, relocrun as rr, tlc
from vlib.common import ToolError, build_wild, log, save_replay, scratch, sh, trim_samples
from vlib.loader import LoaderError

PROP = "C09"
META = {
    "ready": True,
    "level": "model_checking",
    "technique": "TLA+ model of relative-relocation emission (RELA/RELR) and of the loader, exhaustively checked by TLC; its enumerated scenarios replayed into the real linker and the observed relocation tables / images validated by TLC against the same operators; native execution under ASLR",
    "level_text": "Every set of up to 3 pointer fields over 10 offsets (even, odd, adjacent, 63-word window boundary) x section alignment class / start parity x RELR on/off is explored by TLC for the rule of the tree (even offset in a section aligned >= 2, on both sides), for the address-parity rule and for bitmap packing (Exactly1, RelrEven, ImageShift at 3 bases incl. one above 2^46, reservation = consumption); the old offset-vs-address parity rule is shown to fail. Each sampled (quick) or every (thorough) scenario is linked by the real wild as PIE, shared object and static PIE and the observation is judged by TLC; PIE/shared/libc-static-PIE outputs are executed under ASLR.",
    "level_note": "AddrPlaces ground truth is limited to generated pointer fields and the decoded GOT slot (programs without libc so that no other address-holding place exists); x86-64 only; libc static-PIE outputs are checked by execution only.",
    "engine": "tlc",
}
BASES = [0, 0x10000, 0x7f1234567000]


def model(ctx, cov):
    from concurrent.futures import ThreadPoolExecutor
    good = ["mc/Loader_code.cfg", "mc/Loader_address.cfg", "mc/Loader_packed.cfg"]
    with ThreadPoolExecutor(max_workers=4) as ex:
        res = list(ex.map(lambda c: tlc.run_tlc("MCLoader", c, workers=2, timeout=600, coverage="offset" not in c,
                                                 name=f"MCLoader.{c.split(chr(47))[-1]}.{os.getpid()}"), good + ["mc/Loader_offset.cfg"]))
    runs, recs, st, tr = [], None, 0, 0
    for cfg, r in zip(good, res):
        if not r.ok:
            raise ToolError(f"Loader model check failed ({cfg}): {r.violated} {r.error_text}\n{r.trace_text[:2500]}")
        miss = tlc.zero_coverage_actions(r, ["MLink", "MLoad"])
        if miss:
            raise ToolError(f"vacuous Loader run {cfg}: {miss}")
        runs.append({"cfg": cfg, **r.summary()})
        st += r.distinct
        tr += r.generated
        if "code" in cfg:
            recs = r.records
    rb = res[-1]
    if rb.ok or not rb.violated:
        raise ToolError("the old offset-parity rule was NOT rejected by the Loader invariants (vacuous)")
    runs.append({"cfg": "mc/Loader_offset.cfg", "expected_violation": rb.violated})
    if not recs or len(recs) < 600:
        raise ToolError(f"only {len(recs or [])} REPLAY records from the Loader model")
    cov["states"], cov["transitions"], cov["tlc_runs"] = st, tr, runs
    return recs


def work(args):
    c, workdir, tbdir, with_ld, native = args
    res = {"case": c, "name": rg.ptr_name(c)}
    try:
        tb = rg.Toolbox(tbdir)
        cd = Path(workdir) / res["name"]
        objs = rg.ptr_build(c, cd, tb)
        res["dir"] = str(cd)
        for lk in (("wild", "ld") if with_ld else ("wild",)):
            r, outp, args_l = rg.ptr_link(c, objs, cd, tb, lk)
            sub = {"rc": r.rc, "err": r.err[-600:], "args": [str(a) for a in args_l], "alloc": allocprobe.probe(r) if lk == "wild" else None}
            if r.rc == 0 and not r.timed_out:
                if c["out"] != "staticpie-libc":
                    try:
                        o = rg.ptr_observe(c, outp, tb, cd)
                        sub["image"] = rr.image_json(0, o["places"], o["rela"], o["relr"], BASES)
                        sub["other"] = o["other"]
                    except LoaderError as e:
                        sub["loaderr"] = str(e)
                if native and c["out"] in ("pie", "shared", "staticpie-libc"):
                    case = {"sym": "hidden_d", "ref": "abs64", "out": "staticpie" if c["out"] == "staticpie-libc" else c["out"]}
                    rcs, why = rg.run_native(case, outp, tb, cd, times=3)
                    sub["native"] = rcs
            res[lk] = sub
    except ToolError as e:
        res["tool_error"] = str(e)
    except Exception as e:  # noqa
        import traceback
        res["tool_error"] = traceback.format_exc()[-1500:]
    return res


def py_image_verdict(img):
    """Python twin of LoaderOps (triage only)."""
    from vlib.loader import Process
    relr = []
    try:
        words = []
        for e in img["relr"]:
            words.append(e["addr"] if e["t"] == "addr" else (1 | sum(1 << (b + 1) for b in e["bits"])))
        relr = Process.relr_decode(words)
    except LoaderError:
        return False
    cov = [r["off"] for r in img["rela"]] + relr
    ps = img["addrPlaces"]
    if sorted(cov) != sorted(ps) or any(p % 2 for p in relr):
        return False
    return True


def run(ctx):
    cov = {"samples": []}
    rng = random.Random(ctx.seed)
    recs = model(ctx, cov)
    build_wild()
    if any(r["predicted_mismatch"] for r in recs):
        raise ToolError("the rule of the tree predicts an accounting mismatch: Loader.tla's \"code\" rule is inconsistent")
    if ctx.quick:
        # the scenarios where the old defect showed (RELR on, 1-aligned section) are over-represented
        risky = [r for r in recs if r["relr"] and not r["aligned"]]
        rest = [r for r in recs if not (r["relr"] and not r["aligned"])]
        pick = rng.sample(risky, min(36, len(risky))) + rng.sample(rest, min(34, len(rest)))
    else:
        pick = recs
    cases = []
    for i, rec in enumerate(pick):
        outs = ["pie", "shared", "staticpie"] if not ctx.quick else [["pie", "shared", "staticpie"][i % 3]]
        for o in outs:
            cases.append(rg.ptr_case(rec, o, got=(i % 2 == 0), alias=(i % 4 >= 2 and o != "shared")))   # a default-visibility alias in a shared object is preemptible: symbolic, not relative
    libc_n = 4 if ctx.quick else 40
    for rec in rng.sample(recs, libc_n):
        cases.append(rg.ptr_case(rec, "staticpie-libc", got=True))
    with scratch("c09") as d:
        rg.Toolbox(d / "tb")
        with ProcessPoolExecutor(max_workers=8) as ex:
            results = list(ex.map(work, [(c, str(d / "w"), str(d / "tb"), True, True) for c in cases], chunksize=4))
        errs = [r for r in results if "tool_error" in r]
        if errs:
            raise ToolError(f"{len(errs)} scenario(s) failed in the harness, first {errs[0]['name']}: {errs[0]['tool_error']}")
        images, owner = [], []
        for i, res in enumerate(results):
            for lk in ("wild", "ld"):
                if lk in res and "image" in res[lk]:
                    img = dict(res[lk]["image"], id=len(images))
                    images.append(img)
                    owner.append((i, lk))
        verdict = rr.tlc_judge(images=images, name="c09")
        bad = {b["id"]: b for b in verdict["images_bad"]}
        for k, img in enumerate(images):
            if py_image_verdict(img) == (k in bad) and not (k in bad and bad[k].get("notshifted")):
                raise ToolError(f"python twin and LoaderObs disagree on image {owner[k]} {results[owner[k][0]]['name']}: tla={bad.get(k)}")
        ld_bad = [k for k in bad if owner[k][1] == "ld"]
        if ld_bad:
            k = ld_bad[0]
            raise ToolError(f"GNU ld output of scenario {results[owner[k][0]]['name']} fails the C09 predicates: the scenario ground truth "
                            f"(AddrPlaces) or the observer is wrong: {bad[k]}")
        n_ok = n_alloc = n_bad = n_native = 0
        pred_mis = 0
        for i, res in enumerate(results):
            c = res["case"]
            w = res["wild"]
            ldok = res.get("ld", {}).get("rc") == 0
            if w["rc"] != 0:
                if w["alloc"] and ldok:
                    n_alloc += 1
                    # RELR enabled and a field whose offset parity and address parity / alignment class differ:
                    # the signature of the (fixed) relr-parity defect
                    key = f"{w['alloc']}:relr-parity" if c["relr"] else f"{w['alloc']}:ptr-{c['out']}"
                    ctx.verdict.report(
                        key, f"{res['name']}: position-independent link fails with a size-accounting error "
                             f"({w['err'].strip().splitlines()[-1][:160]}); GNU ld links the same objects; "
                             f"specification (rule of the tree): layout reserves {c['alloc_relr']} RELR entries and the writer consumes {c['write_relr']}",
                        lambda res=res: save_replay(PROP, res["name"], src_dir=res["dir"], meta={"case": res["case"], "wild": res["wild"]}))
                elif ldok:
                    log(f"C09 note: wild rejects {res['name']}: {w['err'].strip()[-200:]}")
                if c["predicted_mismatch"] != bool(w["alloc"]):
                    pred_mis += 1
                    log(f"C09 note: model did not predict the failure of {res['name']}: {w['err'].strip()[-160:]}")
                continue
            if c["predicted_mismatch"]:
                pred_mis += 1
                log(f"C09 note: model predicted an accounting failure for {res['name']} but the link succeeded")
            why = []
            if "loaderr" in w:
                why.append("unloadable: " + w["loaderr"])
            k = next((k for k, (ri, lk) in enumerate(owner) if ri == i and lk == "wild"), None)
            if k is not None and k in bad:
                b = bad[k]
                why.append("LoaderObs: " + ", ".join(f"{f}={b[f]}" for f in ("wellformed", "missing", "twice", "extra", "odd", "notshifted") if b.get(f) not in ([], True)))
            if w.get("native") and any(rc != 0 for rc in w["native"]):
                why.append(f"native execution at ASLR bases: exit codes {w['native']}")
            if w.get("native"):
                n_native += 1
            if why:
                n_bad += 1
                what = "exactly1" if (k in bad and (bad[k].get("missing") or bad[k].get("twice") or bad[k].get("extra"))) else \
                    ("relr-odd" if k in bad and (bad[k].get("odd") or not bad[k].get("wellformed")) else "image-shift")
                ctx.verdict.report(
                    f"{what}:{c['out']}:relr{int(c['relr'])}:odd{int(c['secodd'])}:al{int(c.get('aligned', False))}",
                    f"{res['name']}: {'; '.join(why)[:600]}",
                    lambda res=res: save_replay(PROP, res["name"], src_dir=res["dir"], meta={"case": res["case"], "wild": res["wild"]}))
            else:
                n_ok += 1
                if len(cov["samples"]) < 4 and "image" in w:
                    cov["samples"].append({"scenario": res["name"], "addrPlaces": w["image"]["addrPlaces"],
                                           "rela": w["image"]["rela"], "relr": w["image"]["relr"], "native_exit": w.get("native")})
        # binding demonstration: corrupt an observation (drop one relocation / make one place odd)
        demo = []
        good = next((img for k, img in enumerate(images) if k not in bad and owner[k][1] == "wild" and img["rela"]), None)
        good_r = next((img for k, img in enumerate(images) if k not in bad and owner[k][1] == "wild" and img["relr"]), None)
        muts = []
        if good:
            m = json.loads(json.dumps(good)); m["rela"] = m["rela"][1:]; m["id"] = 0
            muts.append(("drop-one-relative", m))
        if good_r:
            m = json.loads(json.dumps(good_r)); m["relr"][0]["addr"] += 8; m["id"] = 1
            muts.append(("shift-relr-entry", m))
            m = json.loads(json.dumps(good_r)); m["relr"].append(dict(m["relr"][0])); m["id"] = 2
            muts.append(("duplicate-relr-entry", m))
        if len(muts) < 2:
            raise ToolError("no accepted observation available for the binding demonstration")
        vj = rr.tlc_judge(images=[m for _, m in muts], name="c09demo")
        rej = {b["id"] for b in vj["images_bad"]}
        for j, (label, m) in enumerate(muts):
            demo.append({"mutation": label, "rejected": m["id"] in rej})
            if m["id"] not in rej:
                raise ToolError(f"binding demonstration failed: corrupted observation ({label}) accepted by LoaderObs")
        cov["binding_demo"] = demo
    cov["traces_validated_against_impl"] = len(results)
    cov["images_judged_by_tlc"] = len(images)
    cov["outcomes"] = {"ok": n_ok, "accounting_failure": n_alloc, "property_broken": n_bad, "executed": n_native,
                       "prediction_mismatches": pred_mis}
    cov["scenarios_enumerated"] = len(recs)
    cov["exhaustive"] = not ctx.quick
    if n_ok + n_bad < len(results) // 3:
        raise ToolError(f"only {n_ok + n_bad} of {len(results)} scenarios were linked by wild: vacuous")
    cov["samples"] = trim_samples(cov["samples"], 4, 900)
    return {"level": "model_checking", "coverage": cov,
            "assumptions": ["AddrPlaces ground truth = generated pointer fields + decoded GOT slot; programs are libc-free so no other place holds an address",
                            "x86-64 only; loader semantics of R_X86_64_RELATIVE and RELR as in glibc 2.36",
                            "libc-based static PIE is checked by execution only"]}
