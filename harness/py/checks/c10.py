"""C10 - Unwind tables cover every retained function.

1. TLC, exhaustive: the .eh_frame writer machine of specs/EhFrame.tla (KeepCie / KeepFde / DropFde /
   SortRows over objects x functions x {kept, gc, comdat-discarded, empty} x CIE sharing x address
   orders) satisfies the result predicates (Count, Sorted, RowFde, FdeRetained, Covered, Cie); five
   deliberately broken writers must be rejected.
2. Observed-state validation: generated links (functions with CFI in per-function sections spread
   over objects, some unreferenced, COMDAT duplicates, functions without CFI, empty functions, a
   second CIE flavour, x86-64 and AArch64, exe / PIE / shared, 1..16 threads, gc on/off); the
   .eh_frame / .eh_frame_hdr of every wild output are parsed by the harness's own reader
   (vlib/ehframe.py), function identities come from byte markers (not from the output's symbols),
   and the SAME predicates are evaluated by TLC (specs/EhFrameObs.tla).
3. Execution (x86-64): generated C++ programs throwing through many frames across objects, with
   cleanups, rethrow and backtrace(), linked with g++ driving wild; behaviour must equal the same
   objects linked by GNU ld; their tables go through the table-internal predicates too.
4. GNU ld outputs through the same predicates (observer sanity); corrupted tables must be rejected.
"""
import json
import os
import random
import re
import struct
from concurrent.futures import ThreadPoolExecutor
from pathlib import Path

from vlib import asm, ehframe, tlc
from vlib.common import ToolError, build_wild, log, run_wild, save_replay, scratch, sh, trim_samples
from vlib.elf import Elf

PROP = "C10"
META = {
    "ready": True,
    "level": "model_checking",
    "technique": "TLA+ model of the .eh_frame/.eh_frame_hdr writer model-checked with TLC; the same TLA+ predicates evaluated by TLC on tables parsed from real wild outputs; C++ exception programs executed",
    "level_text": "The writer machine (keep CIEs, keep an FDE iff its function's section is loaded and non-empty, emit and sort a search-table row, rewrite CIE pointers) is explored by TLC for every assignment of kept/gc/comdat/empty to up to 8 functions over 3 objects with shared or private CIEs, and the result predicates of the property hold in every terminal state; the identical predicates are evaluated by TLC on the tables of every generated real link (function identities by markers, independent parser), and C++ programs unwinding through wild-linked tables behave as with GNU ld.",
    "level_note": "Real links are a seeded sample; the model is exhaustive within its bound. AArch64 outputs are parsed, not executed. Trusted base: TLC, vlib/ehframe.py (cross-checked on GNU ld outputs in every run).",
    "engine": "tlc",
}
BAD_VARIANTS = ["keep-unloaded", "keep-empty", "no-sort", "lose-row", "cie-not-rewritten", "advance-before-tail"]


def model_check(ctx, cov):
    runs, states, trans = [], 0, 0
    cfgs = [("mc/EhFrame_quick.cfg", 900), ("mc/EhFrame_quick_empty.cfg", 600)] + ([] if ctx.quick else [("mc/EhFrame_thorough.cfg", 2400)])
    for cfg, to in cfgs:
        r = tlc.run_tlc("MCEhFrame", cfg, workers=8, timeout=to, name=f"c10.{Path(cfg).stem}")
        runs.append({"cfg": cfg, **r.summary()})
        if r.timed_out and not ctx.quick:
            log(f"{cfg}: timed out with {r.distinct} distinct states (partial)")
            states += r.distinct
            trans += r.generated
            continue
        if not r.ok:
            raise ToolError(f"EhFrame model check failed ({cfg}): {r.violated} {r.error_text}\n{r.trace_text[:3000]}")
        missing = tlc.zero_coverage_actions(r, ["KeepCie", "KeepFde", "DropFde", "EndObject", "SortRows"])
        if missing:
            raise ToolError(f"vacuous model run {cfg}: actions never taken: {missing}")
        states += r.distinct
        trans += r.generated
    def bad(v):
        return v, tlc.run_tlc("MCEhFrame", f"mc/EhFrame_bad_{v}.cfg", workers=2, timeout=600, coverage=False, name=f"c10.bad.{v}")

    with ThreadPoolExecutor(max_workers=6) as ex:
        for v, r in ex.map(bad, BAD_VARIANTS):
            if r.ok or r.violated != "DoneTablesOK":
                raise ToolError(f"broken writer '{v}' was NOT rejected: predicates are vacuous\n" + r.out[-1500:])
            m = [ln for ln in r.out.splitlines() if "MODEL-FAIL" in ln]
            runs.append({"cfg": f"mc/EhFrame_bad_{v}.cfg", "expected_violation": r.violated, "predicate": m[0] if m else ""})
    cov["states"], cov["transitions"], cov["tlc_runs"] = states, trans, runs


# ---------------------------------------------------------------------------------------------
# generated assembly links

NOP_LEN = {"x86_64": 1, "aarch64": 4}
CALL_LEN = {"x86_64": 5, "aarch64": 4}
RET_LEN = {"x86_64": 1, "aarch64": 4}
EXIT = {"x86_64": "    mov $60, %eax\n    xor %edi, %edi\n    syscall\n", "aarch64": "    mov x8, #93\n    mov x0, #0\n    svc #0\n"}
EXIT_LEN = {"x86_64": 5 + 2 + 2, "aarch64": 12}


def mk(name):
    return f"<EH:{name}:HE>"


def gen_scenario(rng, i):
    arch = "aarch64" if rng.random() < 0.3 else "x86_64"
    n_objs = rng.choice([1, 2, 3, 4, 6])
    funcs = []
    nf = rng.choice([2, 4, 7, 12, 25])
    for k in range(nf):
        funcs.append(dict(name=f"f{k}", obj=rng.randrange(n_objs), nops=rng.choice([0, 1, 3, 9, 30]),
                          cfi=rng.random() < 0.85, signal=rng.random() < 0.15, comdat=False, empty=False,
                          calls=[], copy=f"f{k}"))
    names = [f["name"] for f in funcs]
    for f in funcs:
        f["calls"] = [g for g in names if g != f["name"] and rng.random() < 0.12][:4]
    # COMDAT functions: one definition per object that has it; the first object's copy wins
    for c in range(rng.choice([0, 0, 1, 2])):
        holders = sorted(rng.sample(range(n_objs), k=min(n_objs, rng.choice([1, 2, 3]))))
        for o in holders:
            funcs.append(dict(name=f"g{c}", obj=o, nops=rng.choice([1, 5]), cfi=True, signal=False, comdat=True,
                              empty=False, calls=[], copy=f"g{c}@o{o}"))
        names.append(f"g{c}")
    if rng.random() < 0.25:
        funcs.append(dict(name="fempty", obj=rng.randrange(n_objs), nops=0, cfi=True, signal=False, comdat=False,
                          empty=True, calls=[], copy="fempty"))
    start_calls = [g for g in names if rng.random() < 0.35][:6]
    kind = rng.choice(["exe", "exe", "pie", "shared"])
    opts = [rng.choice(["--gc-sections", "--gc-sections", "--no-gc-sections"]), f"--threads={rng.choice([1, 2, 3, 4, 8, 16])}"]
    opts.append("--eh-frame-hdr" if rng.random() < 0.88 else "--no-eh-frame-hdr")
    if rng.random() < 0.2:
        opts += ["-z", "max-page-size=0x10000"]
    # hand-written unwind tables (round-2 seeded change C10): functions at a NON-ZERO offset of their
    # section whose FDE pc-begin relocation names the function symbol itself (`.long h - .`) or a
    # named symbol + addend (`.long h_pad + n - .`) instead of GNU as's section symbol + offset. They
    # live in an object of their own (no .cfi_* directives there, so the assembler adds no entries).
    if i % 2 == 1 or rng.random() < 0.3:
        ho = n_objs
        n_objs += 1
        for k in range(rng.choice([1, 2, 3])):
            funcs.append(dict(name=f"hw{k}", obj=ho, nops=rng.choice([0, 1, 3, 9]), cfi=True, signal=False, comdat=False,
                              empty=False, calls=[], copy=f"hw{k}", hand=True, pad=rng.choice([1, 2, 5, 16]),
                              form=rng.choice(["sym", "sym", "symaddend"])))
            names.append(f"hw{k}")
            if rng.random() < 0.7:
                start_calls.append(f"hw{k}")
    # an object that holds only the 4-byte .eh_frame end marker (like libgcc's crtend.o), linked
    # BEFORE other objects with FDEs; every third scenario has one, half of them single-threaded so
    # that all objects are in one file group
    endmark_after = None
    if i % 3 == 0:
        if n_objs < 2:
            n_objs = 2
            funcs[-1]["obj"] = 1
        if not any(f["cfi"] and not f["empty"] and f["obj"] == n_objs - 1 for f in funcs):
            funcs.append(dict(name="flast", obj=n_objs - 1, nops=2, cfi=True, signal=False, comdat=False, empty=False,
                              calls=[], copy="flast"))
            start_calls.append("flast")
        endmark_after = rng.randrange(0, n_objs - 1)
        opts = [o_ for o_ in opts if not o_.startswith("--threads")]
        if (i // 3) % 2 == 0:
            opts.append("--threads=1")
        env = {"WILD_FILES_PER_GROUP": "64"} if (i // 3) % 3 != 2 else {}
        return dict(id=f"e{i}", arch=arch, n_objs=n_objs, funcs=funcs, start_calls=start_calls, kind=kind, opts=opts,
                    endmark_after=endmark_after, env=env)
    return dict(id=f"e{i}", arch=arch, n_objs=n_objs, funcs=funcs, start_calls=start_calls, kind=kind, opts=opts,
                endmark_after=endmark_after)


def fn_len(arch, f, ncalls=None):
    if f["empty"]:
        return 0
    n = len(f["calls"]) if ncalls is None else ncalls
    return f["nops"] * NOP_LEN[arch] + n * CALL_LEN[arch] + RET_LEN[arch]


def emit(scn, d):
    arch = scn["arch"]
    texts = {o: [] for o in range(scn["n_objs"])}
    call = (lambda g: f"    call {g}") if arch == "x86_64" else (lambda g: f"    bl {g}")
    # _start
    t = ['.section .text._start,"ax",%progbits', ".globl _start", ".type _start,%function", "_start:", "    .cfi_startproc"]
    t += [call(g) for g in scn["start_calls"]]
    t += [EXIT[arch].rstrip("\n"), "    .cfi_endproc", f'    .ascii "{mk("_start")}"']
    texts[0].append("\n".join(t))
    hand = {}
    for f in scn["funcs"]:
        n = f["name"]
        if f.get("hand"):
            t = [f'.section .text.{n},"ax",%progbits', f".globl {n}_pad", f"{n}_pad:"]
            t += ["    nop"] * f["pad"]
            t += [f".globl {n}", f".type {n},%function", f"{n}:"]
            if scn["kind"] == "shared":   # a PC-relative reference to an interposable symbol is refused
                t[1:1] = [f".hidden {n}_pad", f".hidden {n}"]
            t += ["    nop"] * f["nops"]
            t += ["    ret", f".L{n}_end:", f'    .ascii "{mk(f["copy"])}"']
            if arch == "aarch64":
                t.append("    .balign 4")
            texts[f["obj"]].append("\n".join(t))
            hand.setdefault(f["obj"], []).append(f)
            continue
        if f["comdat"]:
            t = [f'.section .text.{n},"axG",%progbits,{n},comdat', f".weak {n}"]
        else:
            t = [f'.section .text.{n},"ax",%progbits', f".globl {n}"]
        t += [f".type {n},%function", f"{n}:"]
        if f["cfi"]:
            t.append("    .cfi_startproc")
            if f["signal"]:
                t.append("    .cfi_signal_frame")
        if not f["empty"]:
            t += ["    nop"] * f["nops"]
            t += [call(g) for g in f["calls"]]
            t.append("    ret")
        if f["cfi"]:
            t.append("    .cfi_endproc")
        if not f["empty"]:
            t.append(f'    .ascii "{mk(f["copy"])}"')
            if arch == "aarch64":
                t.append("    .balign 4")
        texts[f["obj"]].append("\n".join(t))
    for o, hf in hand.items():
        ra, daf, caf, cfa = ((16, -8, 1, "0x0c, 7, 8") if arch == "x86_64" else (30, -8, 4, "0x0c, 31, 0"))
        t = ['.section .eh_frame,"a",%progbits', "    .p2align 3", ".Lhcie:", "    .long .Lhcie_end - .Lhcie_body", ".Lhcie_body:",
             "    .long 0", "    .byte 1", '    .asciz "zR"', f"    .uleb128 {caf}", f"    .sleb128 {daf}", f"    .uleb128 {ra}",
             "    .uleb128 1", "    .byte 0x1b", f"    .byte {cfa}"]
        if arch == "x86_64":
            t.append("    .byte 0x90, 1")
        t += ["    .balign 4", ".Lhcie_end:"]
        for f in hf:
            n = f["name"]
            pc = f"{n} - ." if f["form"] == "sym" else f"{n}_pad + ({n} - {n}_pad) - ."
            if f["form"] == "symaddend":
                pc = f"{n}_pad + {f['pad'] * NOP_LEN[arch]} - ."
            t += [f".Lhfde_{n}:", f"    .long .Lhfde_{n}_end - .Lhfde_{n}_body", f".Lhfde_{n}_body:",
                  f"    .long .Lhfde_{n}_body - .Lhcie", f"    .long {pc}", f"    .long .L{n}_end - {n}", "    .uleb128 0",
                  "    .balign 4", f".Lhfde_{n}_end:"]
        texts[o].append("\n".join(t))
    objs = []
    for o, parts in texts.items():
        if parts:
            objs.append(asm.write_asm(d, f"o{o}", "\n".join(parts) + "\n", arch=arch))
        if scn.get("endmark_after") == o:
            objs.append(asm.write_asm(d, "endmark", '.section .eh_frame,"a",%progbits\n.p2align 2\n.long 0\n', arch=arch))
    args = [str(o) for o in objs]
    if scn["kind"] == "pie":
        args += ["-static", "-pie"]
    elif scn["kind"] == "shared":
        args += ["-shared"]
    args += scn["opts"]
    if arch == "aarch64":
        args = ["-m", "aarch64linux"] + args
    return args


def observe(path, scn=None, ident=None):
    """Table image of an output in the vocabulary of EhFrame.tla (addresses rebased)."""
    e = Elf(path)
    fr = ehframe.parse_eh_frame(e)
    hd = ehframe.parse_eh_frame_hdr(e)
    fmt = []
    if fr is None:
        fr = dict(cies=[], fdes=[], errors=[], addr=0)
    if fr["errors"]:
        fmt.append(1)
    if any(not f["cie_ok"] or f["pc_begin"] is None for f in fr["fdes"]):
        pass   # reported by predicate Cie
    funcs = []
    addrs = [fr["addr"]] + [c["addr"] for c in fr["cies"]] + [f["addr"] for f in fr["fdes"]]
    if scn is not None:
        arch = scn["arch"]
        allf = [dict(name="_start", copy="_start", cfi=True, empty=False, calls=scn["start_calls"], nops=0, _len=len(scn["start_calls"]) * CALL_LEN[arch] + EXIT_LEN[arch])] + scn["funcs"]
        for k, f in enumerate(allf):
            ln = f.get("_len", fn_len(arch, f) if "_len" not in f else f["_len"])
            if f.get("empty"):
                funcs.append(dict(id=k, kept=False, addr=0, len=0, hadFde=bool(f["cfi"])))
                continue
            offs = e.find_bytes(mk(f["copy"]).encode())
            if len(offs) > 1:
                raise ToolError(f"marker of {f['copy']} occurs {len(offs)} times")
            if not offs:
                funcs.append(dict(id=k, kept=False, addr=0, len=ln, hadFde=bool(f["cfi"])))
                continue
            va = e.off_to_vaddr(offs[0])
            if va is None:
                raise ToolError(f"marker of {f['copy']} is not in a loaded section")
            funcs.append(dict(id=k, kept=True, addr=va - ln, len=ln, hadFde=bool(f["cfi"])))
            addrs.append(va - ln)
    hdr = hd is not None
    rows = []
    if hdr:
        if hd["errors"]:
            fmt.append(2)
        if hd["eh_frame_ptr"] != fr["addr"]:
            fmt.append(3)
        if hd["version"] != 1:
            fmt.append(4)
        seg = [p for p in e.segments if p["type"] == 0x6474e550]
        if len(seg) != 1 or seg[0]["vaddr"] != hd["addr"] or seg[0]["memsz"] != hd["size"] or seg[0]["filesz"] != hd["size"]:
            fmt.append(5)
        if hd.get("table_trailing", 0) != 0:
            fmt.append(6)
        rows = hd["rows"]
        addrs += [a for r in rows for a in r]
    base = min(addrs) & ~0xfff if addrs else 0
    hi = max(addrs) if addrs else 0
    if hi - base >= (1 << 30):
        # a wild pointer in a table would land here; keep the value comparable but bounded
        base = min(a for a in addrs if hi - a < (1 << 30)) & ~0xfff

    def rb(a):
        v = a - base
        return v if 0 <= v < (1 << 30) else (1 << 30) + (a % 1000003)   # out-of-image pointer: a value no address equals

    for f in funcs:
        if f["kept"]:
            f["addr"] = rb(f["addr"])
    return dict(
        id=ident or (scn["id"] if scn else str(path)), hdr=hdr, closed=scn is not None, fmt=fmt,
        fdeCount=(hd["fde_count"] if hdr and hd["fde_count"] is not None else 0) if hdr else 0,
        rows=[dict(pc=rb(pc), fde=rb(fa)) for pc, fa in rows],
        fdes=[dict(addr=rb(f["addr"]), pc=rb(f["pc_begin"]) if f["pc_begin"] is not None else -1,
                   len=f["pc_range"] if f["pc_range"] is not None and f["pc_range"] < (1 << 30) else -1,
                   cie=rb(f["cie"]) if f["cie"] >= base else -2) for f in fr["fdes"]],
        cies=[rb(c["addr"]) for c in fr["cies"]], funcs=funcs)


_FAIL_RE = re.compile(r'^<<"EH-FAIL", "((?:[^"\\]|\\.)*)", "(\w+)", (.*)>>$')
_CHK_RE = re.compile(r'^<<"EH-CHECKED", "((?:[^"\\]|\\.)*)", (\d+), (\d+), (\d+)>>$')


def run_obs(observations, name, timeout=900):
    with scratch("ehobs") as d:
        p = d / "obs.ndjson"
        p.write_text("".join(json.dumps(o) + "\n" for o in observations))
        res = tlc.run_tlc("EhFrameObs", "mc/EhFrameObs.cfg", workers=1, timeout=timeout, coverage=False,
                          env={"OBS": str(p)}, name=name, jvm_opts=["-Xss64m"])
    fails, checked = [], {}
    for line in res.out.splitlines():
        line = line.strip()
        m = _FAIL_RE.match(line)
        if m:
            fails.append(dict(id=m.group(1), pred=m.group(2), bad=m.group(3)))
            continue
        m = _CHK_RE.match(line)
        if m:
            checked[m.group(1)] = (int(m.group(3)), int(m.group(4)))
    if res.timed_out or sorted(checked) != sorted(o["id"] for o in observations):
        raise ToolError("EhFrameObs did not evaluate every observation:\n" + res.out[-3000:])
    return fails, checked


# ---------------------------------------------------------------------------------------------
# C++ exception programs


def gen_cpp(rng, k):
    """4 translation units, a call chain of depth >= 6 crossing them, cleanups, rethrow, backtrace()."""
    depth = rng.choice([6, 8, 11])
    units = {u: [] for u in range(4)}
    decl = ["#include <cstdio>", "#include <stdexcept>", "#include <execinfo.h>", "extern int trace_log;",
            "struct Guard { int v; Guard(int x) : v(x) {} ~Guard() { trace_log = trace_log * 31 + v; } };"]
    for lvl in range(depth + 1):
        decl.append(f"int level{lvl}(int x);")
    decl.append("int unused_thrower(int x);")
    for lvl in range(depth):
        u = rng.randrange(4)
        style = rng.choice(["guard", "plain", "catch_rethrow", "catch_other"])
        body = [f"int level{lvl}(int x) {{"]
        if style == "guard":
            body += [f"  Guard g({lvl + 1});", f"  return level{lvl + 1}(x) + {lvl};"]
        elif style == "plain":
            body += [f"  return level{lvl + 1}(x) + {lvl};"]
        elif style == "catch_rethrow":
            body += ["  try {", f"    return level{lvl + 1}(x) + {lvl};", "  } catch (...) {",
                     f"    trace_log = trace_log * 31 + {100 + lvl};", "    throw;", "  }"]
        else:
            body += ["  try {", f"    Guard g({lvl + 50});", f"    return level{lvl + 1}(x) + {lvl};",
                     "  } catch (const std::logic_error& e) {", "    return -1;", "  }"]
        body.append("}")
        units[u].append("\n".join(body))
    units[rng.randrange(4)].append(
        f"int level{depth}(int x) {{\n  void* buf[64];\n  int n = backtrace(buf, 64);\n"
        f"  trace_log = trace_log * 31 + (n >= {depth} ? 1 : 0);\n"
        "  if (x % 3 == 0) throw std::runtime_error(\"three\");\n  if (x % 3 == 1) throw x;\n  return x;\n}")
    units[rng.randrange(4)].append("int unused_thrower(int x) { if (x) throw std::logic_error(\"unused\"); return 0; }")
    main = ["int trace_log = 7;", "int main() {", "  long acc = 0;", "  for (int i = 0; i < 9; i++) {", "    try {",
            "      acc += level0(i);", "    } catch (const std::runtime_error& e) {", "      acc += 1000;",
            "    } catch (int v) {", "      acc += 10000 + v;", "    }", "  }",
            "  printf(\"%ld %d\\n\", acc, trace_log);", "  return (int)(acc % 97);", "}"]
    units[0].append("\n".join(main))
    srcs = {}
    for u, parts in units.items():
        srcs[f"u{u}.cc"] = "\n".join(decl) + "\n" + "\n".join(parts) + "\n"
    flags = rng.choice([["-O0"], ["-O2"], ["-O1", "-ffunction-sections"], ["-O2", "-fPIE"]])
    lflags = rng.choice([[], ["-Wl,--gc-sections"], ["-pie"] if "-fPIE" in flags else [], ["-static"]])
    return dict(id=f"cpp{k}", srcs=srcs, flags=flags, lflags=lflags, depth=depth)


def run_cpp(prog, d, wild_bindir):
    sub = d / prog["id"]
    sub.mkdir()
    objs = []
    for name, text in prog["srcs"].items():
        (sub / name).write_text(text)
        o = sub / (name[:-3] + ".o")
        sh(["g++", "-c", "-fexceptions"] + prog["flags"] + ["-o", o, sub / name], timeout=180, check=True)
        objs.append(str(o))
    res = {}
    for which, extra in (("ld", []), ("wild", [f"-B{wild_bindir}"])):
        out = sub / f"prog.{which}"
        r = sh(["g++"] + extra + objs + prog["lflags"] + ["-o", out], timeout=180,
               env={"WILD_VALIDATE_OUTPUT": "0"})
        if r.rc != 0 or r.timed_out:
            res[which] = dict(link_rc=r.rc, err=r.err[-600:])
            continue
        x = sh([out], timeout=30)
        res[which] = dict(link_rc=0, rc=x.rc, out=x.out, timed_out=x.timed_out, path=out)
    return sub, res


# ---------------------------------------------------------------------------------------------


def corrupt_tables(path, how):
    """Binding demonstration: damage a wild output's tables in a way a writer bug would."""
    raw = bytearray(Path(path).read_bytes())
    e = Elf(data=bytes(raw))
    h = e.section(".eh_frame_hdr")
    hd = ehframe.parse_eh_frame_hdr(e)
    tab = h["offset"] + hd["table_off"]
    n = len(hd["rows"])
    if how == "swap-rows" and n >= 2:
        a, b = raw[tab:tab + 8], raw[tab + 8:tab + 16]
        raw[tab:tab + 8], raw[tab + 8:tab + 16] = b, a
    elif how == "count-1":
        struct.pack_into("<I", raw, h["offset"] + 8, n - 1)
    elif how == "row-pc+1":
        v = struct.unpack_from("<i", raw, tab)[0]
        struct.pack_into("<i", raw, tab, v + 1)
    elif how == "fde-pc+4":
        fr = ehframe.parse_eh_frame(e)
        s = e.section(".eh_frame")
        f = fr["fdes"][0]
        o = s["offset"] + f["off"] + 8
        v = struct.unpack_from("<i", raw, o)[0]
        struct.pack_into("<i", raw, o, v + 4)
    return bytes(raw)


def run(ctx):
    cov = {"samples": []}
    rng = random.Random(ctx.seed)
    model_check(ctx, cov)
    wild = build_wild()
    n_links = int(os.environ.get("C10_LINKS", 0)) or (120 if ctx.quick else 1000)
    n_cpp = int(os.environ.get("C10_CPP", 0)) or (4 if ctx.quick else 24)
    declined, crashed = {}, []
    with scratch("c10") as d:
        scns = [gen_scenario(rng, i) for i in range(n_links)]

        def job(s):
            sub = d / s["id"]
            sub.mkdir()
            s["dir"] = sub
            s["args"] = emit(s, sub)
            return s, run_wild(s["args"] + ["-o", str(sub / "out")], cwd=sub, timeout=60, env=s.get("env"))

        t0 = ctx.elapsed()
        with ThreadPoolExecutor(max_workers=8) as ex:
            results = list(ex.map(job, scns))
        log(f"c10: {n_links} links in {ctx.elapsed() - t0:.1f}s")
        obs, by_id = [], {}
        for scn, r in results:
            if r.klass() in ("panic", "hang") or r.signaled:
                crashed.append({"id": scn["id"], "class": r.klass(), "err": r.err[-300:]})
                continue
            if r.rc != 0:
                lines = [ln.strip() for ln in r.err.strip().splitlines() if ln.strip()] or ["?"]
                declined.setdefault(re.sub(r"-?\d+", "N", re.sub(r"/\S+", "<path>", lines[-1]))[:100], []).append(scn["id"])
                continue
            obs.append(observe(scn["dir"] / "out", scn))
            by_id[scn["id"]] = scn
        if len(obs) < 0.8 * n_links:
            raise ToolError(f"generator problem: only {len(obs)} of {n_links} links accepted: "
                            + json.dumps({k: len(v) for k, v in declined.items()}))
        # GNU ld on some of the x86-64 scenarios (observer / predicate sanity)
        gl = []
        for scn in [s for s in by_id.values() if s["arch"] == "x86_64"][:10]:
            args = [a for a in scn["args"] if not str(a).startswith("--threads")]
            r = asm.gnu_ld(args + ["-o", str(scn["dir"] / "out.ld")], cwd=scn["dir"])
            if r.rc == 0:
                gl.append(observe(scn["dir"] / "out.ld", scn, ident="gnuld-" + scn["id"]))
        # corrupted copies of one wild output with >= 3 FDEs and a header
        mobs, mut_of = [], None
        for o in obs:
            if o["hdr"] and len(o["rows"]) >= 3 and not o["fmt"]:
                mut_of = by_id[o["id"]]
                break
        muts = [("swap-rows", {"Sorted"}), ("count-1", {"Count"}), ("row-pc+1", {"RowFde"}), ("fde-pc+4", {"FdeRetained", "Covered", "RowFde"})]
        if mut_of is not None:
            for how, _exp in muts:
                p = mut_of["dir"] / f"out.{how}"
                p.write_bytes(corrupt_tables(mut_of["dir"] / "out", how))
                mobs.append(observe(p, mut_of, ident="mut-" + how))
        # C++ programs
        bindir = d / "bin"
        bindir.mkdir()
        (bindir / "ld").symlink_to(wild)
        cpp_obs, cpp_runs = [], []
        progs = [gen_cpp(rng, k) for k in range(n_cpp)]
        t0 = ctx.elapsed()
        with ThreadPoolExecutor(max_workers=4) as ex:
            cpp_results = list(ex.map(lambda p: (p,) + run_cpp(p, d, bindir), progs))
        log(f"c10: {n_cpp} C++ programs in {ctx.elapsed() - t0:.1f}s")
        for prog, sub, res in cpp_results:
            ld, wl = res["ld"], res["wild"]
            if ld.get("link_rc") != 0 or ld.get("timed_out"):
                raise ToolError(f"reference link/run of {prog['id']} failed: {ld}")
            if wl.get("link_rc") != 0:
                declined.setdefault("c++: " + (wl.get("err", "").strip().splitlines() or ["?"])[-1][:90], []).append(prog["id"])
                continue
            cpp_runs.append(prog["id"])
            if wl.get("timed_out") or (wl["rc"], wl["out"]) != (ld["rc"], ld["out"]):
                ctx.verdict.report(
                    f"cpp-exception-behaviour:{'+'.join(prog['flags'] + prog['lflags'])}",
                    f"C++ program throwing through {prog['depth']} frames behaves differently when linked by wild: "
                    f"wild rc={wl.get('rc')} out={wl.get('out')!r} timeout={wl.get('timed_out')}; GNU ld rc={ld['rc']} out={ld['out']!r}",
                    lambda sub=sub, prog=prog, res=res: save_replay(PROP, f"{prog['id']}-seed{ctx.seed}", sub, meta={
                        "flags": prog["flags"], "lflags": prog["lflags"], "result": {k: {kk: str(vv) for kk, vv in v.items()} for k, v in res.items()}}))
            cpp_obs.append(observe(wl["path"], None, ident=prog["id"]))
            by_id[prog["id"]] = dict(id=prog["id"], dir=sub, args=prog["flags"] + prog["lflags"], arch="x86_64", kind="c++", opts=[])
        t0 = ctx.elapsed()
        allfails, checked = run_obs(obs + cpp_obs + gl + mobs, "c10.obs", timeout=900 if ctx.quick else 2400)
        log(f"c10: TLC evaluated the predicates on {len(obs)}+{len(cpp_obs)}+{len(gl)}+{len(mobs)} table images in {ctx.elapsed() - t0:.1f}s")
        # GNU ld synthesises FDEs for .plt in dynamic outputs: those are not functions of the inputs
        gfails = [f for f in allfails if f["id"].startswith("gnuld-")
                  and not (f["pred"] == "FdeRetained" and by_id[f["id"][6:]]["kind"] in ("shared", "pie"))]
        if gfails:
            raise ToolError(f"GNU ld outputs fail the predicates (observer or spec wrong): {gfails[:4]}")
        demo = []
        for how, exp in muts if mut_of is not None else []:
            got = {f["pred"] for f in allfails if f["id"] == "mut-" + how}
            demo.append({"corruption": how, "of": mut_of["id"], "rejected_by": sorted(got)})
            if not (got & exp):
                raise ToolError(f"binding demonstration failed: corrupted tables ({how}) accepted (got {got})")
        cov["binding_demo"] = demo
        per = {}
        for f in allfails:
            if not f["id"].startswith(("gnuld-", "mut-")):
                per.setdefault(f["id"], []).append(f)
        for ident, fl in per.items():
            scn = by_id[ident]
            for f in fl:
                gc = "gc" if "--gc-sections" in scn.get("opts", []) else "nogc"
                key = f"{f['pred']}:{scn['arch']}:{scn['kind']}:{gc}"
                ctx.verdict.report(key, f"unwind-table predicate {f['pred']} fails on a wild output ({scn['id']}): offenders {f['bad'][:300]}",
                                   lambda scn=scn, fl=fl: save_replay(PROP, f"{scn['id']}-seed{ctx.seed}", scn["dir"], meta={
                                       "args": [str(a) for a in scn["args"]], "failures": fl,
                                       "scenario": {k: v for k, v in scn.items() if k not in ("dir",)}}))
        n_fdes = sum(checked[o["id"]][0] for o in obs)
        kept = sum(1 for o in obs for f in o["funcs"] if f["kept"])
        dropped = sum(1 for o in obs for f in o["funcs"] if not f["kept"])
        with_hdr = sum(1 for o in obs if o["hdr"])
        if kept == 0 or dropped == 0 or with_hdr < len(obs) // 2 or mut_of is None:
            raise ToolError(f"vacuous population: kept={kept} discarded={dropped} outputs with .eh_frame_hdr={with_hdr}")
        cov["outputs_with_eh_frame_hdr"] = with_hdr
        marked = [o for o in obs if by_id[o["id"]].get("endmark_after") is not None]
        cov["links_with_end_marker_object_before_fdes"] = len(marked)
        if len(marked) < len(obs) // 5:
            raise ToolError("vacuous population: too few links with an .eh_frame end-marker object in non-last position")
        hand_kept = sum(1 for o in obs if o["hdr"] for f in o["funcs"]
                        if f["kept"] and f["id"] > 0 and by_id[o["id"]]["funcs"][f["id"] - 1].get("hand"))
        cov["retained_functions_with_hand_written_fde_named_symbol_pc_begin"] = hand_kept
        if hand_kept < len(obs) // 4:
            raise ToolError(f"vacuous population: only {hand_kept} retained functions at a non-zero section offset with a "
                            "hand-written FDE (named-symbol pc-begin relocation) in outputs with .eh_frame_hdr")
        for o in obs[:2]:
            s = by_id[o["id"]]
            cov["samples"].append({"id": s["id"], "arch": s["arch"], "kind": s["kind"], "opts": s["opts"], "objects": s["n_objs"],
                                   "functions": [f"{f['copy']}/o{f['obj']}/{'cfi' if f['cfi'] else 'nocfi'}" for f in s["funcs"]][:12],
                                   "fdes": len(o["fdes"]), "rows": len(o["rows"]),
                                   "kept": sum(1 for f in o["funcs"] if f["kept"]), "discarded": sum(1 for f in o["funcs"] if not f["kept"])})
    cov["traces_validated_against_impl"] = len(obs) + len(cpp_obs)
    cov["fdes_checked"] = n_fdes
    cov["functions_kept"], cov["functions_discarded"] = kept, dropped
    cov["cpp_programs_executed"] = len(cpp_runs)
    cov["gnu_ld_reference_outputs"] = len(gl)
    cov["observed_by_arch_kind"] = {}
    for o in obs:
        s = by_id[o["id"]]
        k = f"{s['arch']}:{s['kind']}"
        cov["observed_by_arch_kind"][k] = cov["observed_by_arch_kind"].get(k, 0) + 1
    cov["links_declined_by_wild"] = {k: len(v) for k, v in declined.items()}
    cov["links_crashed"] = crashed[:5]
    cov["samples"] = trim_samples(cov["samples"], 3, 1500)
    return {
        "level": "model_checking",
        "coverage": cov,
        "assumptions": [
            "real links are a seeded sample; the writer model is exhaustive within its bound",
            "pc-begin relocation forms covered: section symbol + offset (GNU as .cfi_*), named function symbol + 0 and named symbol + addend (hand-written tables, function at a non-zero offset of its section)",
            "a function is 'retained' iff its byte marker is present in a loaded section of the output; its extent is computed from the generated instruction counts",
            "empty functions (sh_size = 0) are not counted as retained functions (wild and GNU ld both drop their FDEs)",
            "AArch64 outputs are parsed, not executed; C++ programs run on x86-64 only, GNU ld-linked behaviour is the reference",
        ],
    }
