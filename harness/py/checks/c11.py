"""C11 - AArch64 long branches reach their intended target.

1. Spec: specs/Thunks.tla - thunks::assign_thunk_blocks as a state machine (one action per object of
   the primary text part + Finish), the position of a block (end of its owner), and the properties
   Structure, Served (a pair farther apart than the real range always gets a thunk symbol),
   ReachSmall (every site is within the real range of its block when no object is longer than the
   slack) and ReachServable (C11 itself: ... whenever some block position could serve the site).
2. TLC (MCThunks): all object sequences over scaled sizes (R = 8 ~ 126 MiB, slack 2 ~ 2 MiB; sizes
   1..5, <= 5 objects quick / more thorough): Structure, Served, ReachSmall hold on every completed run
   and each run is exported.  ReachServable is checked separately: TLC's counterexample (an object
   longer than the slack pushes the block out of reach of the first object using it) is a
   model-level lead, turned into a real link in step 4.
3. Binding F: every exported run is replayed into the real assign_thunk_blocks (verif_api) with the same
   small range; number of blocks and the (block, owner) of every object must be identical.
4. Binding R/O (end to end): real AArch64 links (clang-assembled objects with `.skip` paddings so that
   caller and callee are > 128 MiB apart; large files deleted at once).  The real-size object list of
   each scenario is first replayed through the real assign_thunk_blocks with the real range; then the
   scenario is linked by wild and every labelled B/BL is decoded statically: imm26 -> target or thunk
   (adrp x16 / add x16 / br x16) -> final target, compared with the symbol's address in the output.
   ld.lld links the same inputs as a sanity oracle of the decoder.  A link that fails (or a branch
   that lands elsewhere) although a block position within range of the site exists is a violation.
"""
import struct

from vlib import asm, elf, tlc
from vlib.common import ToolError, build_wild, log, run_wild, save_replay, scratch, trim_samples
from vlib.conf import run_conf

PROP = "C11"
META = {
    "ready": True,
    "level": "model_checking",
    "technique": "TLA+ state machine of thunk-block assignment exhaustively checked by TLC over scaled object sequences, every run replayed into the real assign_thunk_blocks in-process; end-to-end AArch64 links with >128 MiB paddings decoded statically (B/BL -> thunk -> target)",
    "level_text": "Thunks.tla models assign_thunk_blocks step by step; TLC explores every sequence of up to 5 (quick) / 6-7 (thorough) objects over sizes 1..5 with a scaled range and checks block structure, that far pairs always get a thunk symbol, and reachability of the block from every site when objects are no longer than the slack; every explored run (thousands) is replayed into the real function with the same numbers and must give the identical (block, owner) assignment; real AArch64 links with callers and callees more than 128 MiB apart are decoded statically and every labelled branch must reach its symbol directly or through an adrp/add/br thunk.",
    "level_note": "The end-to-end part is exploration (a few scenarios, no execution: no qemu); PLT/IFUNC targets and non-primary (over-aligned) callers are not generated in this round; thunk-block sizes are taken as 0 in the model (the slack is assumed to cover them); the model is scaled (R = 8/12), the real function is replayed with the same scaled numbers and, per scenario, with the real ones.",
    "engine": "tlc",
}
EXPECTED_ACTIONS = ["First", "AssignPrev", "OpenNext", "AssignNext", "PlaceNext", "Finish"]
# Which assign_thunk_blocks the specification describes.  False: the function as it is on the tree
# (finding large-object-after-caller).  True: with fixes/C11-large-object-after-caller.patch applied
# (Thunks.tla, Fixed = TRUE: PlaceBack); then ReachServable is an invariant of the model, its runs are
# replayed with 1 unit = 1 MiB (the real function's 2 MiB slack is a constant, R is a parameter), and
# the old placement (Fixed = FALSE, mc/Thunks_servable.cfg) is only the broken variant TLC must reject.
FIXED_PLACEMENT = True
MIB = 1 << 20
REAL_RANGE = 128 * MIB
SLACK = 2 * MIB
R_REAL = REAL_RANGE - SLACK


def model(ctx, cov):
    cfgs = [("mc/Thunks_quick.cfg", 900)] if ctx.quick else [("mc/Thunks_quick.cfg", 900), ("mc/Thunks_thorough.cfg", 1700)]
    if FIXED_PLACEMENT:
        cfgs.insert(0, ("mc/Thunks_fixed.cfg", 900))
    states = trans = 0
    records, runs = [], []
    for cfg, to in cfgs:
        r = tlc.run_tlc("MCThunks", cfg, workers=4 if ctx.quick else 8, timeout=to)
        runs.append({"cfg": cfg, **r.summary(), "records": len(r.records)})
        if r.timed_out and not ctx.quick and records:
            log(f"{cfg}: timed out with {r.distinct} states (partial: {len(r.records)} runs exported)")
            for x in r.records:
                x["unit"] = MIB if "fixed" in cfg else 1
            records += r.records
            continue
        if not r.ok:
            raise ToolError(f"Thunks model check failed ({cfg}): {r.violated} {r.error_text}\n{r.trace_text[:2500]}")
        missing = tlc.zero_coverage_actions(r, EXPECTED_ACTIONS + (["PlaceBack"] if "fixed" in cfg else []))
        if missing:
            raise ToolError(f"vacuous model run {cfg}: actions never taken: {missing}")
        states += r.distinct
        trans += r.generated
        for x in r.records:
            # runs of the Fixed model only mean something to the real function at 1 unit = 1 MiB
            x["unit"] = MIB if "fixed" in cfg else 1
        records += r.records
    s = tlc.run_tlc("MCThunks", "mc/Thunks_servable.cfg", workers=4, timeout=600, coverage=False)
    if s.ok or s.violated != "ReachServable":
        raise ToolError(f"ReachServable unexpectedly holds / other failure ({s.violated}): the model no longer "
                        "predicts the large-object case; re-derive the scenario")
    runs.append({"cfg": "mc/Thunks_servable.cfg", "violated_as_expected": s.violated, "trace_states": s.trace_states})
    cov["states"], cov["transitions"], cov["tlc_runs"] = states, trans, runs
    return records


# ------------------------------------------------------------------------------------------------
# End to end


def reach_analysis(sizes, base=0):
    """Replay the real-size object list through the real assign_thunk_blocks and evaluate the spec's
    Reach / Servable on the result (python mirrors Thunks.tla's definitions on real numbers)."""
    objs, pos = [], base
    for sz in sizes:
        if sz > 0:           # objects without primary text are filtered out by the caller of the function
            objs.append([pos, pos + sz])
            pos += sz
    (res,) = run_conf("thunks", [{"objects": objs, "range": R_REAL}])
    final = res["final"]
    owner_end = {}
    for (s, e), (b, own) in zip(objs, final):
        if own:
            owner_end[b] = e
    out = []
    for i, ((s, e), (b, own)) in enumerate(zip(objs, final)):
        bp = owner_end[b]
        far = max(abs(bp - s), abs(bp - (e - 4)))
        servable = any(max(abs(k_e - s), abs(k_e - (e - 4))) <= REAL_RANGE for (_, k_e) in objs)
        out.append({"obj": i, "start": s, "end": e, "block": b, "block_pos": bp,
                    "max_site_distance": far, "reach": far <= REAL_RANGE, "servable": servable})
    return {"objects": objs, "num_blocks": res["num_blocks"], "final": final, "per_object": out}


def sext(v, bits):
    return v - (1 << bits) if v >> (bits - 1) else v


def follow_branch(o, site):
    """Decode B/BL at `site`; if it lands on a range-extension thunk follow it. Returns
    (final target, [steps])."""
    w = o.u32_at(site)
    if w is None or (w >> 26) & 0x1F != 0x05:
        return None, [f"not a B/BL at {site:#x}: {w}"]
    t = site + sext(w & 0x3FFFFFF, 26) * 4
    steps = [f"{'bl' if w >> 31 else 'b'} {t:#x}"]
    w0, w1, w2 = o.u32_at(t), o.u32_at(t + 4), o.u32_at(t + 8)
    if None in (w0, w1, w2):
        return t, steps
    if (w0 & 0x9F00001F) == 0x90000010 and (w1 & 0xFFC003FF) == 0x91000210 and w2 == 0xD61F0200:
        imm = sext((((w0 >> 5) & 0x7FFFF) << 2) | ((w0 >> 29) & 3), 21)
        final = (t & ~0xFFF) + (imm << 12) + ((w1 >> 10) & 0xFFF)
        steps.append(f"thunk@{t:#x}: adrp x16/add x16/br x16 -> {final:#x}")
        return final, steps
    if w0 == 0x58000050 and w1 == 0xD61F0200:      # lld: ldr x16, .+8 ; br x16 ; .xword target
        final = o.u64_at(t + 8)
        steps.append(f"thunk@{t:#x}: ldr x16,=addr/br x16 -> {final:#x}")
        return final, steps
    return t, steps


def scenario_sources(name):
    """name -> list of (file stem, asm text, primary text size in bytes), and the labelled branch
    sites [(site label, target symbol)]."""
    pad = lambda n: f"    .text\n    .skip {n}\n"
    start = ("    .text\n    .globl _start\n    .type _start, %function\n_start:\n"
             "site_start_caller:\n    bl caller\n    mov x8, #93\n    mov x0, #0\n    svc #0\n")
    far = "    .text\n    .globl far\n    .type far, %function\nfar:\n    ret\n"
    if name == "far-call-forward":
        # caller right after _start, 130 MiB of padding, callee behind it: thunk in the FIRST block
        caller = ("    .text\n    .globl caller\n    .type caller, %function\ncaller:\nsite_caller_far:\n"
                  "    bl far\n    ret\n")
        return ([("s0", start, 16), ("s1", caller, 8), ("s2", pad(130 * MIB), 130 * MIB), ("s3", far, 4)],
                [("site_start_caller", "caller"), ("site_caller_far", "far")])
    if name == "far-call-backward":
        # callee first, padding, caller behind: backward branch of 130 MiB
        caller = ("    .text\n    .globl caller\n    .type caller, %function\ncaller:\nsite_caller_far:\n"
                  "    b far\n")
        start2 = ("    .text\n    .globl _start\n    .type _start, %function\n_start:\n"
                  "site_start_caller:\n    bl caller\n    mov x8, #93\n    mov x0, #0\n    svc #0\n")
        return ([("s0", far, 4), ("s1", pad(130 * MIB), 130 * MIB), ("s2", caller, 4), ("s3", start2, 16)],
                [("site_start_caller", "caller"), ("site_caller_far", "far")])
    if name == "non-primary-caller":
        # the caller sits in an over-aligned section (a non-primary part, placed before the primary
        # text): its far call must be served by the FIRST block
        caller = ('    .section .text.al64,"ax",%progbits\n    .p2align 6\n    .globl caller\n'
                  "    .type caller, %function\ncaller:\nsite_caller_far:\n    bl far\n    ret\n")
        return ([("s0", start, 16), ("s1", caller, 0), ("s2", pad(130 * MIB), 130 * MIB), ("s3", far, 4)],
                [("site_start_caller", "caller"), ("site_caller_far", "far")])
    if name == "large-object-after-caller":
        # the shape of TLC's ReachServable counterexample at real scale: the caller's object (126 MiB)
        # opens a pending block, the next object (10 MiB > slack) places it 136 MiB from the caller
        caller = ("    .text\n    .globl caller\n    .type caller, %function\ncaller:\nsite_caller_far:\n"
                  f"    bl far\n    ret\n    .skip {126 * MIB - 8}\n")
        return ([("s0", start, 16), ("s1", caller, 126 * MIB), ("s2", pad(10 * MIB), 10 * MIB), ("s3", far, 4)],
                [("site_start_caller", "caller"), ("site_caller_far", "far")])
    raise ToolError(name)


def run_scenario(ctx, name, cov, report):
    files, sites = scenario_sources(name)
    analysis = reach_analysis([sz for _, _, sz in files])
    info = {"scenario": name, "sizes": [sz for _, _, sz in files], "num_blocks": analysis["num_blocks"],
            "final": analysis["final"],
            "model_reach": [(p["obj"], p["reach"], p["servable"]) for p in analysis["per_object"]]}
    with scratch("c11") as d:
        objs = []
        for stem, text, _ in files:
            p = d / f"{stem}.s"
            p.write_text(text)
            objs.append(asm.assemble(p, arch="aarch64"))
        args = ["-m", "aarch64linux"] + [o.name for o in objs] + ["--no-gc-sections", "-o"]
        rw = run_wild(args + ["out.wild"], cwd=d, timeout=900)
        rl = asm.lld(args + ["out.lld"], cwd=d, timeout=900)
        for o in objs:                       # large scratch: delete at once
            o.unlink()
        info["wild"] = {"rc": rw.rc, "timed_out": rw.timed_out, "err": rw.err.strip()[-400:]}
        if rl.rc != 0:
            raise ToolError(f"ld.lld could not link scenario {name}: {rl.err[-400:]}")

        def decode(path):
            o = elf.Elf(path)
            syms = {s["name"]: s["value"] for s in o.symtab if s["name"]}
            res = []
            for site, target in sites:
                final, steps = follow_branch(o, syms[site])
                res.append({"site": site, "at": syms[site], "target": target, "target_addr": syms[target],
                            "final": final, "steps": steps, "ok": final == syms[target]})
            return res

        lres = decode(d / "out.lld")
        (d / "out.lld").unlink()
        if not all(r["ok"] for r in lres):
            raise ToolError(f"decoder sanity failed on ld.lld's output of {name}: {lres}")
        unreachable_by_model = [p for p in analysis["per_object"] if not p["reach"] and p["servable"]]
        sources = {f"{stem}.s": text for stem, text, _ in files}
        meta = {"scenario": name, "args": args + ["out"], "analysis": analysis["per_object"], "wild": info["wild"],
                "note": "objects are `.skip` paddings: assemble with clang --target=aarch64-linux-gnu -c"}
        if rw.timed_out:
            report(f"{name}:hang", f"wild did not terminate on scenario {name}", meta, sources)
        elif rw.rc != 0:
            info["wild_sites"] = None
            servable = all(p["servable"] for p in analysis["per_object"])
            if servable:
                kind = "branch-out-of-range" if ("outside of bounds" in rw.err or "out of range" in rw.err) else "link-failed"
                report(f"{name}:{kind}",
                       f"wild fails to link scenario {name} although every site has a block position within "
                       f"+-128 MiB (model: objects {[p['obj'] for p in unreachable_by_model]} are assigned a block "
                       f"{[p['max_site_distance'] for p in unreachable_by_model]} bytes away); ld.lld links it. "
                       f"wild: {rw.err.strip()[-220:]}", meta, sources)
        else:
            wres = decode(d / "out.wild")
            info["wild_sites"] = wres
            for r in wres:
                if not r["ok"]:
                    report(f"{name}:wrong-destination:{r['site']}",
                           f"branch at {r['site']} ({r['at']:#x}) ends at {r['final']} instead of {r['target']} "
                           f"({r['target_addr']:#x}): {r['steps']}", dict(meta, sites=wres), sources)
        if (d / "out.wild").exists():
            (d / "out.wild").unlink()
    cov.setdefault("e2e", []).append(info)
    return info


def run(ctx):
    cov = {"samples": []}
    records = model(ctx, cov)
    log(f"C11: {len(records)} completed runs exported by TLC")

    def report(key, text, meta, files=None):
        ctx.verdict.report(key, text, lambda: save_replay(PROP, key.replace(":", "_"), files=files, meta=meta))

    # ---- F: replay every run into the real assign_thunk_blocks
    reqs = [{"objects": [[a * r["unit"], b * r["unit"]] for a, b in r["objects"]], "range": r["R"] * r["unit"]}
            for r in records]
    res = run_conf("thunks", reqs, timeout=900)
    mism = 0
    for rec, q, got in zip(records, reqs, res):
        if "panic" in got:
            report("assign:panic", f"assign_thunk_blocks panicked on {q}: {got['panic']}", {"request": q})
            continue
        want_final = [[b, own] for b, own in rec["final"]]
        if got["num_blocks"] != rec["num_blocks"] or got["final"] != want_final:
            mism += 1
            if mism <= 3:
                report("assign:differs-from-model",
                       f"assign_thunk_blocks({q['objects']}, {q['range']}) = {got['num_blocks']} blocks {got['final']}; "
                       f"model: {rec['num_blocks']} blocks {want_final}",
                       {"request": q, "got": got, "model": rec,
                        "how": "echo '<request>' | .cache/target-conf/release/wildconf thunks"})
    cov["traces_validated_against_impl"] = len(records)
    cov["samples"].append({"tlc_run": records[len(records) // 2], "real": res[len(records) // 2]})

    # ---- end to end
    build_wild()
    names = ["far-call-forward", "large-object-after-caller"]
    if not ctx.quick:
        names[1:1] = ["far-call-backward", "non-primary-caller"]
    for n in names:
        info = run_scenario(ctx, n, cov, report)
        log(f"C11: scenario {n}: wild rc={info['wild']['rc']} blocks={info['num_blocks']}")
    cov["e2e_links"] = len(names)
    cov["samples"].append({"e2e": {k: v for k, v in cov["e2e"][0].items() if k != "final"}})
    cov["samples"] = trim_samples(cov["samples"], 4, 1200)
    return {
        "level": "model_checking",
        "coverage": cov,
        "assumptions": [
            "thunk blocks have size 0 in the model; the 2 MiB slack is assumed to cover the blocks that layout inserts",
            "scaled model (R = 8/12, slack 2); the real function is replayed with exactly these numbers, and with the real range on the end-to-end scenarios",
            "end-to-end outputs are decoded statically, not executed (no qemu); only labelled branch sites are followed",
            "non-primary (over-aligned) callers, PLT and IFUNC targets are not generated in this round",
        ],
    }
