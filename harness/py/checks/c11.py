"""C11 - AArch64 long branches reach their intended target.

1. Spec: specs/Thunks.tla - thunks::assign_thunk_blocks as a state machine (one action per object of
   the primary text part + Finish), the position of a block (end of its owner), and the properties
   Structure, Served (a pair farther apart than the real range always gets a thunk symbol),
   ReachSmall (every site is within the real range of its block when no object is longer than the
   slack) and ReachServable (C11 itself: ... whenever some block position could serve the site).
2. TLC (MCThunks): all object sequences over scaled sizes (R = 8 ~ 126 MiB, slack 2 ~ 2 MiB; sizes
   1..5, <= 5 objects quick / more thorough): Structure, Served, ReachSmall hold on every completed run
   and each run is exported.  ReachServable is checked separately: TLC's counterexample (an object
   longer than the slack pushes the block out of reach of the first object using it) is a
   model-level lead, turned into a real link in step 4.
3. Binding F: every exported run is replayed into the real assign_thunk_blocks (verif_api) with the same
   small range; number of blocks and the (block, owner) of every object must be identical.
4. Binding R/O (end to end): real AArch64 links (clang-assembled objects with `.skip` paddings so that
   caller and callee are > 128 MiB apart; large files deleted at once).  The real-size object list of
   each scenario is first replayed through the real assign_thunk_blocks with the real range; then the
   scenario is linked by wild and every labelled B/BL is decoded statically: imm26 -> target or thunk
   (adrp x16 / add x16 / br x16) -> final target, compared with the symbol's address in the output.
   ld.lld links the same inputs as a sanity oracle of the decoder.  A link that fails (or a branch
   that lands elsewhere) although a block position within range of the site exists is a violation.
5. Non-primary executable parts (specs/ThunksParts.tla): the image = .plt.got / .init,.fini,custom-named
   executable sections / over-aligned .text parts (all placed BEFORE the primary part, part ids below,
   above, below the primary's) + the primary part + .text parts of alignment 1/2 (placed AFTER, ids
   above).  The code's decision for a target outside the primary part (estimate N + caller end < R, N =
   compute_non_primary_text_size) against the declarative requirement (true distance in the final layout
   > real range => not "provably in range").  TLC: EstimateIsUpperBound / ServedBefore over all size
   vectors x caller positions; estimates that count only the parts with smaller (or only larger) ids
   are rejected; ServedAfter is rejected for the code as written (lead -> scenario target-after-primary,
   a recorded finding).  Binding F: every size vector at 1 unit = 1 MiB into the real
   compute_non_primary_text_size and the real output order (verif_api::aarch64_exec_parts): part ids and
   sides as modelled, N >= the bytes really placed before the primary part.  Binding R/O: real links
   with the target in a 4 MiB custom-named section, in .init, in a 64-byte aligned .text part, a
   64 KiB control, and the target behind the primary part.
"""
import concurrent.futures
import struct

from vlib import asm, elf, tlc
from vlib.common import ToolError, build_wild, log, run_wild, save_replay, scratch, trim_samples
from vlib.conf import run_conf

PROP = "C11"
META = {
    "ready": True,
    "level": "model_checking",
    "technique": "TLA+ state machine of thunk-block assignment exhaustively checked by TLC over scaled object sequences, every run replayed into the real assign_thunk_blocks in-process; TLA+ model of the non-primary executable parts (size, part id below/above, placed before/after the primary part) with the estimate-based thunk decision checked against true layout distance, every size vector replayed into the real compute_non_primary_text_size and output order; end-to-end AArch64 links with >128 MiB paddings decoded statically (B/BL -> thunk -> target)",
    "level_text": "Thunks.tla models assign_thunk_blocks step by step; TLC explores every sequence of up to 5 (quick) / 6-7 (thorough) objects over sizes 1..5 with a scaled range and checks block structure, that far pairs always get a thunk symbol, and reachability of the block from every site when objects are no longer than the slack; every explored run (thousands) is replayed into the real function with the same numbers and must give the identical (block, owner) assignment. ThunksParts.tla models the executable image as four classes of non-primary parts (.plt.got; .init/.fini/custom-named; over-aligned .text; low-alignment .text) with sizes {0,2,5}, their part id relative to the primary part and their side in output order, plus the caller's object in the primary part: TLC checks on every configuration that the code's estimate (non-primary size + caller end) bounds the true distance to any target placed before the primary part and that a target farther than the real range is never declared in range, rejects estimates that count only smaller-id or only larger-id parts, and produces the counterexample for targets placed after the primary part; all 81 size vectors are replayed (1 unit = 1 MiB) into the real compute_non_primary_text_size and the real output-order computation (ids, sides, and N >= bytes really before the primary part). Real AArch64 links with callers and callees more than 128 MiB apart (callee in the primary part, in a 4 MiB custom-named executable section, in .init/.fini (thorough), in a 64-byte aligned .text part, in a 64 KiB custom section, and in an alignment-1 .text part behind the primary part, the caller's object ending 125 MiB into the primary part so that only a correct count of the non-primary bytes asks for the thunk) are decoded statically and every labelled branch must reach its symbol directly or through an adrp/add/br thunk.",
    "level_note": "The end-to-end part is exploration (ten scenarios, six of them in quick; no execution: no qemu); PLT/IFUNC targets are only covered as a size class of the estimate (no dynamic or IFUNC symbol is linked), callers in non-primary parts only by one thorough scenario (over-aligned caller) and not by the model (thunks.rs assumes the non-primary code fits within the range); provably_in_range itself is a closure and is not called in-process: its fallback is modelled (src_end < R) and exercised only through real links; thunk-block sizes are taken as 0 in the model (the slack is assumed to cover them); the model is scaled (R = 8/12, slack 2), the real functions are replayed with the same scaled numbers (assign_thunk_blocks) or at 1 unit = 1 MiB (compute_non_primary_text_size) and, per scenario, with the real ones.",
    "engine": "tlc",
}
EXPECTED_ACTIONS = ["First", "AssignPrev", "OpenNext", "AssignNext", "PlaceNext", "Finish"]
# Which assign_thunk_blocks the specification describes.  False: the function as it is on the tree
# (finding large-object-after-caller).  True: with fixes/C11-large-object-after-caller.patch applied
# (Thunks.tla, Fixed = TRUE: PlaceBack); then ReachServable is an invariant of the model, its runs are
# replayed with 1 unit = 1 MiB (the real function's 2 MiB slack is a constant, R is a parameter), and
# the old placement (Fixed = FALSE, mc/Thunks_servable.cfg) is only the broken variant TLC must reject.
FIXED_PLACEMENT = True
MIB = 1 << 20
REAL_RANGE = 128 * MIB
SLACK = 2 * MIB
R_REAL = REAL_RANGE - SLACK


def model(ctx, cov):
    cfgs = [("mc/Thunks_quick.cfg", 900)] if ctx.quick else [("mc/Thunks_quick.cfg", 900), ("mc/Thunks_thorough.cfg", 1700)]
    if FIXED_PLACEMENT:
        cfgs.insert(0, ("mc/Thunks_fixed.cfg", 900))
    states = trans = 0
    records, runs = [], []
    for cfg, to in cfgs:
        r = tlc.run_tlc("MCThunks", cfg, workers=4 if ctx.quick else 8, timeout=to)
        runs.append({"cfg": cfg, **r.summary(), "records": len(r.records)})
        if r.timed_out and not ctx.quick and records:
            log(f"{cfg}: timed out with {r.distinct} states (partial: {len(r.records)} runs exported)")
            for x in r.records:
                x["unit"] = MIB if "fixed" in cfg else 1
            records += r.records
            continue
        if not r.ok:
            raise ToolError(f"Thunks model check failed ({cfg}): {r.violated} {r.error_text}\n{r.trace_text[:2500]}")
        missing = tlc.zero_coverage_actions(r, EXPECTED_ACTIONS + (["PlaceBack"] if "fixed" in cfg else []))
        if missing:
            raise ToolError(f"vacuous model run {cfg}: actions never taken: {missing}")
        states += r.distinct
        trans += r.generated
        for x in r.records:
            # runs of the Fixed model only mean something to the real function at 1 unit = 1 MiB
            x["unit"] = MIB if "fixed" in cfg else 1
        records += r.records
    s = tlc.run_tlc("MCThunks", "mc/Thunks_servable.cfg", workers=4, timeout=600, coverage=False)
    if s.ok or s.violated != "ReachServable":
        raise ToolError(f"ReachServable unexpectedly holds / other failure ({s.violated}): the model no longer "
                        "predicts the large-object case; re-derive the scenario")
    runs.append({"cfg": "mc/Thunks_servable.cfg", "violated_as_expected": s.violated, "trace_states": s.trace_states})
    cov["states"], cov["transitions"], cov["tlc_runs"] = states, trans, runs
    return records


# ------------------------------------------------------------------------------------------------
# ThunksParts: non-primary executable parts


PARTS_BROKEN = (("broken_smaller", "ServedBefore"), ("broken_larger", "ServedBefore"), ("after", "ServedAfter"))


def parts_tlc_start(pool):
    """The four TLC runs over ThunksParts are independent of the Thunks ones: started first, they run
    next to them (1-2 workers each; the work is the enumeration of initial states, which is serial)."""
    futs = {"quick": pool.submit(tlc.run_tlc, "MCThunksParts", "mc/ThunksParts_quick.cfg", workers=2, timeout=600,
                                 coverage=False)}
    for cfg, _ in PARTS_BROKEN:
        futs[cfg] = pool.submit(tlc.run_tlc, "MCThunksParts", f"mc/ThunksParts_{cfg}.cfg", workers=1, timeout=300,
                                coverage=False)
    return futs


def parts_model_and_replay(ctx, cov, report, futs):
    """TLC over ThunksParts (every size vector of the four classes of non-primary parts x caller
    positions), the broken estimates must be rejected; every size vector is replayed into the real
    compute_non_primary_text_size and the real output order (verif_api::aarch64_exec_parts)."""
    r = futs["quick"].result()
    if not r.ok:
        raise ToolError(f"ThunksParts model check failed: {r.violated} {r.error_text}\n{r.trace_text[:2000]}")
    runs = [{"cfg": "mc/ThunksParts_quick.cfg", **r.summary(), "records": len(r.records)}]
    for cfg, inv in PARTS_BROKEN:
        b = futs[cfg].result()
        if b.ok or b.violated != inv:
            raise ToolError(f"mc/ThunksParts_{cfg}.cfg: expected TLC to reject {inv}, got ok={b.ok} violated={b.violated} "
                            f"{b.error_text}")
        runs.append({"cfg": f"mc/ThunksParts_{cfg}.cfg", "violated_as_expected": b.violated})
    cov["states"] += r.distinct
    cov["transitions"] += r.generated
    cov["tlc_runs"] += runs
    if not r.records:
        raise ToolError("ThunksParts: no REPLAY records")

    # class -> real parts (section name, alignment exponent); which member of a class is used rotates
    # with the seed and the record so that .init, .fini and custom-named sections, several over-alignments
    # and both low alignments are all exercised
    init_like = [(".init", 2), (".fini", 2), (".mytext", 2), ("fastcode", 4)]
    reqs = []
    for i, rec in enumerate(r.records):
        k = i + ctx.seed
        real = {"plt": (".plt.got", 0), "init": init_like[k % len(init_like)],
                "hi": (".text", 3 + k % 4), "lo": (".text", k % 2)}
        classes = [c for c in ("plt", "init", "hi", "lo") if rec["sizes"][c] > 0]
        reqs.append({"parts": [[real[c][0], real[c][1], rec["sizes"][c] * MIB] for c in classes],
                     "primary": 9 * MIB, "classes": classes})
    res = run_conf("thunks", reqs, timeout=600)
    under, mismatch = 0, None
    for rec, q, got in zip(r.records, reqs, res):
        if "panic" in got or "error" in got:
            raise ToolError(f"aarch64_exec_parts failed on {q}: {got}")
        order, prim = got["output_order"], got["primary_part"]
        ppos = order.index(prim)
        size_of = {pid: part[2] for pid, part in zip(got["part_ids"], q["parts"])}
        real_before = sum(size_of[pid] for pid in order[:ppos])
        for c, pid in zip(q["classes"], got["part_ids"]):
            side_before = order.index(pid) < ppos
            if side_before != rec["before"][c] or (pid < prim) != rec["id_below"][c]:
                raise ToolError(f"ThunksParts no longer describes the code: class {c} ({q['parts']}) has part id {pid} "
                                f"(primary {prim}) and is placed {'before' if side_before else 'after'} the primary part")
        n = got["non_primary_text_size"]
        if n < real_before:
            missing = [c for c in q["classes"] if rec["before"][c]]
            report("non-primary-size:below-size-before-primary",
                   f"compute_non_primary_text_size = {n} for parts {q['parts']} although {real_before} bytes of executable "
                   f"parts are placed before the primary part in the real output order {order} (primary part {prim}): "
                   f"the distance to a target in {missing} is under-estimated by up to {real_before - n} bytes, "
                   "ThunksParts.tla rejects such an estimate (ServedBefore): a branch that needs a thunk is declared in range",
                   {"request": q, "got": got, "model": rec,
                    "how": "echo '<request>' | .cache/target-conf/release/wildconf thunks"})
            under += 1
            break
        if n != rec["N"] * MIB and mismatch is None:
            mismatch = (f"compute_non_primary_text_size({q['parts']}) = {n}, model (Counted = all): {rec['N'] * MIB}: "
                        "the specification no longer describes the function")
    if mismatch and not under:
        # counting differently without ever falling below the bytes before the primary part does not
        # contradict C11: the model has to follow the code
        raise ToolError(mismatch)
    cov["parts_vectors_replayed"] = len(reqs)
    cov["samples"].append({"parts_record": r.records[len(r.records) // 2], "real": res[len(r.records) // 2]})
    return len(reqs)


# ------------------------------------------------------------------------------------------------
# End to end


def reach_analysis(sizes, base=0):
    """Replay the real-size object list through the real assign_thunk_blocks and evaluate the spec's
    Reach / Servable on the result (python mirrors Thunks.tla's definitions on real numbers)."""
    objs, pos = [], base
    for sz in sizes:
        if sz > 0:           # objects without primary text are filtered out by the caller of the function
            objs.append([pos, pos + sz])
            pos += sz
    (res,) = run_conf("thunks", [{"objects": objs, "range": R_REAL}])
    final = res["final"]
    owner_end = {}
    for (s, e), (b, own) in zip(objs, final):
        if own:
            owner_end[b] = e
    out = []
    for i, ((s, e), (b, own)) in enumerate(zip(objs, final)):
        bp = owner_end[b]
        far = max(abs(bp - s), abs(bp - (e - 4)))
        servable = any(max(abs(k_e - s), abs(k_e - (e - 4))) <= REAL_RANGE for (_, k_e) in objs)
        out.append({"obj": i, "start": s, "end": e, "block": b, "block_pos": bp,
                    "max_site_distance": far, "reach": far <= REAL_RANGE, "servable": servable})
    return {"objects": objs, "num_blocks": res["num_blocks"], "final": final, "per_object": out}


def sext(v, bits):
    return v - (1 << bits) if v >> (bits - 1) else v


def follow_branch(o, site):
    """Decode B/BL at `site`; if it lands on a range-extension thunk follow it. Returns
    (final target, [steps])."""
    w = o.u32_at(site)
    if w is None or (w >> 26) & 0x1F != 0x05:
        return None, [f"not a B/BL at {site:#x}: {w}"]
    t = site + sext(w & 0x3FFFFFF, 26) * 4
    steps = [f"{'bl' if w >> 31 else 'b'} {t:#x}"]
    w0, w1, w2 = o.u32_at(t), o.u32_at(t + 4), o.u32_at(t + 8)
    if None in (w0, w1, w2):
        return t, steps
    if (w0 & 0x9F00001F) == 0x90000010 and (w1 & 0xFFC003FF) == 0x91000210 and w2 == 0xD61F0200:
        imm = sext((((w0 >> 5) & 0x7FFFF) << 2) | ((w0 >> 29) & 3), 21)
        final = (t & ~0xFFF) + (imm << 12) + ((w1 >> 10) & 0xFFF)
        steps.append(f"thunk@{t:#x}: adrp x16/add x16/br x16 -> {final:#x}")
        return final, steps
    if w0 == 0x58000050 and w1 == 0xD61F0200:      # lld: ldr x16, .+8 ; br x16 ; .xword target
        final = o.u64_at(t + 8)
        steps.append(f"thunk@{t:#x}: ldr x16,=addr/br x16 -> {final:#x}")
        return final, steps
    return t, steps


def scenario_sources(name):
    """name -> list of (file stem, asm text, primary text size in bytes), and the labelled branch
    sites [(site label, target symbol)]."""
    pad = lambda n: f"    .text\n    .skip {n}\n"
    start = ("    .text\n    .globl _start\n    .type _start, %function\n_start:\n"
             "site_start_caller:\n    bl caller\n    mov x8, #93\n    mov x0, #0\n    svc #0\n")
    far = "    .text\n    .globl far\n    .type far, %function\nfar:\n    ret\n"
    if name == "far-call-forward":
        # caller right after _start, 130 MiB of padding, callee behind it: thunk in the FIRST block
        caller = ("    .text\n    .globl caller\n    .type caller, %function\ncaller:\nsite_caller_far:\n"
                  "    bl far\n    ret\n")
        return ([("s0", start, 16), ("s1", caller, 8), ("s2", pad(130 * MIB), 130 * MIB), ("s3", far, 4)],
                [("site_start_caller", "caller"), ("site_caller_far", "far")])
    if name == "far-call-backward":
        # callee first, padding, caller behind: backward branch of 130 MiB
        caller = ("    .text\n    .globl caller\n    .type caller, %function\ncaller:\nsite_caller_far:\n"
                  "    b far\n")
        start2 = ("    .text\n    .globl _start\n    .type _start, %function\n_start:\n"
                  "site_start_caller:\n    bl caller\n    mov x8, #93\n    mov x0, #0\n    svc #0\n")
        return ([("s0", far, 4), ("s1", pad(130 * MIB), 130 * MIB), ("s2", caller, 4), ("s3", start2, 16)],
                [("site_start_caller", "caller"), ("site_caller_far", "far")])
    if name == "non-primary-caller":
        # the caller sits in an over-aligned section (a non-primary part, placed before the primary
        # text): its far call must be served by the FIRST block
        caller = ('    .section .text.al64,"ax",%progbits\n    .p2align 6\n    .globl caller\n'
                  "    .type caller, %function\ncaller:\nsite_caller_far:\n    bl far\n    ret\n")
        return ([("s0", start, 16), ("s1", caller, 0), ("s2", pad(130 * MIB), 130 * MIB), ("s3", far, 4)],
                [("site_start_caller", "caller"), ("site_caller_far", "far")])
    if name == "large-object-after-caller":
        # the shape of TLC's ReachServable counterexample at real scale: the caller's object (126 MiB)
        # opens a pending block, the next object (10 MiB > slack) places it 136 MiB from the caller
        caller = ("    .text\n    .globl caller\n    .type caller, %function\ncaller:\nsite_caller_far:\n"
                  f"    bl far\n    ret\n    .skip {126 * MIB - 8}\n")
        return ([("s0", start, 16), ("s1", caller, 126 * MIB), ("s2", pad(10 * MIB), 10 * MIB), ("s3", far, 4)],
                [("site_start_caller", "caller"), ("site_caller_far", "far")])
    if name in PART_SCENARIOS:
        # ThunksParts.tla at real scale: the TARGET lives in a non-primary executable part of `np` bytes
        # (class: id above/below the primary part's, placed before/after it); the caller's object ends
        # `pad` + 24 bytes into the primary part.
        sect, np, padn, _cls = PART_SCENARIOS[name]
        tgt = (f"    {sect}\n    .globl far\n    .type far, %function\nfar:\n    ret\n"
               + (f"    .skip {np - 4}\n" if np > 4 else ""))
        caller = ("    .text\n    .globl caller\n    .type caller, %function\ncaller:\nsite_caller_far:\n"
                  "    bl far\n    ret\n")
        if _cls == "lo":
            start_far = ("    .text\n    .globl _start\n    .type _start, %function\n_start:\nsite_start_far:\n"
                         "    bl far\n    mov x8, #93\n    mov x0, #0\n    svc #0\n")
            return ([("s0", start_far, 16), ("s1", pad(padn), padn), ("s2", tgt, 0)], [("site_start_far", "far")])
        return ([("s0", tgt + start, 16), ("s1", pad(padn), padn), ("s2", caller, 8)],
                [("site_start_caller", "caller"), ("site_caller_far", "far")])
    raise ToolError(name)


# name -> (section directive of the target, size of that non-primary part, primary padding between _start
# and the caller, ThunksParts class).  With np = 4 MiB and pad = 125 MiB the caller ends 125 MiB into the
# primary part: the site is 129 MiB from the target (> 128 MiB: a thunk is needed), the estimate that
# counts the part says 129 MiB >= 126 MiB (thunk symbol collected), an estimate that forgets the part
# says 125 MiB < 126 MiB ("provably in range": link error).
PART_SCENARIOS = {
    "custom-exec-target": ('.section .mytext,"ax",%progbits\n    .p2align 2', 4 * MIB, 125 * MIB, "init"),
    "init-target": ('.section .init,"ax",%progbits\n    .p2align 2', 4 * MIB, 125 * MIB, "init"),
    "fini-target": ('.section .fini,"ax",%progbits\n    .p2align 2', 3 * MIB, 125 * MIB + 512 * 1024, "init"),
    "overaligned-text-target": ('.section .text.al64,"ax",%progbits\n    .p2align 6', 4 * MIB, 125 * MIB, "hi"),
    "small-custom-control": ('.section .mytext,"ax",%progbits\n    .p2align 2', 64 * 1024, 128 * MIB, "init"),
    # the shape of TLC's ServedAfter counterexample: the target in a .text part of alignment 1, which is
    # placed AFTER the primary part; the caller is the first object
    "target-after-primary": ('.section .text.lo,"ax",%progbits', 4, 130 * MIB, "lo"),
}


def parts_model(name):
    """ThunksParts.tla's definitions on the real numbers of a PART_SCENARIOS entry."""
    _sect, np, padn, cls = PART_SCENARIOS[name]
    before = np if cls != "lo" else 0
    n_all = np                                   # compute_non_primary_text_size as written counts every part
    if cls == "lo":
        cs, ce, true_dist = 0, 16, 16 + padn          # site at primary offset 0, target right behind the primary part
    else:
        cs, ce = 16 + padn, 16 + padn + 8
        true_dist = before + cs
    return {"class": cls, "non_primary_size": np, "before": before, "N": n_all, "caller": [cs, ce],
            "src_end": n_all + ce, "provably_in_range": n_all + ce < R_REAL, "true_distance": true_dist,
            "needs_thunk": true_dist > REAL_RANGE,
            "served_by_estimate": not (true_dist > REAL_RANGE and n_all + ce < R_REAL)}


def run_scenario(ctx, name, cov, report, use_lld=True):
    files, sites = scenario_sources(name)
    pm = parts_model(name) if name in PART_SCENARIOS else None
    analysis = reach_analysis([sz for _, _, sz in files], base=pm["before"] if pm else 0)
    info = {"scenario": name, "sizes": [sz for _, _, sz in files], "num_blocks": analysis["num_blocks"],
            "final": analysis["final"],
            "model_reach": [(p["obj"], p["reach"], p["servable"]) for p in analysis["per_object"]]}
    if pm:
        info["parts_model"] = pm
    with scratch("c11") as d:
        objs = []
        for stem, text, _ in files:
            p = d / f"{stem}.s"
            p.write_text(text)
            objs.append(asm.assemble(p, arch="aarch64"))
        args = ["-m", "aarch64linux"] + [o.name for o in objs] + ["--no-gc-sections", "-o"]
        rw = run_wild(args + ["out.wild"], cwd=d, timeout=900)
        rl = asm.lld(args + ["out.lld"], cwd=d, timeout=900) if use_lld else None
        for o in objs:                       # large scratch: delete at once
            o.unlink()
        info["wild"] = {"rc": rw.rc, "timed_out": rw.timed_out, "err": rw.err.strip()[-400:]}
        if rl is not None and rl.rc != 0:
            raise ToolError(f"ld.lld could not link scenario {name}: {rl.err[-400:]}")

        def decode(path):
            o = elf.Elf(path)
            syms = {s["name"]: s["value"] for s in o.symtab if s["name"]}
            res = []
            for site, target in sites:
                final, steps = follow_branch(o, syms[site])
                res.append({"site": site, "at": syms[site], "target": target, "target_addr": syms[target],
                            "final": final, "steps": steps, "ok": final == syms[target]})
            return res

        if rl is not None:
            lres = decode(d / "out.lld")
            (d / "out.lld").unlink()
            if not all(r["ok"] for r in lres):
                raise ToolError(f"decoder sanity failed on ld.lld's output of {name}: {lres}")
            info["lld_sites_ok"] = len(lres)
        unreachable_by_model = [p for p in analysis["per_object"] if not p["reach"] and p["servable"]]
        sources = {f"{stem}.s": text for stem, text, _ in files}
        meta = {"scenario": name, "args": args + ["out"], "analysis": analysis["per_object"], "wild": info["wild"], "parts_model": pm,
                "note": "objects are `.skip` paddings: assemble with clang --target=aarch64-linux-gnu -c"}
        if rw.timed_out:
            report(f"{name}:hang", f"wild did not terminate on scenario {name}", meta, sources)
        elif rw.rc != 0:
            info["wild_sites"] = None
            servable = all(p["servable"] for p in analysis["per_object"])
            if pm:      # only the object with the far call matters (the paddings contain no branch)
                servable = analysis["per_object"][0 if pm["class"] == "lo" else -1]["servable"]
            kind = "branch-out-of-range" if ("outside of bounds" in rw.err or "out of range" in rw.err) else "link-failed"
            if servable and pm:
                report(f"{name}:{kind}",
                       f"wild fails to link scenario {name}: the call to `far` (in a non-primary executable part, class "
                       f"{pm['class']}, {pm['non_primary_size']} bytes) is {pm['true_distance']} bytes from its site, the "
                       f"caller's object has thunk block positions within +-128 MiB, so a thunk could serve it"
                       f"{'; ld.lld links it' if rl is not None else ''}. Estimate as thunks.rs is written: src_end = "
                       f"{pm['src_end']}, provably_in_range = {pm['provably_in_range']}. wild: {rw.err.strip()[-220:]}",
                       meta, sources)
            elif servable:
                report(f"{name}:{kind}",
                       f"wild fails to link scenario {name} although every site has a block position within "
                       f"+-128 MiB (model: objects {[p['obj'] for p in unreachable_by_model]} are assigned a block "
                       f"{[p['max_site_distance'] for p in unreachable_by_model]} bytes away); ld.lld links it. "
                       f"wild: {rw.err.strip()[-220:]}", meta, sources)
        else:
            wres = decode(d / "out.wild")
            info["wild_sites"] = wres
            for r in wres:
                if not r["ok"]:
                    report(f"{name}:wrong-destination:{r['site']}",
                           f"branch at {r['site']} ({r['at']:#x}) ends at {r['final']} instead of {r['target']} "
                           f"({r['target_addr']:#x}): {r['steps']}", dict(meta, sites=wres), sources)
        if (d / "out.wild").exists():
            (d / "out.wild").unlink()
    cov.setdefault("e2e", []).append(info)
    return info


def run(ctx):
    cov = {"samples": []}
    pool = concurrent.futures.ThreadPoolExecutor(max_workers=4)
    parts_futs = parts_tlc_start(pool)
    try:
        records = model(ctx, cov)
    finally:
        pool.shutdown(wait=True)
    log(f"C11: {len(records)} completed runs exported by TLC")

    def report(key, text, meta, files=None):
        ctx.verdict.report(key, text, lambda: save_replay(PROP, key.replace(":", "_"), files=files, meta=meta))

    # ---- F: replay every run into the real assign_thunk_blocks
    reqs = [{"objects": [[a * r["unit"], b * r["unit"]] for a, b in r["objects"]], "range": r["R"] * r["unit"]}
            for r in records]
    res = run_conf("thunks", reqs, timeout=900)
    mism = 0
    for rec, q, got in zip(records, reqs, res):
        if "panic" in got:
            report("assign:panic", f"assign_thunk_blocks panicked on {q}: {got['panic']}", {"request": q})
            continue
        want_final = [[b, own] for b, own in rec["final"]]
        if got["num_blocks"] != rec["num_blocks"] or got["final"] != want_final:
            mism += 1
            if mism <= 3:
                report("assign:differs-from-model",
                       f"assign_thunk_blocks({q['objects']}, {q['range']}) = {got['num_blocks']} blocks {got['final']}; "
                       f"model: {rec['num_blocks']} blocks {want_final}",
                       {"request": q, "got": got, "model": rec,
                        "how": "echo '<request>' | .cache/target-conf/release/wildconf thunks"})
    cov["samples"].append({"tlc_run": records[len(records) // 2], "real": res[len(records) // 2]})
    nparts = parts_model_and_replay(ctx, cov, report, parts_futs)
    cov["traces_validated_against_impl"] = len(records) + nparts
    log(f"C11: {nparts} non-primary part size vectors replayed into compute_non_primary_text_size")

    # ---- end to end
    build_wild()
    # ld.lld (about 20 s per link) is the decoder's sanity oracle on the first scenario; the others are only
    # linked by wild in the quick tier (thorough: every scenario is also linked by ld.lld)
    names = ["far-call-forward", "large-object-after-caller", "custom-exec-target",
             "overaligned-text-target", "small-custom-control", "target-after-primary"]
    with_lld = {"far-call-forward"}
    if not ctx.quick:
        names[1:1] = ["far-call-backward", "non-primary-caller"]
        names += ["init-target", "fini-target"]
        with_lld = set(names)
    for n in names:
        info = run_scenario(ctx, n, cov, report, use_lld=n in with_lld)
        log(f"C11: scenario {n}: wild rc={info['wild']['rc']} blocks={info['num_blocks']}")
    cov["e2e_links"] = len(names)
    cov["samples"].append({"e2e": {k: v for k, v in cov["e2e"][0].items() if k != "final"}})
    cov["samples"] = trim_samples(cov["samples"], 4, 1200)
    return {
        "level": "model_checking",
        "coverage": cov,
        "assumptions": [
            "thunk blocks have size 0 in the model; the 2 MiB slack is assumed to cover the blocks that layout inserts",
            "scaled model (R = 8/12, slack 2); the real function is replayed with exactly these numbers, and with the real range on the end-to-end scenarios",
            "end-to-end outputs are decoded statically, not executed (no qemu); only labelled branch sites are followed",
            "ThunksParts: four classes of non-primary executable parts as read off part_id.rs / elf.rs build_output_order_and_program_segments (checked against the real output order in-process); inside a class the target may be anywhere, the caller is in the primary part",
            "dynamic (PLT) and IFUNC targets are not linked end to end; callers in non-primary parts only in the thorough scenario non-primary-caller",
        ],
    }
