"""C12 - Relocation overflow is reported exactly when a value doesn't fit.

1. Spec: specs/RelocRange.tla - table of x86-64 and AArch64 static relocation types with the psABI
   range check (signed / unsigned / either / none, width, scale), Fits, Stored, NoTruncation.
2. TLC (MCRelocRange): every type x boundary values of its field (and the 64-bit extremes): checks
   that the psABI range is exactly the set of values the field holds without loss and prints one
   REPLAY record per (type, value) with the predicted decision and field content. Three broken
   readings of the table - unverified relocations in debug sections, signed-only R_X86_64_8/16, a half-open "no check" range that excludes
   i64::MAX, unchecked MOVW_PREL_G0..2 - must each be rejected by TLC
   (anti-vacuity); if the code behaves like one of them again the links below report a VIOLATION.
   The section kind of the place is a dimension of the cases (loaded section, or - for the absolute
   data types, the only ones legal there - a non-alloc `.debug_info` section): the rule is the same.
3. Binding R (end to end): every record becomes a real link - `.reloc` of exactly that type against
   an absolute symbol (`--defsym sym=v`) or, for PC-relative types, against the place itself plus
   addend v - by GNU ld, ld.lld and wild (x86-64) / ld.lld and wild (AArch64); observed: exit status
   and the bytes at the place (cases predicted to fit are linked together, one link per type and
   section kind; if a linker refuses the batch, and for the cases predicted not to fit, one link per
   case).  The references vote: both accept => wild must accept and the field
   must hold v; both reject => wild must reject; split => no verdict.  A row of the spec table that
   the agreeing references contradict is a spec bug (exit 2), never a violation.
4. Binding F: every record, plus seeded random values per type, is replayed into the real
   relocation table + RelocationKindInfo::write_to_buffer (linker-utils, through wildconf); verdicts
   only in (type, region) classes in which the references supported the spec in step 3.
"""
import random
import threading
from concurrent.futures import ThreadPoolExecutor

from vlib import asm, tlc
from vlib.common import ToolError, build_wild, log, run_wild, save_replay, scratch, sh, trim_samples
from vlib.conf import run_conf

PROP = "C12"
META = {
    "ready": True,
    "level": "model_checking",
    "technique": "TLA+ table of relocation range checks (psABI) checked by TLC for tightness; every enumerated (type, boundary value) replayed end-to-end through real links of wild, GNU ld and ld.lld (three-way vote) and in-process into the real relocation table/write_to_buffer",
    "level_text": "RelocRange.tla gives, for 10 x86-64 and 30 AArch64 static relocation types, the psABI range check and the field content; TLC checks on ~1200 (type, section kind, boundary value) cases (place in a loaded section, or for the absolute data types also in a non-alloc .debug_info section) that the range is exactly the set of values the field holds without loss and exports each case with the predicted accept/reject and field bytes; every case (quick: every x86-64 case and every second AArch64 case) is linked for real by wild and by GNU ld + ld.lld (x86-64) or ld.lld (AArch64) and wild's exit status and written bytes are compared under the three-way vote; the same cases plus 10^3-10^4 seeded random values per type are replayed into RelocationKindInfo::write_to_buffer.",
    "level_note": "GOT/TLS-relative types and RISC-V/LoongArch are not in the table; AArch64 has a single reference linker (ld.lld 14), so rows where lld and the psABI transcription differ are reported as no-verdict; values are boundary classes + random, not dense; misaligned values of scaled types are outside the check.",
    "engine": "tlc",
}

BROKEN = [("mc/RelocRange_broken_signed8.cfg", "TightInv"),
          ("mc/RelocRange_broken_halfopen.cfg", "UncheckedInv"),
          ("mc/RelocRange_broken_uncheckedprel.cfg", "NoTruncInv"),
          ("mc/RelocRange_broken_debug.cfg", "NoTruncInv")]
M64 = 1 << 64
PCREL_MARKS = ("_PC", "PREL", "PLT32", "TSTBR", "CONDBR", "JUMP26", "CALL26")
MARK = b"<MK:c12:KM>"


def bits_to_int(bits):
    x = 0
    for b in bits:
        x |= 1 << b
    return x


def signed(v):
    return v - M64 if v >> 63 else v


def fits_py(t, v):
    """Fits of RelocRange.tla on the exported row parameters (used for random values only; the
    boundary cases carry TLC's own verdict)."""
    s, n = signed(v), t["n"]
    return {"none": True, "unsigned": 0 <= s < (1 << n), "signed": -(1 << (n - 1)) <= s < (1 << (n - 1)),
            "either": -(1 << (n - 1)) <= s < (1 << n)}[t["sign"]]


def region(t, v):
    s = signed(v)
    n = t["n"] if t["sign"] != "none" else t["hi"]
    if n >= 64:
        return "any"
    if s < -(1 << (n - 1)):
        return "below-signed-min"
    if s < 0:
        return "negative"
    if s < (1 << (n - 1)):
        return "positive-signed"
    if s < (1 << n):
        return "unsigned-upper-half"
    return "above-unsigned-max"


def vkey(t, v, what):
    """Stable key of a disagreement: the relocation type and the class of the value.
    One root cause = one key: the unchecked (64-bit / _NC) types all share AllowedRange::no_check()."""
    name = t["name"] + ("@debug" if t.get("place") == "debug" else "")
    if what == "rejected" and t["sign"] == "none" and v == (1 << 63) - 1:
        return "unchecked-type:value-i64-max:rejected"
    if what == "accepted":
        return f"{name}:overflow-accepted"
    return f"{name}:{region(t, v)}:{what}"


def stored_ok(t, word, v, want_field):
    """Does the observed word hold v?  Exact field equality, except for the MOVN/MOVZ group types,
    where the decision MOVN vs MOVZ is part of the encoding: there RelocRange's NoTruncation is applied
    to the observed word (MovExt: imm16 inverted and ones above the field for MOVN)."""
    if word is None:
        return False
    if t["insn"] != "Movnz":
        return (word & t["mask_int"]) == want_field
    imm = (word >> 5) & 0xFFFF
    movn = not (word >> 30) & 1
    bits = (~imm & 0xFFFF) if movn else imm
    rebuilt = (bits << t["lo"]) | ((M64 - (1 << t["hi"])) % M64 if (movn and t["hi"] < 64) else 0)
    return rebuilt == (v >> t["lo"]) << t["lo"]


def field_of(t, out_hex):
    raw = bytes.fromhex(out_hex)[:8]
    return int.from_bytes(raw, "little") & t["mask_int"]


def expected_field(t, v):
    """Field content for value v by the spec's rule (Stored + the InsnFields layout), for random
    values; boundary cases carry TLC's own `word`."""
    if not t["insn"]:
        return v & t["mask_int"]
    stored = (v >> t["lo"]) & ((1 << (t["hi"] - t["lo"])) - 1)
    neg = bool(v >> 63)
    segs = t["segs"]
    if t["insn"] == "Movnz":
        f = ((~stored if neg else stored) & 0xFFFF) << 5
        return f | (0 if neg else 1 << 30)
    out = 0
    for vlo, w, ilo in segs:
        out |= ((stored >> vlo) & ((1 << w) - 1)) << ilo
    return out


# AArch64 field layouts needed by expected_field for random values: taken from the TLC records of the
# boundary cases (mask) - the segments themselves are exercised by C13; here a single contiguous or
# split field is reconstructed from the mask for the kinds used by the table.
SEGS = {"Movkz": [(0, 16, 5)], "Ldr": [(0, 19, 5)], "Adr": [(0, 2, 29), (2, 19, 5)], "TstBr": [(0, 14, 5)],
        "Bcond": [(0, 19, 5)], "JumpCall": [(0, 26, 0)], "Movnz": [(0, 16, 5)]}


def model(cov):
    r = tlc.run_tlc("MCRelocRange", "mc/RelocRange_quick.cfg", workers=4, timeout=600, coverage=False)
    if not r.ok:
        raise ToolError(f"RelocRange model check failed: {r.violated} {r.error_text}\n{r.trace_text[:2000]}{r.out[-1500:]}")
    if len(r.records) != r.distinct:
        raise ToolError(f"{r.distinct} states but {len(r.records)} REPLAY records")
    cov["states"], cov["transitions"] = r.distinct, r.generated
    cov["tlc_runs"] = [{"cfg": "mc/RelocRange_quick.cfg", **r.summary()}]
    # anti-vacuity: the broken readings of the table (defects wild once had, or that a change could
    # introduce) must each be rejected
    def broken(c):
        cfg, inv = c
        return cfg, inv, tlc.run_tlc("MCRelocRange", cfg, workers=1, timeout=300, coverage=False)
    with ThreadPoolExecutor(max_workers=4) as ex:
        for cfg, inv, b in ex.map(broken, BROKEN):
            if b.ok or b.violated != inv:
                raise ToolError(f"broken variant {cfg} was not rejected on {inv} (got {b.violated}): the spec is vacuous there")
            cov["tlc_runs"].append({"cfg": cfg, "expected_violation": b.violated})
    recs = []
    for x in r.records:
        x["v_int"] = bits_to_int(x["v"])
        x["word_int"] = bits_to_int(x["word"])
        x["mask_int"] = bits_to_int(x["mask"])
        x["op_int"] = bits_to_int(x["op"])
        x["pcrel"] = any(m in x["name"] for m in PCREL_MARKS)
        x["segs"] = SEGS.get(x["insn"], [])
        recs.append(x)
    recs.sort(key=lambda x: (x["arch"], x["rtype"], x["v_int"]))
    return recs


_obj_cache = {}
_obj_lock = threading.Lock()


def marker(gid, k):
    return f"<MK{gid:04x}{k:04x}>"          # 12 bytes, 8-aligned: the place follows immediately


def gen_group(d, gid, group):
    """One object holding a place per case of `group` (cases of one relocation type and one kind of
    section), and the --defsym arguments.  Absolute cases take their value from `--defsym`, so their
    object depends only on (type, section kind, number of places) and is assembled once."""
    rec0 = group[0]
    arch, debug = rec0["arch"], rec0["place"] == "debug"
    progbits = "@progbits" if arch == "x86_64" else "%progbits"
    section = f'.section .debug_info,"",{progbits}' if debug else f'.section .text.c12,"ax",{progbits}'
    exit_code = asm.EXIT_X86 if arch == "x86_64" else "    mov x8, #93\n    mov x0, #0\n    svc #0\n"
    body, defsym = [], []
    for k, rec in enumerate(group):
        v = rec["v_int"]
        if rec["pcrel"]:
            target = f"place{k} + {v:#x}" if v < (1 << 63) else f"place{k} - {M64 - v:#x}"
        else:
            target = f"c12sym{k}"
            defsym += ["--defsym", f"c12sym{k}={v:#x}"]
            body.append(f"    .globl c12sym{k}")
        init = f".word {rec['op_int']:#x}\n    .word 0" if rec["insn"] else ".skip 8"
        # markers are numbered by position for the cached (absolute) objects, by group otherwise
        mk = marker(0 if not rec["pcrel"] else gid, k)
        body.append(f'    .balign 8\n    .ascii "{mk}"\nplace{k}:\n    .reloc ., {rec["name"]}, {target}\n    {init}')
    src = f"    .globl _start\n    .text\n_start:\n{exit_code}\n    {section}\n" + "\n".join(body) + "\n"
    key = None
    if not rec0["pcrel"]:
        key = (str(d), arch, rec0["name"], rec0["place"], len(group))
        with _obj_lock:
            if key in _obj_cache:
                return _obj_cache[key], defsym, src
    p = d / f"g{gid}.s"
    p.write_text(src)
    o = d / f"g{gid}.o"
    cmd = ["as", "--64", "-o", o, p] if arch == "x86_64" else ["clang", "--target=aarch64-linux-gnu", "-c", "-o", o, p]
    r = sh(cmd, timeout=300)
    if r.rc != 0 or r.timed_out:
        raise ToolError(f"assembling {rec0['name']} ({rec0['place']}, {len(group)} places) failed: {r.err[-500:]}")
    if key:
        with _obj_lock:
            _obj_cache[key] = o
    return o, defsym, src


def link_group(d, gid, group, wild):
    """Link one group with wild and the reference linkers.  Returns {linker: {"ok", "err", "words"}},
    "args", "src"."""
    rec0 = group[0]
    o, defsym, src = gen_group(d, gid, group)
    emu = [] if rec0["arch"] == "x86_64" else ["-m", "aarch64linux"]
    base = emu + [str(o), "--no-gc-sections"] + defsym
    res = {}
    # tiny links: a 16-thread pool per process only costs start-up time
    linkers = [("wild", None), ("lld", ["ld.lld", "--threads=1"])] + ([("ld", ["ld"])] if rec0["arch"] == "x86_64" else [])
    for who, cmd in linkers:
        out = d / f"g{gid}.{who}"
        args = base + ["-o", str(out)] + (["--threads=2"] if cmd is None else [])
        r = run_wild(args, timeout=120, wild=wild) if cmd is None else sh(cmd + args, timeout=120)
        if r.timed_out or (cmd is not None and r.rc < 0):
            # a tiny link that does not finish in 2 minutes (or a crashing reference) says nothing about
            # C12; it must not be mistaken for "rejected"
            raise ToolError(f"{who} timed out / crashed on {rec0['name']} ({rec0['place']}) (rc={r.rc})")
        ok = r.rc == 0
        words = [None] * len(group)
        if ok and out.exists():
            data = out.read_bytes()
            for k, rec in enumerate(group):
                mk = marker(0 if not rec["pcrel"] else gid, k).encode()
                at = data.find(mk)
                if at >= 0:
                    words[k] = int.from_bytes(data[at + 12:at + 20], "little")
        res[who] = {"ok": ok, "rc": r.rc, "err": r.err[-400:], "words": words}
        if out.exists():
            out.unlink()
    res["args"] = [a if not a.startswith(str(d)) else a.split("/")[-1] for a in base]
    res["src"] = src
    return res


def run_cases(d, recs, todo, wild, workers):
    """End-to-end results per case index: cases the spec predicts to fit are linked together, one
    link per (type, section kind) - a value that does not fit aborts a link, so if any linker
    refuses the batch its cases are linked one by one, like the cases predicted not to fit."""
    groups = {}
    singles = []
    for i in todo:
        r = recs[i]
        if r["fits"]:
            groups.setdefault((r["arch"], r["name"], r["place"]), []).append(i)
        else:
            singles.append([i])
    out = {}

    def job(arg):
        gid, idxs = arg
        return idxs, link_group(d, gid, [recs[i] for i in idxs], wild)

    def collect(results, retry):
        for idxs, res in results:
            linkers = [k for k in ("wild", "ld", "lld") if k in res]
            if len(idxs) > 1 and not all(res[k]["ok"] for k in linkers):
                retry += [[i] for i in idxs]
                continue
            for k, i in enumerate(idxs):
                one = {w: {"ok": res[w]["ok"], "err": res[w]["err"], "word": res[w]["words"][k], "timed_out": False}
                       for w in linkers}
                one["args"], one["src"], one["batch"] = res["args"], res["src"], len(idxs)
                out[i] = one

    retry = []
    with ThreadPoolExecutor(max_workers=workers) as ex:
        batch = list(enumerate(list(groups.values()) + singles))
        collect(ex.map(job, batch), retry)
        collect(ex.map(job, [(len(batch) + n, g) for n, g in enumerate(retry)]), [])
    return out, len(batch) + len(retry)


def run(ctx):
    cov = {"samples": []}
    rng = random.Random(ctx.seed)
    recs = model(cov)
    alloc_recs = [x for x in recs if x["place"] == "alloc"]
    types = {}
    for x in alloc_recs:
        types.setdefault((x["arch"], x["rtype"]), x)
    log(f"C12: {len(recs)} TLC cases ({len(recs) - len(alloc_recs)} in non-alloc debug sections) over "
        f"{len(types)} relocation types")
    wild = build_wild()

    pending = {}   # key -> (count, text, meta, src files)

    def note(key, text, meta, files=None):
        if key in pending:
            pending[key][0] += 1
        else:
            pending[key] = [1, text, meta, files or {}]

    # ---- R: end-to-end links, three-way vote
    support = {}       # (name, region) -> set of "ok" / "spec-vs-refs"
    e2e = []
    with scratch("c12") as d:
        # quick tier: every x86-64 case (two reference linkers), every case in a non-alloc debug
        # section, and every second AArch64 case in a loaded section (the half is chosen by the seed;
        # thorough links all of them)
        todo = [i for i in range(len(recs))
                if not ctx.quick or recs[i]["arch"] == "x86_64" or recs[i]["place"] == "debug"
                or (i + ctx.seed) % 2 == 0]
        by_case, n_groups = run_cases(d, recs, todo, wild, 8)
        results = [(i, by_case[i]) for i in todo]
        spec_bugs = []
        lld_disagree = []
        for i, res in results:
            rec = recs[i]
            name, v, fits = rec["name"], rec["v_int"], rec["fits"]
            reg = region(rec, v)
            refs = [res[k] for k in ("ld", "lld") if k in res]
            oks = {r["ok"] for r in refs}
            vote = "split" if len(oks) > 1 else ("accept" if True in oks else "reject")
            want_field = rec["word_int"] & rec["mask_int"]
            # the references themselves must store the value when they accept (sanity of the observer)
            for k in ("ld", "lld"):
                if k == "lld" and rec["place"] == "debug" and name in ("R_X86_64_64", "R_AARCH64_ABS64"):
                    # lld resolves its "symbolic" relocation type in .debug_* against a symbol without
                    # an output section (our absolute symbol) to the tombstone 0: its acceptance
                    # counts, its field does not
                    continue
                if k in res and res[k]["ok"] and fits:
                    w = res[k]["word"]
                    if not stored_ok(rec, w, v, want_field):
                        raise ToolError(f"observer/oracle problem: {k} accepted {name} v={v:#x} but the field is "
                                        f"{w} (expected {want_field:#x}); args {res['args']}")
            e2e.append({"name": name, "place": rec["place"], "v": f"{v:#x}", "fits": fits, "vote": vote,
                        "wild_ok": res["wild"]["ok"]})
            alloc = rec["place"] == "alloc"      # in-process verdicts lean on the loaded-section votes
            if vote == "split":
                if alloc:
                    support.setdefault((name, reg), set()).add("split")
                continue
            if (vote == "accept") != fits:
                if len(refs) == 2:
                    spec_bugs.append((name, rec["place"], f"{v:#x}", fits, vote, res["ld"]["err"][-150:], res["lld"]["err"][-150:]))
                else:
                    lld_disagree.append({"name": name, "place": rec["place"], "v": f"{v:#x}", "spec_fits": fits,
                                         "lld": vote, "lld_err": res["lld"]["err"][-120:]})
                    if alloc:
                        support.setdefault((name, reg), set()).add("spec-vs-lld")
                continue
            if alloc:
                support.setdefault((name, reg), set()).add("ok")
            if "PLT32" in name:
                # L+A-P: the linker may route the reference through a PLT entry it chooses (wild does,
                # for a section-symbol target), so the generator does not control the value end to end;
                # these types are judged in-process only
                continue
            w = res["wild"]
            where = "a loaded section" if alloc else "a non-alloc .debug_info section"
            files = {"case.s": res["src"]}
            meta = {"type": name, "section": rec["place"], "value": f"{v:#x}", "signed_value": signed(v), "spec_fits": fits, "references": vote,
                    "link_args": res["args"], "wild": w, "refs": {k: res[k] for k in ("ld", "lld") if k in res}}
            if fits and not w["ok"]:
                kind = "rejected" if ("outside of bounds" in w["err"] or "out of range" in w["err"]) else "failed"
                note(vkey(rec, v, kind),
                     f"{name} in {where} value {signed(v)} ({v:#x}) fits ({rec['sign']} {rec['n']}-bit) and is accepted by "
                     f"{' and '.join(k for k in ('ld', 'lld') if k in res)}, but wild fails: {w['err'].strip()[-160:]}",
                     meta, files)
            elif not fits and w["ok"]:
                note(vkey(rec, v, "accepted"),
                     f"{name} in {where} value {signed(v)} ({v:#x}) does not fit and is rejected by the references, but wild "
                     f"links it (field {w['word']})", meta, files)
            elif fits and not stored_ok(rec, w["word"], v, want_field):
                note(vkey(rec, v, "wrong-field"),
                     f"{name} in {where} value {signed(v)}: wild wrote {w['word']} & mask != {want_field:#x}", meta, files)
        if spec_bugs:
            raise ToolError("GNU ld and lld agree with each other and contradict RelocRange.tla (spec bug): "
                            + repr(spec_bugs[:6]))
        for key in sorted(pending):
            cnt, text, meta, files = pending[key]
            ctx.verdict.report(key, f"[{cnt} case(s)] {text}",
                               lambda key=key, meta=meta, files=files: save_replay(
                                   PROP, key.replace(":", "_"), files=files, meta=meta))
        pending.clear()
    cov["e2e_cases"] = len(todo)
    cov["e2e_cases_in_debug_sections"] = sum(1 for i in todo if recs[i]["place"] == "debug")
    cov["e2e_link_groups"] = n_groups
    cov["e2e_votes"] = {k: sum(1 for x in e2e if x["vote"] == k) for k in ("accept", "reject", "split")}
    cov["aarch64_spec_vs_lld_no_verdict"] = lld_disagree[:12]
    cov["aarch64_spec_vs_lld_no_verdict_count"] = len(lld_disagree)
    cov["samples"] += [e2e[0], e2e[len(e2e) // 2], e2e[-1]]

    # ---- F: the same cases + random values into the real table / write_to_buffer
    reqs, meta = [], []
    for rec in alloc_recs:       # the real function has no notion of where the place is
        reqs.append({"arch": rec["arch"], "r_type": rec["rtype"], "value": rec["v_int"]})
        meta.append((rec, rec["v_int"], rec["fits"], rec["word_int"] & rec["mask_int"], "tlc"))
    n_rand = 1000 if ctx.quick else 10000
    for (arch, rtype), t in sorted(types.items()):
        n = t["n"] if t["sign"] != "none" else min(t["hi"], 63)
        for _ in range(n_rand):
            mode = rng.randrange(4)
            if mode == 0:
                s = rng.randrange(-(1 << min(n + 1, 63)), 1 << min(n + 1, 63))
            elif mode == 1:
                s = rng.choice((-1, 1)) * (1 << rng.randrange(0, 63)) + rng.randrange(-3, 4)
            elif mode == 2:
                s = rng.randrange(-(1 << 63), 1 << 63)
            else:
                s = rng.choice((-(1 << (n - 1)), 1 << (n - 1), 1 << n, 0)) + rng.randrange(-70000, 70000)
            s = max(-(1 << 63), min((1 << 63) - 1, s))
            v = (s % M64) & ~(t["align"] - 1)
            reqs.append({"arch": arch, "r_type": rtype, "value": v})
            meta.append((t, v, fits_py(t, v), expected_field(t, v) & t["mask_int"], "random"))
    res = run_conf("reloc-range", reqs, timeout=900)
    f_checked = f_skipped = 0
    for q, (t, v, fits, want_field, src), got in zip(reqs, meta, res):
        name, reg = t["name"], region(t, v)
        if "panic" in got:
            note(vkey(t, v, "panic"), f"write_to_buffer panicked for {name} v={v:#x}: {got['panic']}", {"request": q})
            continue
        if not got.get("known"):
            raise ToolError(f"{name} ({q}) is not in wild's relocation table: drop it from RelocRange.tla or handle it")
        sup = support.get((name, reg), set())
        if sup != {"ok"}:
            f_skipped += 1      # no reference support for this class in this run: no verdict
            continue
        f_checked += 1
        m = {"request": q, "got": got, "spec_fits": fits, "expected_field": want_field, "source": src,
             "how": "echo '<request>' | .cache/target-conf/release/wildconf reloc-range"}
        if fits and not got["ok"]:
            note(vkey(t, v, "rejected"), f"write_to_buffer({name}, {signed(v)}) fails: {got['err']}", m)
        elif not fits and got["ok"]:
            note(vkey(t, v, "accepted"), f"write_to_buffer({name}, {signed(v)}) accepts a value that does not fit", m)
        elif fits and not stored_ok(t, int.from_bytes(bytes.fromhex(got["out"])[:8], "little"), v, want_field):
            note(vkey(t, v, "wrong-field"),
                 f"write_to_buffer({name}, {signed(v)}) wrote field {field_of(t, got['out']):#x}, expected {want_field:#x}", m)
    for key in sorted(pending):
        cnt, text, m, files = pending[key]
        ctx.verdict.report(key, f"[in-process, {cnt} case(s)] {text}",
                           lambda key=key, m=m: save_replay(PROP, "F_" + key.replace(":", "_"), meta=m))
    cov["traces_validated_against_impl"] = len(recs)
    cov["inprocess_cases_checked"] = f_checked
    cov["inprocess_cases_without_reference_support"] = f_skipped
    cov["relocation_types"] = len(types)
    cov["samples"].append({"inprocess": reqs[len(alloc_recs) + 5], "result": res[len(alloc_recs) + 5]})
    cov["samples"] = trim_samples(cov["samples"], 5, 700)
    return {
        "level": "model_checking",
        "coverage": cov,
        "assumptions": [
            "RelocRange.tla transcribes the psABI checks; on x86-64 every row is pinned against GNU ld 2.40 and ld.lld 14 in this run (a contradiction is exit 2), on AArch64 against ld.lld 14 only",
            "values: boundary classes enumerated by TLC end-to-end, seeded random values in-process only, judged only in (type, region) classes where the references supported the spec",
            "misaligned values of scaled types and GOT/TLS/RISC-V/LoongArch types are outside this check",
        ],
    }
