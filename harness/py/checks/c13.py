"""C13 - Instruction immediate fields are encoded exactly and locally.

1. Spec: specs/InsnFields.tla - table of the immediate-field layouts (segments value-bits ->
   instruction-bits, +0x800 / +0x8000 pre-additions, the MOVN/MOVZ rule) of every AArch64, RISC-V
   and LoongArch instruction kind that linker-utils writes relocation values into, with Local /
   Oblivious / RoundTrip stated over Write = clear-then-place.
2. TLC (MCInsnFields): checks the table's consistency and the three properties for every encoding x
   boundary values x 7 initial words, exports the table (mask, segments) and one exact vector per
   case. Three broken writers - OR without clearing the field, the MOVN/MOVZ writer that rewrites
   the whole opcode, the CALL36 carry into bit 25: defects wild once had - must each be rejected
   (anti-vacuity); the same behaviour in the real code is reported as <arch>:<use>:oblivious/local.
3. Binding (mode F, public linker-utils API through harness/wildconf `insn`):
   - every TLC vector is replayed into the real write_to_value: exact equality of the word;
   - per encoding, a sweep of the real write_to_value/read_value against the TLC-exported mask and
     segments: all in-range values when there are <= 2^16 (2^21 thorough) of them, else seeded
     random ones, each over 7 fixed + 1 random initial word: local / oblivious / encode / read_value.
4. End-to-end: an AArch64 object whose relocated instructions are patched to carry non-zero
   immediates is linked by wild and by ld.lld; the fields of the output instructions are decoded
   with the TLC-exported layouts and compared with the addresses in the output.
"""
import random
import struct

from vlib import asm, elf, tlc
from vlib.common import ToolError, build_wild, log, run_wild, save_replay, scratch, trim_samples
from vlib.conf import run_conf

PROP = "C13"
META = {
    "ready": True,
    "level": "exploration",
    "technique": "TLA+ reference table of instruction immediate-field layouts checked by TLC (consistency, Local/Oblivious/RoundTrip) whose exported vectors and masks are replayed into the real write_to_value/read_value in-process; plus an end-to-end AArch64 link of an object with pre-filled immediates",
    "level_text": "For 25 encodings (10 AArch64, 9 RISC-V, 6 LoongArch uses) TLC checks the transcribed field table and exports ~10^4 exact vectors; each is replayed into the real write_to_value (exact word equality), and every encoding is swept against the exported mask/segments over all in-range values (fields <= 16 bits; <= 21 bits in thorough) or 10^5-10^6 seeded random values x 8 initial words for locality, obliviousness to the previous field content, exact ISA placement and read_value inversion; one AArch64 link with pre-filled immediates is decoded end-to-end.",
    "level_note": "Encode/decode fidelity of pure functions: TLA+ contributes the reference table and the enumeration, TLC does not explore the 2^32 initial words (sampled: 7 patterns + random). Field layouts are my transcription of the ISA manuals (cross-checked end-to-end only for AArch64 against ld.lld). LoongArch64Instruction::Call30 and MachOLow12 are not covered. read_value is compared only on the value bits the field covers (its sign-extension convention is not judged).",
    "engine": "tlc",
}

SUBS = ("local", "oblivious", "encode", "read_value")
BROKEN = [("mc/InsnFields_broken_or.cfg", "ObliviousInv"),
          ("mc/InsnFields_broken_movnz.cfg", "LocalInv"),
          ("mc/InsnFields_broken_call36.cfg", "LocalInv")]


def bits_to_int(bits):
    x = 0
    for b in bits:
        x |= 1 << b
    return x


def model(ctx, cov):
    r = tlc.run_tlc("MCInsnFields", "mc/InsnFields_quick.cfg", workers=4, timeout=900, coverage=False)
    if not r.ok:
        raise ToolError(f"InsnFields model check failed: {r.violated} {r.error_text}\n{r.trace_text[:2000]}{r.out[-1500:]}")
    if len(r.records) != r.distinct:
        raise ToolError(f"{r.distinct} states but {len(r.records)} REPLAY records")
    r.records = [x for x in r.records if x["kind"] != "pre"]
    cov["states"], cov["transitions"] = r.distinct, r.generated
    cov["tlc_runs"] = [{"cfg": "mc/InsnFields_quick.cfg", **r.summary()}]
    # anti-vacuity: the broken writers (defects wild once had) must each be rejected
    for cfg, inv in BROKEN:
        b = tlc.run_tlc("MCInsnFields", cfg, workers=2, timeout=600, coverage=False)
        if b.ok or b.violated != inv:
            raise ToolError(f"broken writer {cfg} was not rejected on {inv} (got {b.violated}): vacuous")
        cov["tlc_runs"].append({"cfg": cfg, "expected_violation": b.violated})
    tables = {t["ei"]: t for t in r.records if t["kind"] == "table"}
    vectors = [v for v in r.records if v["kind"] == "vector"]
    for t in tables.values():
        t["mask_int"] = bits_to_int(t["mask"])
        t["op_int"] = bits_to_int(t["op"])
        t["segs_list"] = sorted([s["vlo"], s["w"], s["ilo"], s["add"]] for s in t["segs"])
        t["key"] = f"{t['arch']}:{t['use']}"
    return tables, vectors


def place(t, v, neg):
    """The spec's placement, recomputed from the exported segments (used only to classify)."""
    vv = (~v) & (2**64 - 1) if (t["movnz"] and neg) else v
    out = 0
    for vlo, w, ilo, add in t["segs_list"]:
        out |= ((((vv + add) & (2**64 - 1)) >> vlo) & ((1 << w) - 1)) << ilo
    if t["movnz"] and not neg:
        out |= 1 << 30
    return out


def e2e_aarch64(ctx, tables, cov, report):
    """Object with non-zero immediates at relocated AArch64 instructions, linked by wild and lld."""
    by_use = {t["use"]: t for t in tables.values() if t["arch"] == "aarch64"}
    src = """
    .text
    .globl _start
    .type _start, %function
_start:
    adrp x0, target
    add x0, x0, :lo12:target
    ldr x1, [x0, :lo12:target]
    bl callee
    b.eq callee
    tbz w0, #3, callee
    ldr x2, lit
    movz x3, #:abs_g1:absval
    movk x3, #:abs_g0_nc:absval
    movz x4, #:abs_g0_s:negval
    ret
    .section .text.callee,"ax",%progbits
    .globl callee
    .type callee, %function
callee:
    ret
    .balign 8
    .globl lit
lit: .quad 0x1122334455667788
    .data
    .balign 4096
    .skip 0x128
    .globl target
target: .quad 7
"""
    # (instruction index, encoding use, how the expected field value derives from addresses)
    sites = [(0, "Adr"), (1, "Add"), (2, "LdSt"), (3, "JumpCall"), (4, "Bcond"), (5, "TstBr"), (6, "Ldr"),
             (7, "Movkz"), (8, "Movkz"), (9, "Movnz")]
    absval, negval = 0x1234ABCD, -0x1235
    with scratch("c13e2e") as d:
        obj = asm.write_asm(d, "a", src, arch="aarch64")
        e = elf.Elf(obj)
        text = e.section(".text")
        rela = e.section(".rela.text")
        relocated = {r["offset"] for r in e.relas(rela)} if rela else set()
        missing = [idx for idx, _ in sites if 4 * idx not in relocated]
        if missing:
            raise ToolError(f"e2e generator: instructions {missing} carry no relocation in the assembled object")
        data = bytearray(obj.read_bytes())
        off = text["offset"]
        rng = random.Random(ctx.seed)
        variants = []
        for label in ("ones", "random"):
            patched = bytearray(data)
            for idx, use in sites:
                t = by_use[use]
                m = t["mask_int"] & ~(1 << 30)   # keep the opcode bit of MOVZ as assembled
                (w,) = struct.unpack_from("<I", patched, off + 4 * idx)
                fill = m if label == "ones" else (rng.getrandbits(32) & m)
                struct.pack_into("<I", patched, off + 4 * idx, w | fill)
            p = d / f"a_{label}.o"
            p.write_bytes(patched)
            variants.append((label, p))
        variants.append(("as-assembled", obj))
        results = []
        for label, p in variants:
            common = ["--defsym", f"absval={absval:#x}", "--defsym", f"negval={negval & (2**64 - 1):#x}"]
            out_w, out_l = d / f"w_{label}", d / f"l_{label}"
            rw = run_wild(["-m", "aarch64linux", str(p), "-o", str(out_w)] + common, timeout=60)
            rl = asm.lld(["-m", "aarch64linux", "--no-relax", str(p), "-o", str(out_l)] + common, timeout=60)
            if rl.rc != 0:
                raise ToolError(f"ld.lld could not link the e2e object ({label}): {rl.err[-500:]}")
            if rw.rc != 0:
                raise ToolError(f"wild failed on the e2e AArch64 object ({label}): {rw}")
            for who, outp in (("wild", out_w), ("lld", out_l)):
                o = elf.Elf(outp)
                syms = {s["name"]: s["value"] for s in o.symtab if s["name"]}
                start = syms["_start"]
                words = [o.u32_at(start + 4 * i) for i in range(11)]
                for idx, use in sites:
                    t = by_use[use]
                    pc = start + 4 * idx
                    want_v, want_neg = {
                        "Adr": (((syms["target"] >> 12) - (pc >> 12)) & 0x1FFFFF, False),
                        "Add": (syms["target"] & 0xFFF, False),
                        "LdSt": ((syms["target"] & 0xFFF) >> 3, False),
                        "JumpCall": (((syms["callee"] - pc) >> 2) & 0x3FFFFFF, False),
                        "Bcond": (((syms["callee"] - pc) >> 2) & 0x7FFFF, False),
                        "TstBr": (((syms["callee"] - pc) >> 2) & 0x3FFF, False),
                        "Ldr": (((syms["lit"] - pc) >> 2) & 0x7FFFF, False) if "lit" in syms else (None, False),
                        "Movkz": ((absval >> 16) & 0xFFFF if idx == 7 else absval & 0xFFFF, False),
                        "Movnz": (negval & 0xFFFF, True),
                    }[use]
                    if want_v is None:
                        continue
                    got = words[idx] & t["mask_int"]
                    want = place(t, want_v, want_neg) & t["mask_int"]
                    results.append({"variant": label, "linker": who, "site": idx, "use": use,
                                    "word": words[idx], "field_ok": got == want})
                    if got != want:
                        if who == "lld":
                            # ld.lld is only a sanity oracle for the decoder and the address arithmetic,
                            # on the object as assembled (lld 14 itself ORs into some AArch64 fields,
                            # so on the patched variants its output is recorded, not used as a reference)
                            if label == "as-assembled":
                                raise ToolError(f"decoder/oracle disagreement on lld output: {results[-1]} want={want:#x}")
                            continue
                        sub = "oblivious" if label != "as-assembled" else "encode"
                        report(f"aarch64:{use}:{sub}",
                               f"end-to-end: wild output instruction {idx} ({use}) = {words[idx]:#010x}: field "
                               f"{got:#x} != {want:#x} expected from the output addresses (object variant "
                               f"'{label}': initial immediates non-zero)",
                               {"variant": label, "site": idx, "word": words[idx], "expected_field": want,
                                "args": ["-m", "aarch64linux", p.name, "-o", "out"] + common},
                               src_dir=d)
        cov["e2e_sites_decoded"] = len(results)
        cov["e2e_field_mismatches_wild"] = sum(1 for r in results if r["linker"] == "wild" and not r["field_ok"])
        cov["e2e_field_mismatches_lld14_on_patched_objects"] = sum(
            1 for r in results if r["linker"] == "lld" and not r["field_ok"])
        return results


def run(ctx):
    cov = {"samples": []}
    tables, vectors = model(ctx, cov)
    log(f"C13: {len(tables)} encodings, {len(vectors)} TLC vectors")

    def report(key, text, meta, src_dir=None):
        ctx.verdict.report(key, text, lambda: save_replay(PROP, key.replace(":", "_"), src_dir=src_dir, meta=meta))

    # ---- vectors: exact equality with the spec's Write
    reqs = []
    for v in vectors:
        t = tables[v["ei"]]
        reqs.append({"op": "vector", "arch": t["arch"], "insn": t["insn"], "bytes": t["bytes"],
                     "word": bits_to_int(v["w"]), "value": bits_to_int(v["v"]), "negative": v["neg"]})
    res = run_conf("insn", reqs, timeout=600)
    nontrivial = set()
    mism = {}
    for v, q, got in zip(vectors, reqs, res):
        t = tables[v["ei"]]
        m = t["mask_int"]
        want = bits_to_int(v["out"])
        if q["word"] & m and q["value"]:
            nontrivial.add((t["key"], q["word"], q["value"], q["negative"]))
        if "panic" in got:
            report(f"{t['key']}:panic", f"write_to_value panicked: {q}: {got['panic']}", {"request": q, "got": got})
            continue
        out = got["out"]
        if out == want:
            continue
        wm = (1 << (8 * t["bytes"])) - 1
        if (out ^ q["word"]) & ~m & wm:
            sub = "local"
        elif (out & m) == ((q["word"] & m) | (want & m)) and (q["word"] & m):
            sub = "oblivious"     # field = old content OR new content
        elif (q["word"] & m) == 0:
            sub = "encode"
        else:
            sub = "oblivious"
        key = f"{t['key']}:{sub}"
        mism.setdefault(key, []).append((q, out, want))
    for key, lst in sorted(mism.items()):
        q, out, want = lst[0]
        report(key, f"{len(lst)} TLC vectors differ, e.g. write_to_value({q['insn']}, value={q['value']:#x}, "
                    f"negative={q['negative']}) over word {q['word']:#x} gives {out:#x}, spec {want:#x}",
               {"request": q, "got": out, "expected": want, "count": len(lst),
                "how": "echo '<request>' | .cache/target-conf/release/wildconf insn"})
    cov["samples"].append({"tlc_vector": vectors[len(vectors) // 2], "request": reqs[len(vectors) // 2],
                           "real": res[len(vectors) // 2]})

    # ---- sweeps against the exported masks
    limit = 1 << 16 if ctx.quick else 1 << 21
    n_random = 100_000 if ctx.quick else 1_000_000
    reqs = []
    order = sorted(tables)
    for ei in order:
        t = tables[ei]
        m, op = t["mask_int"], t["op_int"]
        wm = (1 << (8 * t["bytes"])) - 1
        init = [0, wm, 0xAAAAAAAAAAAAAAAA & wm, 0x5555555555555555 & wm, op, op | m, op | (m & 0x5555555555555555)]
        reqs.append({"op": "sweep", "arch": t["arch"], "insn": t["insn"], "bytes": t["bytes"], "mask": m,
                     "segs": t["segs_list"], "movnz": t["movnz"], "vmode": t["vmode"], "width": t["width"],
                     "valign": t["valign"], "init_words": init, "n_random": n_random, "exhaustive_limit": limit,
                     "seed": ctx.seed * 7919 + ei, "read_check": True})
    res = run_conf("insn", reqs, timeout=1500)
    calls = values = 0
    sweeps = []
    for ei, q, got in zip(order, reqs, res):
        t = tables[ei]
        if "panic" in got:
            report(f"{t['key']}:panic", f"sweep panicked: {got['panic']}", {"request": q, "got": got})
            continue
        calls += got["calls"]
        values += got["values"]
        sweeps.append({"enc": t["key"], "values": got["values"], "exhaustive": got["exhaustive"], "fail": got["fail"]})
        for sub in SUBS:
            if got["fail"][sub]:
                ex = got["examples"][sub][0]
                report(f"{t['key']}:{sub}",
                       f"{got['fail'][sub]} of {got['calls'] // 2} (value, initial word) cases fail '{sub}', e.g. "
                       f"value={ex['value']:#x} negative={ex['negative']} over word {ex['word']:#x} -> {ex['out']:#x}"
                       f" (cleared first -> {ex['out_cleared_first']:#x}; spec {ex['expected']:#x}) {ex['detail']}",
                       {"request": {k: v for k, v in q.items()}, "examples": got["examples"][sub],
                        "how": "echo '<request>' | .cache/target-conf/release/wildconf insn"})
    cov["sweeps"] = sweeps
    cov["samples"].append({"sweep": sweeps[0]})

    # ---- end-to-end AArch64
    build_wild()
    e2e = e2e_aarch64(ctx, tables, cov, report)
    cov["samples"].append({"e2e": e2e[:3]})

    cov["evaluations"] = len(vectors) + calls + len(e2e)
    cov["distinct_nontrivial"] = len(nontrivial)
    cov["rule"] = ("TLC enumerates per encoding boundary values x 7 initial words (vectors); a vector is non-trivial "
                   "when both the initial field content and the value are non-zero (counted as distinct "
                   "(encoding, word, value, negative)); sweeps add all/random in-range values x 8 initial words")
    cov["traces_validated_against_impl"] = len(vectors)
    cov["sweep_values"] = values
    cov["sweep_calls"] = calls
    cov["encodings"] = len(tables)
    cov["not_covered"] = ["loongarch64:Call30", "aarch64:MachOLow12"]
    cov["samples"] = trim_samples(cov["samples"], 4, 900)
    return {
        "level": "exploration",
        "coverage": cov,
        "assumptions": [
            "field layouts in InsnFields.tla are a correct transcription of the ISA manuals (AArch64 ones cross-checked end-to-end against ld.lld)",
            "initial words are sampled (7 patterns incl. a real opcode with zero / all-ones / alternating field + 1 random per value), not all 2^32",
            "in-range values: field-width values for AArch64/LoongArch; aligned signed values of the relocation's width for RISC-V (C.LUI: |v| < 2^16)",
            "read_value is compared only on the value bits covered by the field",
        ],
    }
