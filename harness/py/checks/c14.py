"""C14 - x86-64 GOT relaxations preserve instruction semantics.

0. TLS: MCX86Tls enumerates GD / LD / IE (mov, add; 7 registers) / TLSDESC accesses x 4 variables x
   {exe, static PIE}; TlsSafe (sign-extended 32-bit offset suffices iff the offset fits) is model-checked;
   each access sequence is executed as linked by wild and must yield the address that the un-relaxable
   local-exec sequence yields (a dummy __tls_get_addr returns 0xdead).
1. TLC (specs/X86Relax.tla, MCX86Relax.tla, Word64.tla): the case table
   form (mov/add/sub/and/or/xor/cmp/test/adc/sbb x 32/64 bit, call*, jmp*) x relocation style
   (GOTPCRELX / plain GOTPCREL) x register x symbol kind (absolute / defined in the image / undefined
   weak) x output kind (position-dependent executable / static PIE) x value class.  For every case the
   specified Effect (destination register after the ORIGINAL instruction with the GOT slot holding
   the symbol value) is exported; SafeTable (the psABI side conditions imply After = Effect) is
   model-checked on every case; the transcription of wild's new_relaxation is exported as a
   prediction and must be refuted by TLC somewhere (anti-vacuity config X86Relax_wildmodel).
2. Replay by native execution: freestanding programs (vlib/x86prog.py) execute every case's
   instruction as linked by the real wild, store register and flags, execute the same operation
   with the symbol value in a register (nothing to relax: the CPU is the oracle) and write all
   results out.  Expected register for absolute symbols = the spec's Effect; for address symbols the
   CPU reference.  objdump of wild's output records which rewrite wild applied to each instruction.
   The same program linked by GNU ld must behave as expected too (sanity of the program); tests on
   which the GNU-ld-linked program itself deviates are excluded.
3. A link refused by wild (relocation out of range) is within the property ("rewritten" does not
   apply); it is counted, not reported.
"""
import os
import threading
import re
import struct
from concurrent.futures import ThreadPoolExecutor

from vlib import asm, tlc
from vlib import x86prog as X
from vlib.common import ToolError, build_wild, log, run_wild, save_replay, scratch, sh, trim_samples

PROP = "C14"
META = {
    "ready": True,
    "level": "model_checking",
    "technique": "TLA+ case table of relaxable x86-64 instruction forms with their specified effect on 64-bit words (X86Relax.tla) enumerated by TLC; every case executed natively as linked by the real wild (the CPU is the oracle), the applied rewrite read back with objdump, GNU ld as sanity of the test programs",
    "level_text": "TLC enumerates every combination of GOT-indirect instruction form (10 ALU/mov operations x 32/64-bit, call*, jmp*), relocation style, destination register (9 in quick, all 16 in thorough, including rsp), symbol kind (absolute via --defsym and via .set, local/hidden/default definitions, undefined weak), output kind (non-PIE, static PIE) and value class (0x1000 .. 2^31-1, 2^31, 2^32-1, 2^32, ...); the psABI rewrite table is model-checked safe on all of them; each case is linked by the real wild and executed, comparing destination register and arithmetic flags with the specified effect and with the un-relaxable register form executed by the same CPU.",
    "level_note": "REX2/EVEX (APX) forms and IFUNC symbols are NOT covered: GNU as 2.40 cannot assemble APX and this CPU cannot execute it; shared-object outputs (and so GD->IE, TLSDESC->IE) are not executed; TLS GD/LD/IE/TLSDESC -> local-exec are checked for the resulting address only, large-model TLS sequences not at all. Flags are compared against the hardware, not specified in TLA+. Trusted base: TLC, the CPU, GNU as, the self-relocation prologue of the test programs.",
    "engine": "tlc",
}
VALUES = {"0x1000": 0x1000, "0x10000": 0x10000, "0x7fffffff": 0x7fffffff, "0x80000000": 0x80000000,
          "0xffffffff": 0xffffffff, "0x100000000": 0x100000000, "0xffffffff80000000": 0xffffffff80000000,
          "0x7ffffffff000": 0x7ffffffff000, "0": 0}
WILD_FLAGS = ["--threads=2"]


_LOCK = threading.Lock()


def bump(dct, key, n=1):
    with _LOCK:
        dct[key] = dct.get(key, 0) + n


def wild_bin():
    return os.environ.get("VERIF_WILD_BIN") or build_wild()


def word(v):
    return sum(b << (8 * i) for i, b in enumerate(v))


# ---------------------------------------------------------------------------------------------


def run_spec(ctx, cov):
    cfg = "mc/X86Relax_quick.cfg" if ctx.quick else "mc/X86Relax_thorough.cfg"
    r = tlc.run_tlc("MCX86Relax", cfg, workers=4 if ctx.quick else 8, timeout=1200, jvm_opts=["-Xss64m"])
    if r.timed_out or not r.ok:
        raise ToolError(f"MCX86Relax failed: {r.violated} {r.error_text}\n{r.trace_text[:2500]}\n{r.out[-1000:]}")
    if tlc.zero_coverage_actions(r, ["Pick"]):
        raise ToolError("vacuous case table")
    a = tlc.run_tlc("MCX86Relax", "mc/X86Relax_wildmodel.cfg", workers=4, timeout=600, coverage=False)
    if a.violated != "WildSafe":
        raise ToolError("anti-vacuity: the model of wild's relaxation was not refuted by TLC (Safe is vacuous?)")
    cov["states"] = r.distinct
    cov["transitions"] = r.generated
    cov["tlc_runs"] = [{"cfg": cfg, **r.summary()},
                       {"cfg": "mc/X86Relax_wildmodel.cfg", "expected_violation": a.violated, "states_to_find": a.distinct}]
    t = tlc.run_tlc("MCX86Tls", "mc/X86Tls.cfg", workers=2, timeout=600, jvm_opts=["-Xss64m"])
    tu = tlc.run_tlc("MCX86Tls", "mc/X86Tls_unconditional.cfg", workers=2, timeout=600, coverage=False)
    if t.timed_out or not t.ok:
        raise ToolError(f"MCX86Tls failed: {t.violated} {t.error_text}\n{t.out[-1000:]}")
    if tu.violated != "TlsSafeUnconditional":
        raise ToolError("anti-vacuity: TLS rewrite safe without its side condition?")
    cov["states"] += t.distinct
    cov["transitions"] += t.generated
    cov["tlc_runs"].append({"cfg": "mc/X86Tls.cfg", **t.summary()})
    cov["tls_cases"] = t.records
    cases = r.records
    for c in cases:
        c["effect"] = word(c["effect"])
    cov["model_predicts_unsafe"] = sum(1 for c in cases if not c["wild"]["safe"])
    return cases


# ---------------------------------------------------------------------------------------------
# symbol instances


def instances(case):
    """Concrete symbols for a case: list of (instance id, symbol name, reference load, value or None)."""
    k, v = case["kind"], case["value"]
    br = case["op"] in ("call", "jmp")
    if k == "abs":
        val = VALUES[v]
        tag = v[2:]
        if br:
            if val < 0x10000:
                return []
            return [(f"afd{tag}", f"afd{tag}", None, val), (f"afs{tag}", f"afs{tag}", None, val)]
        ld = f"movabs $0x{val:x}, %{{scr}}"
        return [(f"ad{tag}", f"ad{tag}", ld, val), (f"as{tag}", f"as{tag}", ld, val)]
    if k == "weak0":
        return [] if br else [("wk", "wk", "movabs $0, %{scr}", 0)]
    if br:
        return [(n, n, None, None) for n in ("fn_loc", "fn_hid", "fn_glob")]
    return [(n, n, f"lea {n}(%rip), %{{scr}}", None) for n in ("loc", "hid", "glob")]


BR_MARK = {"fn_loc": 0x600d0001, "fn_hid": 0x600d0002, "fn_glob": 0x600d0003}


def marker_for(sym):
    return BR_MARK.get(sym, 0x600d0a00 + (sum(map(ord, sym)) & 0xff))


def build_program(d, name, tests, style):
    """tests: list of dict(case, sym, refload, val). Returns (main.o, syms.o, defsyms)."""
    body = ""
    stubs = {}
    defsyms = {}
    sets = {}
    for i, t in enumerate(tests):
        c = t["case"]
        lab = f"    .globl T_{i}\nT_{i}:\n"
        if c["op"] in ("call", "jmp"):
            txt = X.branch_test(i, c["op"], t["sym"], marker_for(t["sym"]))
            # label directly in front of the branch instruction
            key = "    call *" if c["op"] == "call" else "    jmp *"
            txt = txt.replace(key, lab + key, 1)
            if t["val"] is not None:
                stubs[t["val"]] = marker_for(t["sym"])
        else:
            txt = X.alu_test(i, c["op"], c["w"], c["reg"], t["sym"], t["refload"])
            sfx = "q" if c["w"] == 64 else "l"
            key = f"    {c['op']}{sfx} {t['sym']}@GOTPCREL"
            txt = txt.replace(key, lab + key, 1)
        body += txt
        if t["sym"].startswith(("ad", "afd")):
            defsyms[t["sym"]] = t["val"]
        elif t["sym"].startswith(("as", "afs")):
            sets[t["sym"]] = t["val"]
    local = """
    .text
fn_loc: mov $0x600d0001, %eax
    ret
    .data
    .balign 8
loc: .quad 0x1111
    .weak wk
"""
    src = X.program(body, len(tests), sorted(stubs.items()), local)
    p = d / f"{name}.s"
    p.write_text(src)
    extra = ["-mrelax-relocations=no"] if style == "plain" else ["-mrelax-relocations=yes"]
    main = asm.assemble(p, d / f"{name}.o", extra=extra)
    s = """
    .text
    .globl fn_hid
    .hidden fn_hid
fn_hid: mov $0x600d0002, %eax
    ret
    .globl fn_glob
fn_glob: mov $0x600d0003, %eax
    ret
    .data
    .balign 8
    .globl hid
    .hidden hid
hid: .quad 0x2222
    .globl glob
glob: .quad 0x3333
"""
    for n, v in sets.items():
        s += f"    .globl {n}\n    .set {n}, 0x{v:x}\n"
    ps = d / f"{name}_syms.s"
    ps.write_text(s)
    syms = asm.assemble(ps, d / f"{name}_syms.o")
    return main, syms, defsyms


def link_args(main, syms, defsyms, out_kind, out):
    a = [main.name, syms.name] + [f"--defsym={n}=0x{v:x}" for n, v in defsyms.items()]
    if out_kind == "pie":
        a += ["-pie", "--no-dynamic-linker"]
    return a + ["-o", out]


def run_prog(d, exe, n):
    r = sh([str(d / exe)], timeout=20, cwd=d)
    # sh decodes stdout as utf-8: re-run in binary through a file instead
    return r


def run_binary(d, exe, n):
    import subprocess
    try:
        p = subprocess.run([str(d / exe)], stdout=subprocess.PIPE, stderr=subprocess.DEVNULL, timeout=20, cwd=d)
    except subprocess.TimeoutExpired:
        return "hang", None
    if p.returncode != 0 or len(p.stdout) != 32 * n:
        return f"exit{p.returncode}", None
    q = struct.unpack(f"<{4 * n}Q", p.stdout)
    return "ok", [dict(res=q[i], flg=q[n + i], rres=q[2 * n + i], rflg=q[3 * n + i]) for i in range(n)]


def disasm_rewrites(d, exe, n):
    """The instruction at each T_i label in the linked output -> (text, rewrite class)."""
    r = sh(["objdump", "-d", "--no-show-raw-insn", str(d / exe)], timeout=60)
    out = {}
    cur = None
    for ln in r.out.splitlines():
        m = re.match(r"^[0-9a-f]+ <T_(\d+)>:", ln)
        if m:
            cur = int(m.group(1))
            continue
        if cur is not None:
            m = re.match(r"^\s*[0-9a-f]+:\s+(.*)$", ln)
            if m:
                ins = re.sub(r"\s+", " ", m.group(1).split("#")[0].strip())
                if "(%rip)" in ins and not ins.startswith("lea"):
                    k = "none"
                elif ins.startswith("lea"):
                    k = "pcrel"
                elif re.match(r"^(addr32 )?(call|jmp) +[0-9a-f]+", ins):
                    k = "pcrel"
                elif "$0x" in ins:
                    k = "imm"
                else:
                    k = "other"
                out[cur] = (ins, k)
                cur = None
    return out


def flag_mask(op):
    return X.FLAG_MASK_LOGIC if op in ("and", "or", "xor", "test") else (0 if op in ("mov", "call", "jmp") else X.FLAG_MASK)


def judge(t, o):
    """None if the observation o conforms, else a symptom string."""
    c = t["case"]
    if c["op"] in ("call", "jmp"):
        return None if o["res"] == o["rres"] else "control"
    if t["val"] is not None and o["res"] != c["effect"]:
        return "value"
    if o["res"] != o["rres"]:
        return "value"
    m = flag_mask(c["op"])
    if (o["flg"] & m) != (o["rflg"] & m):
        return "flags"
    return None


def key_of(t, rw, symptom):
    c = t["case"]
    form = f"{c['op']}{c['w'] if c['op'] not in ('call', 'jmp') else ''}"
    v = VALUES.get(c["value"], 0)
    if rw == "imm" and c["w"] == 64 and c["op"] not in ("call", "jmp") and 2 ** 31 <= v < 2 ** 32:
        return f"rexw-imm32-sign-extended:{form}"
    if rw == "pcrel" and c["kind"] in ("abs", "weak0") and c["out"] == "pie":
        return f"pcrel-to-absolute-in-pie:{form}:{c['style']}"
    return f"{symptom}:{form}:{c['style']}:{c['kind']}:{c['out']}:{c['value']}:rw={rw}"


# ---------------------------------------------------------------------------------------------


def run(ctx):
    cov = {"samples": []}
    cases = run_spec(ctx, cov)
    if os.environ.get("VERIF_C14_CORRUPT"):
        # self-test of the detection path (by hand): falsify the specified effect of one case
        k = [c for c in cases if c["kind"] == "abs" and c["op"] == "add" and c["value"] == "0x1000"][int(os.environ["VERIF_C14_CORRUPT"])]
        k["effect"] ^= 1
    wild_bin()
    # group: one program per (out, style, instance); branch tests against absolute symbols one per program
    groups = {}
    for c in cases:
        for inst, sym, refload, val in instances(c):
            t = dict(case=c, sym=sym, refload=refload, val=val)
            solo = c["op"] in ("call", "jmp") and val is not None
            g = (c["out"], c["style"], inst, f"{c['op']}" if solo else "")
            groups.setdefault(g, []).append(t)
    log(f"C14: {len(cases)} cases -> {sum(len(v) for v in groups.values())} tests in {len(groups)} programs")
    stats = {"programs": len(groups), "tests": 0, "executed_wild": 0, "wild_link_refused": 0, "ld_link_refused": 0,
             "excluded_ld_deviates_too": 0, "crashed_programs": 0, "rewrites_seen": {}}
    findings = {}
    samples = []
    max_depth = 2 if ctx.quick else 5
    spec_errors = []
    box = {}

    def handle(args):
        gi, (g, tests) = args
        return do_group(f"g{gi}", g, tests, 0)

    def do_group(name, g, tests, depth):
        out_kind, style = g[0], g[1]
        sub = box["d"] / name
        sub.mkdir(exist_ok=True)
        main, syms, defsyms = build_program(sub, "p", tests, style)
        n = len(tests)
        bump(stats, "tests", 0)
        lw = run_wild(link_args(main, syms, defsyms, out_kind, "p.wild") + WILD_FLAGS, cwd=sub, timeout=60, wild=wild_bin())
        ll = asm.gnu_ld(link_args(main, syms, defsyms, out_kind, "p.ld"), cwd=sub, timeout=60)
        ld_obs = None
        if ll.rc == 0:
            st, ld_obs = run_binary(sub, "p.ld", n)
        else:
            bump(stats, "ld_link_refused", 1)
        if lw.rc != 0 or lw.timed_out:
            if lw.klass() in ("panic", "hang") or lw.klass().startswith("signal"):
                findings.setdefault(f"linker-crash:{lw.klass()}", []).append(
                    (f"wild {lw.klass()} linking a relaxation test program: {lw.err[:200]}", sub, tests, None))
                return
            if n > 1 and depth < max_depth:
                # one refused relocation hides the other tests: split (deterministically, bounded depth)
                h = n // 2
                do_group(name + "a", g, tests[:h], depth + 1)
                do_group(name + "b", g, tests[h:], depth + 1)
                return
            bump(stats, "wild_link_refused", n)
            return
        st, obs = run_binary(sub, "p.wild", n)
        if st == "ok" and os.environ.get("VERIF_C14_CORRUPT_OBS") and name == "g3":
            obs[1]["res"] ^= 0x10       # self-test of the detection path (by hand): falsify one observation
        rws = disasm_rewrites(sub, "p.wild", n)
        if st != "ok":
            if n > 1:
                h = n // 2
                do_group(name + "a", g, tests[:h], depth + 1)
                do_group(name + "b", g, tests[h:], depth + 1)
                return
            bump(stats, "crashed_programs", 1)
            if n == 1:
                t = tests[0]
                ins, rw = rws.get(0, ("?", "?"))
                if ld_obs is not None and judge(t, ld_obs[0]) is None or ll.rc != 0:
                    findings.setdefault(key_of(t, rw, "crash"), []).append(
                        (f"{describe(t)}: program linked by wild {st} (instruction became `{ins}`)", sub, tests, 0))
                else:
                    bump(stats, "excluded_ld_deviates_too", 1)
            return
        for i, (t, o) in enumerate(zip(tests, obs)):
            ins, rw = rws.get(i, ("?", "?"))
            bump(stats["rewrites_seen"], rw)
            bump(stats, "executed_wild", 1)
            sym = judge(t, o)
            if sym is None:
                if len(samples) < 4 and rw != "none" and i % 7 == 0:
                    samples.append({"case": describe(t), "instruction_in_wild_output": ins, "register": hex(o["res"]),
                                    "reference": hex(o["rres"])})
                continue
            if ld_obs is not None and judge(t, ld_obs[i]) is not None:
                lo = ld_obs[i]
                if lo["res"] == lo["rres"] and lo["flg"] == lo["rflg"]:
                    # under GNU ld the GOT form and the register form agree with each other but not with
                    # the specified Effect: the specification is wrong, not wild
                    spec_errors.append(f"{describe(t)}: Effect says 0x{t['case']['effect']:x}, the CPU (GNU ld link) 0x{lo['res']:x}")
                bump(stats, "excluded_ld_deviates_too", 1)
                continue
            findings.setdefault(key_of(t, rw, sym), []).append(
                (f"{describe(t)}: wild rewrote the instruction to `{ins}`; register 0x{o['res']:x} flags 0x{o['flg'] & 0x8d5:x}, "
                 f"the original semantics give 0x{o['rres']:x} flags 0x{o['rflg'] & 0x8d5:x}", sub, tests, i))

    def describe(t):
        c = t["case"]
        if c["op"] in ("call", "jmp"):
            ins = f"{c['op']} *{t['sym']}@GOTPCREL(%rip)"
        else:
            ins = f"{c['op']}{'q' if c['w'] == 64 else 'l'} {t['sym']}@GOTPCREL(%rip),%{(X.R64 if c['w'] == 64 else X.R32)[c['reg']]}"
        v = f"={c['value']}" if c["kind"] != "addr" else ""
        return f"`{ins}` [{c['kind']}{v}, {c['out']}, reloc style {c['style']}]"

    with scratch("c14") as d:
        box["d"] = d
        items = list(enumerate(sorted(groups.items(), key=lambda kv: kv[0])))
        stats["tests"] = sum(len(v) for v in groups.values())
        with ThreadPoolExecutor(max_workers=8) as ex:
            list(ex.map(handle, items))
        if spec_errors:
            raise ToolError(f"specification disagrees with the hardware on {len(spec_errors)} cases, e.g. {spec_errors[0]}")
        for key, obs in sorted(findings.items()):
            text, sub, tests, idx = obs[0]

            def mk(key=key, sub=sub, tests=tests, idx=idx, obs=obs):
                files = {}
                for f in ("p.s", "p_syms.s"):
                    if (sub / f).exists():
                        files[f] = (sub / f).read_text()
                t = tests[idx] if idx is not None else tests[0]
                defs = " ".join(f"--defsym={x['sym']}=0x{x['val']:x}" for x in tests if x["sym"].startswith(("ad", "afd")))
                c = t["case"]
                return save_replay(PROP, re.sub(r"[^A-Za-z0-9_.-]+", "_", key)[:70], files=files, meta={
                    "cmd": f"as --64 {'-mrelax-relocations=no ' if c['style'] == 'plain' else ''}-o p.o p.s; as --64 -o p_syms.o p_syms.s; "
                           f"wild p.o p_syms.o {defs} {'-pie --no-dynamic-linker ' if c['out'] == 'pie' else ''}-o p.wild; "
                           f"./p.wild | od -A d -t x8   # 4 arrays of {len(tests)} qwords: res, flags, reference res, reference flags; test index {idx}",
                    "case": {k: v for k, v in c.items() if k not in ("wild", "psabi")},
                    "observations_in_this_class": len(obs), "more": [o[0] for o in obs[1:5]]})
            ctx.verdict.report(key, f"{len(obs)} cases, e.g. {text}", mk)
        # ---- TLS forms: one program per output kind
        tls_stats = {"tests": 0, "executed_wild": 0, "sequences_seen": {}}
        for out_kind in ("exe", "pie"):
            tcases = [c for c in cov["tls_cases"] if c["out"] == out_kind]
            sub = d / f"tls_{out_kind}"
            sub.mkdir()
            body = "".join(X.tls_test(i, c["form"], c["reg"], c["var"]) for i, c in enumerate(tcases))
            (sub / "p.s").write_text(X.tls_program(body, len(tcases)))
            main = asm.assemble(sub / "p.s", sub / "p.o")
            extra = ["-pie", "--no-dynamic-linker"] if out_kind == "pie" else []
            ll = asm.gnu_ld([main.name] + extra + ["-o", "p.ld"], cwd=sub)
            if ll.rc != 0:
                raise ToolError(f"GNU ld cannot link the TLS test program: {ll.err[-300:]}")
            st, lobs = run_binary(sub, "p.ld", len(tcases))
            if st != "ok" or any(o["res"] != o["rres"] for o in lobs):
                raise ToolError(f"TLS test program is not sane under GNU ld ({out_kind}): {st}")
            lw = run_wild([main.name] + extra + ["-o", "p.wild"] + WILD_FLAGS, cwd=sub, timeout=60, wild=wild_bin())
            bump(tls_stats, "tests", len(tcases))
            files = {"p.s": (sub / "p.s").read_text()}
            cmd = f"as --64 -o p.o p.s; wild p.o {' '.join(extra)} -o p.wild; ./p.wild | od -A d -t x8"
            if lw.rc != 0:
                ctx.verdict.report(f"tls-link-failed:{out_kind}:{lw.klass()}", f"wild cannot link the TLS forms program ({out_kind}): {lw.err[:200]}",
                                   lambda files=files, cmd=cmd: save_replay(PROP, f"tls-link-{out_kind}", files=files, meta={"cmd": cmd}))
                continue
            st, wobs = run_binary(sub, "p.wild", len(tcases))
            rws = disasm_rewrites(sub, "p.wild", len(tcases))
            if st != "ok":
                ctx.verdict.report(f"tls-program-{st}:{out_kind}", f"TLS forms program linked by wild: {st} (GNU ld's runs fine)",
                                   lambda files=files, cmd=cmd: save_replay(PROP, f"tls-run-{out_kind}", files=files, meta={"cmd": cmd}))
                continue
            for i, (c, o) in enumerate(zip(tcases, wobs)):
                ins = rws.get(i, ("?", "?"))[0]
                bump(tls_stats, "executed_wild", 1)
                k = f"{c['form']}: " + re.sub(r"0x[0-9a-f]+", "N", ins)
                tls_stats["sequences_seen"][k] = tls_stats["sequences_seen"].get(k, 0) + 1
                if o["res"] != o["rres"]:
                    ctx.verdict.report(
                        f"tls-address:{c['form']}:{out_kind}",
                        f"TLS {c['form']} access to {c['var']} (%{X.R64[c['reg']]}, {out_kind}) yields 0x{o['res']:x}, local-exec form 0x{o['rres']:x}; first instruction now `{ins}`",
                        lambda files=files, cmd=cmd, i=i: save_replay(PROP, f"tls-{out_kind}", files=files, meta={"cmd": cmd, "test_index": i}))
        cov["tls_replay"] = tls_stats
        # binding demonstration: a corrupted observation must be judged a deviation
        t0 = dict(case=dict(op="mov", w=64, reg=0, kind="abs", value="0x1000", out="exe", style="x", effect=0x1000),
                  sym="ad1000", val=0x1000)
        good = dict(res=0x1000, flg=0x202, rres=0x1000, rflg=0x202)
        bad = dict(good, res=0x1001)
        if judge(t0, good) is not None or judge(t0, bad) is None:
            raise ToolError("binding demonstration failed")
        cov["binding_demo"] = {"clean": "accepted", "register_corrupted_by_one": judge(t0, bad)}
    cov["replay"] = stats
    cov["deviation_classes"] = {k: len(v) for k, v in findings.items()}
    cov["traces_validated_against_impl"] = stats["executed_wild"] + cov["tls_replay"]["executed_wild"]
    del cov["tls_cases"]
    cov["samples"] = trim_samples(samples + [{"class": k, "example": v[0][0]} for k, v in list(findings.items())[:2]], 5, 600)
    return {
        "level": "model_checking",
        "coverage": cov,
        "assumptions": [
            "the CPU executing the register-operand form is the reference for flags; the TLA+ Effect is the reference for the destination register of absolute-symbol cases",
            "static PIE test programs apply their own R_X86_64_RELATIVE relocations (prologue in vlib/x86prog.py)",
            "tests on which the program linked by GNU ld deviates as well are excluded (e.g. GNU ld treats --defsym symbols as image-relative in a PIE)",
            "TLS forms are checked for the computed ADDRESS (against the local-exec form executed by the same CPU) in executables only; APX (REX2/EVEX) and IFUNC relaxations are not exercised",
        ],
    }
