"""C15 - Linker-script input-section patterns match as in GNU ld.

1. TLC (specs/Glob.tla, MCGlob.tla):
   MatchSpec  - every pattern Pre.Mid.Suf of the config (literal prefixes of every length 0..5,
                wildcards / bracket expressions / escapes / literals in the middle, literal suffixes)
                is printed with the set of ALL names over the alphabet (length 1..MaxName) it matches
                under POSIX fnmatch; MatchLaws (algebraic laws of Match) is checked on each.
   PlaceSpec  - every list of 1..2 input-section descriptions from a pool (exact / prefix / suffix /
                class / `*` patterns, file patterns, KEEP) is printed with the placement and KEEP status
                of every (file, section) and the class predicted by the model of wild's 4-byte index;
                FirstMatchLaw is checked on each.
2. Replay: generated `SECTIONS { .oK : { fK.o(pattern) } ... }` scripts + objects that contain one
   section per name (content = a unique marker).  The observer (vlib/elf.py) reports for every marker
   the output section that contains it.  GNU ld (the property's reference) links the same inputs:
   spec != GNU ld is a spec error (exit 2), except for the documented GNU ld quirk that a backslash in
   the literal prefix/suffix of a pattern is compared literally (those patterns are excluded).
   wild != spec == GNU ld is a violation; a panic / error exit on a valid pattern is a violation of
   "accepted without crashing".  KEEP: relink with --gc-sections, nothing references the sections.
3. Binding demonstration: one byte of a marker in wild's output is patched before observing -> the
   observer must report a misplaced section.
"""
import itertools
import os
import threading
import random
import re
from concurrent.futures import ThreadPoolExecutor

from vlib import asm, tlc
from vlib.common import ToolError, build_wild, log, run_wild, save_replay, scratch, trim_samples
from vlib.elf import Elf

PROP = "C15"
META = {
    "ready": True,
    "level": "model_checking",
    "technique": "TLA+ specification of fnmatch and of first-match placement (Glob.tla) enumerated by TLC; every enumerated (pattern, name) pair and rule list replayed through real links of wild and GNU ld, observed in the output ELF",
    "level_text": "TLC enumerates all patterns of the form literal-prefix (length 0..5) + up to 2 wildcard/class/escape/literal atoms + literal suffix against all names of length 1..5 over a 4-5 letter alphabet (about 1.4 million (pattern,name) pairs in quick), and all lists of 1..2 input-section descriptions from a pool with file patterns and KEEP against 16 (file,section) pairs; Match laws and the first-match law are model-checked; every case is linked by the real wild and by GNU ld 2.40 and the output section of every input section is observed in the ELF.",
    "level_note": "Bounded: tiny alphabet, names <= 5 bytes, <= 2 special atoms per pattern, <= 2 descriptions per list (pool of 15 / 50 descriptions). GNU ld compares a backslash in the literal prefix/suffix of a pattern literally (not fnmatch): such patterns are excluded. File names are matched as given in cwd (no directories, no archives); SORT/EXCLUDE_FILE are not modelled. Trusted base: TLC, GNU ld 2.40, GNU as, the marker observer.",
    "engine": "tlc",
}
K = 8            # patterns per link (one object file per pattern)
WILD_FLAGS = ["--threads=2", "--no-fork"]
MARK_RE = re.compile(rb"<MK:([^:]+):([^>]*?):KM>")


_LOCK = threading.Lock()


def bump(dct, key, n=1):
    with _LOCK:
        dct[key] = dct.get(key, 0) + n


def wild_bin():
    return os.environ.get("VERIF_WILD_BIN") or build_wild()


# ---------------------------------------------------------------------------------------------


def run_specs(ctx, cov):
    tier = "quick" if ctx.quick else "thorough"
    jobs = [("match", f"mc/Glob_match_{tier}.cfg"), ("place", f"mc/Glob_place_{tier}.cfg")]

    def one(j):
        return tlc.run_tlc("MCGlob", j[1], workers=4, timeout=900 if ctx.quick else 2400,
                           name=f"MCGlob.{j[0]}.{os.getpid()}", jvm_opts=["-Xss64m"])

    with ThreadPoolExecutor(max_workers=2) as ex:
        res = list(ex.map(one, jobs))
    out = {}
    cov["states"] = 0
    cov["transitions"] = 0
    cov["tlc_runs"] = []
    for (kind, cfg), r in zip(jobs, res):
        cov["tlc_runs"].append({"cfg": cfg, **r.summary()})
        if r.timed_out or not r.ok:
            raise ToolError(f"MCGlob {cfg} failed: {r.violated} {r.error_text}\n{r.trace_text[:2500]}\n{r.out[-1200:]}")
        need = ["AddMid", "AddSuf"] if kind == "match" else ["AddRule"]
        miss = tlc.zero_coverage_actions(r, need)
        if miss:
            raise ToolError(f"vacuous run {cfg}: {miss}")
        cov["states"] += r.distinct
        cov["transitions"] += r.generated
        out[kind] = [x for x in r.records if x["kind"] == kind]
        out[kind + "_meta"] = [x for x in r.records if x["kind"] == "meta"][0]
    return out


def names_object(d, fname, tag, names):
    body = ""
    if tag == "0" or tag == "fa.o":
        body += ".globl _start\n.text\n_start:\n" + asm.EXIT_X86
    for n in names:
        body += f'.section "{n}","a",@progbits\n .ascii "<MK:{tag}:{n}:KM>"\n'
    p = d / (fname[:-2] + ".s")
    p.write_text(body)
    return asm.assemble(p, d / fname)


def observe(path, corrupt=False):
    """(file tag, name) -> output section that contains the marker."""
    e = Elf(path)
    data = e.data
    if corrupt:
        # binding demonstration: rename one marker inside the output before observing
        m = MARK_RE.search(data, e.section(".o0")["offset"] if e.section(".o0") else 0)
        b = bytearray(data)
        b[m.start(2)] ^= 0x01
        data = bytes(b)
    out = {}
    for s in e.sections:
        if s["type"] == 8 or s["size"] == 0:
            continue
        for m in MARK_RE.finditer(data[s["offset"]:s["offset"] + s["size"]]):
            out[(m.group(1).decode(), m.group(2).decode("latin-1"))] = s["name"]
    return out


def link(tool, d, objs, script, out, extra):
    args = [o.name for o in objs] + ["-T", script.name, "-o", out.name] + extra
    if tool == "ld":
        return asm.gnu_ld(args, cwd=d, timeout=120)
    return run_wild(args + WILD_FLAGS, cwd=d, timeout=120, wild=wild_bin())


def panic_key(err):
    if "Prefixes of length less than 4 not yet supported" in err:
        return "pattern-len<4:from_rules-expect"
    m = re.search(r"panicked at ([^\s:]+:\d+)", err)
    return f"panic@{m.group(1)}" if m else "panic"


def has_escape(text):
    return "\\" in text


# ---------------------------------------------------------------------------------------------
# match cases


def match_script(batch):
    return "SECTIONS {\n" + "".join(f"  .o{k} : {{ f{k}.o({c['text']}) }}\n" for k, c in enumerate(batch)) + "}\n"


def expected_match(batch, names):
    exp = {}
    for k, c in enumerate(batch):
        ms = set(c["m"])
        for n in names:
            exp[(str(k), n)] = f".o{k}" if n in ms else n
    return exp


def diff_obs(exp, obs):
    """list of (tag, name, expected, observed or None)"""
    return [(t, n, e, obs.get((t, n))) for (t, n), e in exp.items() if obs.get((t, n)) != e]


def run_match(ctx, cov, d, cases, meta, rng, workers):
    names = ["".join(t) for n in range(1, meta["maxname"] + 1) for t in itertools.product(meta["alphabet"], repeat=n)
             if n < meta["maxname"] or t[0] in meta["longheads"]]
    objs = [names_object(d, f"f{k}.o", str(k), names) for k in range(K)]
    # deduplicate by text; order: predicted-short patterns (the pinned wild panics on them) in their own batches
    uniq = {}
    for c in cases:
        uniq.setdefault(c["text"], c)
    cases = sorted(uniq.values(), key=lambda c: (c["short"], c["text"]))
    batches = []
    for short in (False, True):
        cs = [c for c in cases if c["short"] == short]
        batches += [cs[i:i + K] for i in range(0, len(cs), K)]
    stats = {"patterns": len(cases), "names": len(names), "pairs_vs_ld": 0, "pairs_vs_wild": 0,
             "ld_quirk_patterns": 0, "wild_links": 0, "panicking_batches_not_attributed": 0, "ld_overlap_quirk_pairs": 0}
    quirks = []
    findings = {}     # key -> list of (description, replay files)
    samples = []
    stride = 4 if ctx.quick else 1     # failing batch links are attributed pattern by pattern in every stride-th batch

    def record(key, text, files, meta_):
        findings.setdefault(key, []).append((text, files, meta_))

    def classify(c, n, e, o):
        if o is None:
            return f"section-lost:{c['text']}"
        if e.startswith(".o") and o == n:
            if len(n) < 4:
                return "unmatched:name-shorter-than-4"
            if c["special4"]:
                return "unmatched:wildcard-in-first-4-bytes"
            if has_escape(c["text"]):
                return "unmatched:backslash-escape-in-glob-pattern"
            return f"unmatched:{c['text']}"
        if has_escape(c["text"]):
            return "misplaced:backslash-escape-in-glob-pattern"
        return f"misplaced:{c['text']}"

    def do_batch(ib):
        i, batch = ib
        sub = d / f"m{i}"
        sub.mkdir()
        for o in objs[:len(batch)]:
            os.link(o, sub / o.name)
        script = sub / "s.ld"
        script.write_text(match_script(batch))
        ob = [sub / o.name for o in objs[:len(batch)]]
        exp = expected_match(batch, names)
        # reference
        r = link("ld", sub, ob, script, sub / "out.ld", ["--no-gc-sections"])
        if r.rc != 0:
            raise ToolError(f"GNU ld failed on generated script {script.read_text()}: {r.err[-500:]}")
        ld_bad = diff_obs(exp, observe(sub / "out.ld"))
        bad_tags = set()
        excluded = set()
        for t, n, e, o in ld_bad:
            c = batch[int(t)]
            if has_escape(c["text"]):
                bad_tags.add(t)
                quirks.append(c["text"])
            elif n in c["ldq"] and o == f".o{t}":
                excluded.add((t, n))
            else:
                raise ToolError(f"spec disagrees with GNU ld on pattern `{c['text']}` (spec error): {(t, n, e, o)}")
        bump(stats, "ld_overlap_quirk_pairs", len(excluded))
        for t, n in excluded:
            del exp[(t, n)]
        live = [k for k in range(len(batch)) if str(k) not in bad_tags]
        bump(stats, "pairs_vs_ld", len(live) * len(names))
        # wild
        w = link("wild", sub, ob, script, sub / "out.wild", ["--no-gc-sections"])
        bump(stats, "wild_links", 1)
        if w.rc == 0 and not w.timed_out:
            wobs = observe(sub / "out.wild")
            for t, n, e, o in diff_obs(exp, wobs):
                if int(t) in live:
                    c = batch[int(t)]
                    record(classify(c, n, e, o),
                           f"pattern `{c['text']}`, section `{n}`: spec and GNU ld place it in {e}, wild in {o}",
                           {"s.ld": f"SECTIONS {{ .o0 : {{ *({c['text']}) }} }}\n",
                            "a.s": f'.globl _start\n.text\n_start:\n{asm.EXIT_X86}\n.section "{n}","a",@progbits\n .ascii "{asm.marker(n)}"\n'},
                           {"cmd": "as --64 -o a.o a.s; wild a.o -T s.ld -o out --no-gc-sections; readelf -SW out",
                            "pattern": c["text"], "section": n, "expected": e, "observed": o})
            bump(stats, "pairs_vs_wild", len(live) * len(names))
            if len(samples) < 3:
                c = batch[live[0]] if live else batch[0]
                samples.append({"pattern": c["text"], "matches": c["m"][:6], "n_names": len(names), "wild": "as spec/ld" if not diff_obs(exp, wobs) else "differs"})
            return
        # the whole link failed: attribute by linking each pattern alone (budgeted)
        for k in live:
            if i % stride != 0:
                bump(stats, "panicking_batches_not_attributed", 1)
                continue
            c = batch[k]
            s1 = sub / f"s{k}.ld"
            s1.write_text(match_script([c]))
            w1 = link("wild", sub, [sub / "f0.o"], s1, sub / f"out{k}.wild", ["--no-gc-sections"])
            bump(stats, "wild_links", 1)
            files = {"s.ld": f"SECTIONS {{ .o0 : {{ *({c['text']}) }} }}\n",
                     "a.s": f".globl _start\n.text\n_start:\n{asm.EXIT_X86}\n"}
            cmd = "as --64 -o a.o a.s; wild a.o -T s.ld -o out"
            if w1.rc == 0 and not w1.timed_out:
                e1 = expected_match([c], names)
                for t, n, e, o in diff_obs(e1, observe(sub / f"out{k}.wild")):
                    record(classify(c, n, e, o),
                           f"pattern `{c['text']}`, section `{n}`: spec and GNU ld place it in {e}, wild in {o}",
                           files, {"cmd": cmd, "pattern": c["text"], "section": n, "expected": e, "observed": o})
                bump(stats, "pairs_vs_wild", len(names))
            elif w1.klass() == "panic":
                record(panic_key(w1.err), f"valid pattern `{c['text']}` makes wild panic: {w1.err.strip().splitlines()[1][:120] if len(w1.err.strip().splitlines()) > 1 else ''}",
                       files, {"cmd": cmd, "pattern": c["text"], "expected": "link succeeds (GNU ld does)", "observed": w1.err[:400]})
            elif w1.klass() in ("hang",) or w1.klass().startswith("signal"):
                record(f"crash-{w1.klass()}:{c['text']}", f"pattern `{c['text']}`: wild {w1.klass()}", files,
                       {"cmd": cmd, "pattern": c["text"]})
            else:
                msg = re.sub(r"/\S+/", "", w1.err.strip().splitlines()[0] if w1.err.strip() else "")[:80]
                rk = "rejected:consecutive-stars" if "**" in c["text"] else f"rejected:{c['text']}"
                record(rk, f"valid pattern `{c['text']}` is rejected by wild: {msg}", files,
                       {"cmd": cmd, "pattern": c["text"], "expected": "link succeeds (GNU ld does)", "observed": w1.err[:400]})

    with ThreadPoolExecutor(max_workers=workers) as ex:
        list(ex.map(do_batch, list(enumerate(batches))))
    stats["ld_quirk_patterns"] = len(set(quirks))
    stats["ld_quirk_examples"] = sorted(set(quirks))[:5]
    cov["match"] = stats
    cov["samples"] += samples
    return findings


# ---------------------------------------------------------------------------------------------
# placement cases


def place_script(c):
    out = "SECTIONS {\n"
    for r in c["rules"]:
        inner = f"{r['file']}({' '.join(r['pats'])})"
        if r["keep"]:
            inner = f"KEEP({inner})"
        out += f"  .{r['out']} : {{ {inner} }}\n"
    return out + "}\n"


def run_place(ctx, cov, d, cases, meta, rng, workers):
    objs = [names_object(d, f, f, meta["pnames"]) for f in meta["files"]]
    stats = {"rule_lists": len(cases), "placements_vs_ld": 0, "placements_vs_wild": 0, "keep_checked": 0,
             "model_classes": {}}
    findings = {}
    samples = []

    def record(key, text, files, meta_):
        findings.setdefault(key, []).append((text, files, meta_))

    def do_case(ic):
        i, c = ic
        sub = d / f"p{i}"
        sub.mkdir()
        for o in objs:
            os.link(o, sub / o.name)
        ob = [sub / o.name for o in objs]
        script = sub / "s.ld"
        script.write_text(place_script(c))
        exp = {(x["f"], x["s"]): ("." + x["out"] if x["out"] != "orphan" else x["s"]) for x in c["res"]}
        cls = {(x["f"], x["s"]): x["cls"] for x in c["res"]}
        for x in c["res"]:
            stats["model_classes"][x["cls"]] = stats["model_classes"].get(x["cls"], 0) + 1
        files = {"s.ld": script.read_text(), **{o.with_suffix(".s").name: (d / o.with_suffix(".s").name).read_text() for o in objs}}
        cmd = "as --64 -o fa.o fa.s; as --64 -o fb.o fb.s; wild fa.o fb.o -T s.ld -o out --no-gc-sections"
        r = link("ld", sub, ob, script, sub / "out.ld", ["--no-gc-sections"])
        if r.rc != 0:
            raise ToolError(f"GNU ld failed on {script.read_text()}: {r.err[-400:]}")
        bad = diff_obs(exp, observe(sub / "out.ld"))
        if bad:
            raise ToolError(f"spec (Place) disagrees with GNU ld on {script.read_text()}: {bad[:3]}")
        bump(stats, "placements_vs_ld", len(exp))
        w = link("wild", sub, ob, script, sub / "out.wild", ["--no-gc-sections"])
        if w.rc != 0 or w.timed_out:
            if w.klass() == "panic":
                record(panic_key(w.err), f"valid script makes wild panic: {place_script(c).strip()}", files,
                       {"cmd": cmd, "expected": "link succeeds (GNU ld does)", "observed": w.err[:400]})
            else:
                record(f"rejected-or-crash:{w.klass()}", f"wild fails ({w.klass()}) on {place_script(c).strip()}: {w.err[:200]}",
                       files, {"cmd": cmd, "observed": w.err[:400]})
            return
        wobs = observe(sub / "out.wild")
        for f, s, e, o in diff_obs(exp, wobs):
            k = cls[(f, s)]
            if o is None:
                key = "section-lost"
            elif k == "name-shorter-than-4" and o == s:
                key = "unmatched:name-shorter-than-4"
            elif k == "wildcard-in-first-4-bytes":
                # the description that should have won has a wildcard within its first 4 bytes and is
                # never consulted; the section falls through to a later description or becomes an orphan
                key = "unmatched:wildcard-in-first-4-bytes"
            elif k == "order-among-same-key" and o.startswith(".o"):
                key = "first-match-order:descriptions-sharing-index-key"
            else:
                key = f"misplaced:{'|'.join(p for r_ in c['rules'] for p in r_['pats'])}"
            record(key, f"{f}({s}) under {place_script(c).strip()!r}: spec and GNU ld -> {e}, wild -> {o}", files,
                   {"cmd": cmd + "; readelf -SW out", "file": f, "section": s, "expected": e, "observed": o})
        bump(stats, "placements_vs_wild", len(exp))
        if len(samples) < 2:
            samples.append({"script": place_script(c), "expected": {f"{f}({s})": e for (f, s), e in list(exp.items())[:5]}})
        # KEEP under --gc-sections: nothing references the sections
        kept = [(x["f"], x["s"]) for x in c["res"] if x["keep"]]
        if kept:
            r = link("ld", sub, ob, script, sub / "gc.ld", ["--gc-sections", "-e", "_start"])
            lobs = observe(sub / "gc.ld") if r.rc == 0 else {}
            if r.rc != 0 or any(k not in lobs for k in kept):
                raise ToolError(f"spec (Kept) disagrees with GNU ld --gc-sections on {script.read_text()}")
            w = link("wild", sub, ob, script, sub / "gc.wild", ["--gc-sections"])
            if w.rc != 0:
                return
            gobs = observe(sub / "gc.wild")
            for f, s in kept:
                if wobs.get((f, s)) != exp[(f, s)]:
                    continue        # already reported as a placement deviation
                bump(stats, "keep_checked", 1)
                if (f, s) not in gobs:
                    record("keep-collected", f"{f}({s}) matched by KEEP in {place_script(c).strip()!r} was garbage-collected",
                           files, {"cmd": cmd.replace("--no-gc-sections", "--gc-sections"), "file": f, "section": s,
                                   "expected": "present", "observed": "absent"})
                elif gobs[(f, s)] != exp[(f, s)]:
                    record("keep-misplaced", f"{f}({s}) KEEP placement differs under --gc-sections", files,
                           {"cmd": cmd, "expected": exp[(f, s)], "observed": gobs[(f, s)]})

    with ThreadPoolExecutor(max_workers=workers) as ex:
        list(ex.map(do_case, list(enumerate(cases))))
    cov["place"] = stats
    cov["samples"] += samples
    return findings


# ---------------------------------------------------------------------------------------------


def run(ctx):
    cov = {"samples": []}
    rng = random.Random(ctx.seed)
    workers = 8
    spec = run_specs(ctx, cov)
    wild_bin()
    log(f"C15: {len(spec['match'])} patterns, {len(spec['place'])} rule lists")
    with scratch("c15") as d:
        f1 = run_match(ctx, cov, d, spec["match"], spec["match_meta"], rng, workers)
        f2 = run_place(ctx, cov, d, spec["place"], spec["place_meta"], rng, workers)
        findings = {}
        for f in (f1, f2):
            for k, v in f.items():
                findings.setdefault(k, []).extend(v)
        for key, items in sorted(findings.items()):
            text, files, meta_ = items[0]
            ctx.verdict.report(key, f"{len(items)} observations, e.g. {text}",
                               lambda key=key, files=files, meta_=meta_, items=items: save_replay(
                                   PROP, re.sub(r"[^A-Za-z0-9_.-]+", "_", key)[:60], files=files,
                                   meta=dict(meta_, observations=len(items), more=[t for t, _, _ in items[1:6]])))
        cov["deviation_classes"] = {k: len(v) for k, v in findings.items()}
        # binding demonstration: corrupt one observation
        names = ["".join(t) for n in range(1, 3) for t in itertools.product(".tx0", repeat=n)] + [".tx0", ".tx0t"]
        sub = d / "demo"
        sub.mkdir()
        o = names_object(sub, "f0.o", "0", names)
        c = {"text": ".tx0*", "m": [".tx0", ".tx0t"], "short": False, "special4": False}
        (sub / "s.ld").write_text(match_script([c]))
        w = link("wild", sub, [o], sub / "s.ld", sub / "out", ["--no-gc-sections"])
        if w.rc != 0:
            raise ToolError(f"demo link failed: {w.err[-300:]}")
        exp = expected_match([c], names)
        clean = diff_obs(exp, observe(sub / "out"))
        dirty = diff_obs(exp, observe(sub / "out", corrupt=True))
        cov["binding_demo"] = {"clean_diffs": len(clean), "diffs_after_patching_one_marker_byte": len(dirty)}
        if clean or not dirty:
            raise ToolError(f"binding demonstration failed: clean={clean[:2]} dirty={dirty[:2]}")
        if os.environ.get("VERIF_C15_CORRUPT"):
            t, n, e, o_ = dirty[0]
            ctx.verdict.report(f"misplaced:{c['text']}", f"(injected) section {n}: expected {e}, observed {o_}",
                               lambda: save_replay(PROP, "injected", files={"s.ld": match_script([c])}, meta={}))
    m, p = cov["match"], cov["place"]
    cov["traces_validated_against_impl"] = m["pairs_vs_wild"] + p["placements_vs_wild"]
    cov["samples"] = trim_samples(cov["samples"], 5, 500)
    return {
        "level": "model_checking",
        "coverage": cov,
        "assumptions": [
            "GNU ld 2.40 is the reference; patterns with a backslash that GNU ld compares literally (prefix/suffix fast path) are excluded",
            "object files are named without directories; archives are not used",
            "bounded enumeration (alphabet, name length, atoms per pattern, descriptions per list) as in specs/mc/Glob_*.cfg",
            "when a whole batch link of wild fails, patterns are re-linked one by one within a budget; the rest is counted as not attributed",
        ],
    }
