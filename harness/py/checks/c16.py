"""C16 - Linker-script expressions evaluate as in GNU ld.

1. TLC: MCExpr (specs/Expr.tla, Word64.tla) enumerates every well-formed expression up to the
   bounds of the config (boundary literals, 18 binary operators, unary operators, parentheses,
   MIN/MAX/ALIGN), checks on each that the operational per-level parser with the C table agrees
   with the declarative reading (ParserAgreement) and prints it with the specified 64-bit value
   (and the value under named wrong variants: unsigned division, wild's level table).
   MCWord64 self-tests the word arithmetic (division identities etc.).
2. Reference: every expression goes to GNU ld as `ASSERT((e) == v, "eN")`; GNU ld disagreeing
   with the spec is a spec error (exit 2), never a violation.
3. Replay through the real `wild`: the same ASSERT scripts, several hundred per link.  wild stops at
   the first parse error / failing ASSERT, so a batch is re-linked from behind the reported line.
   A parse or evaluation error = expression not accepted by wild = outside the property.  A failing
   ASSERT = wild computed another value than spec and GNU ld = violation; its class is named by
   finding which variant value wild's result equals (again through ASSERTs on the real binary).
4. `ASSERT fails exactly when the expression is zero`: ASSERT(e) directly, predicted-non-zero ones
   in bulk (must link), predicted-zero ones one per link as the last line (must fail with that name).
5. Binding demonstrations: GNU ld must reject the predictions of the unsigned-division variant;
   wild must reject a deliberately corrupted expectation.
"""
import os
import random
import re
from concurrent.futures import ThreadPoolExecutor

from vlib import asm, tlc
from vlib.common import ToolError, build_wild, log, run_wild, save_replay, scratch, trim_samples

PROP = "C16"
META = {
    "ready": True,
    "level": "model_checking",
    "technique": "TLA+ specification of the expression language (declarative C-precedence parse, per-level parser, 64-bit evaluation on byte-limb words) enumerated by TLC; every enumerated expression replayed as ASSERT((e)==v) through the real wild binary and through GNU ld (the property's reference)",
    "level_text": "TLC enumerates all well-formed expressions up to the configured bounds (quick: all 1-operator expressions over 13 boundary literals x 16 operators (thorough: 18, incl. % and ^), all 2-operator / unary / parenthesised / MIN / MAX / ALIGN combinations over a small literal pool; thorough: larger pools and 3 operators), proves on each that the per-level parser with the C table yields the declarative C parse, and exports the specified value; each expression is evaluated by the real wild (ASSERT pass/fail of real links) and by GNU ld 2.40; the spec must agree with GNU ld on every expression and wild must agree on every expression it accepts.",
    "level_note": "Exhaustive only up to the bounds (token strings of <= 3 operators, the literal pools); location counter, symbols, SIZEOF/ADDR and MEMORY functions are not in the expression language of the model; ASSERTs are evaluated at top level of a -T script (dot = 0). Most-negative / -1 (SIGFPE in GNU ld) and division by zero (fatal in GNU ld) are outside the value domain. Trusted base: TLC, GNU ld 2.40 as reference, the ASSERT message protocol.",
    "engine": "tlc",
}
EXPECTED_ACTIONS = ["AppBin", "AppBinUn", "PreUn", "Wrap", "PreBin", "FnWrap"]
BATCH = 400
# tiny links: one thread, no fork (the expression evaluator does not depend on either)
WILD_FLAGS = ["--threads=1", "--no-fork"]


def wild_bin():
    """The hook-enabled build of /repo; VERIF_WILD_BIN substitutes another build (used to try a fix)."""
    return os.environ.get("VERIF_WILD_BIN") or build_wild()


def word(v):
    """8 little-endian bytes -> int"""
    return sum(b << (8 * i) for i, b in enumerate(v))


def text_of(toks):
    return " ".join(toks)


def shape_of(toks):
    return " ".join("N" if re.match(r"^(0x[0-9a-f]+|\d+)$", t) else t for t in toks)


# ---------------------------------------------------------------------------------------------
# TLC


def enumerate_expressions(ctx, cov):
    nparts = 4 if ctx.quick else 8
    cfg = "mc/Expr_quick.cfg" if ctx.quick else "mc/Expr_thorough.cfg"
    to = 900 if ctx.quick else 2400

    def part(k):
        return tlc.run_tlc("MCExpr", cfg, workers=1, timeout=to, name=f"MCExpr.{os.getpid()}.{k}",
                           env={"EXPR_PART_N": str(nparts), "EXPR_PART_K": str(k)},
                           jvm_opts=["-Xss64m", "-XX:ParallelGCThreads=2"])

    def selftest():
        return tlc.run_tlc("MCWord64", "mc/Word64_selftest.cfg", workers=1, timeout=600, coverage=False,
                           name=f"MCWord64.{os.getpid()}", jvm_opts=["-Xss64m", "-XX:ParallelGCThreads=2"])

    with ThreadPoolExecutor(max_workers=nparts + 1) as ex:
        fs = ex.submit(selftest)
        results = list(ex.map(part, range(nparts)))
        st = fs.result()
    if "WORD64-SELFTEST-OK" not in st.out or not st.ok:
        raise ToolError("Word64 self-test failed:\n" + st.out[-2000:])
    recs = {}
    generated = 0
    runs = []
    cover = {}
    for k, r in enumerate(results):
        runs.append({"cfg": cfg, "part": f"{k}/{nparts}", **r.summary()})
        if r.timed_out:
            raise ToolError(f"TLC timed out on {cfg} part {k}")
        if not r.ok:
            raise ToolError(f"MCExpr model check failed ({cfg} part {k}): {r.violated} {r.error_text}\n{r.trace_text[:3000]}\n{r.out[-1500:]}")
        if len(r.records) != r.distinct:
            raise ToolError(f"part {k}: {len(r.records)} records for {r.distinct} states")
        generated += r.generated
        for a, (d, t) in r.coverage.items():
            pd, pt = cover.get(a, (0, 0))
            cover[a] = (pd + d, pt + t)
        for rec in r.records:
            recs.setdefault(text_of(rec["t"]), rec)
    missing = [a for a in EXPECTED_ACTIONS if cover.get(a, (0, 0))[1] == 0]
    if missing:
        raise ToolError(f"vacuous enumeration: actions never taken {missing}")
    cov["states"] = len(recs)
    cov["transitions"] = generated
    cov["tlc_runs"] = runs
    cov["word64_selftest"] = "ok"
    out = []
    for i, (txt, rec) in enumerate(sorted(recs.items())):
        out.append({"id": i, "text": txt, "toks": rec["t"], "st": rec["st"], "v": word(rec["v"]),
                    "w": rec["w"], "nb": rec["nb"], "wp": rec["wp"], "az": rec["az"],
                    "alt": {k: (a["st"], word(a["w"])) for k, a in rec["alt"].items()},
                    "shape": shape_of(rec["t"])})
    return out


# ---------------------------------------------------------------------------------------------
# running scripts


def assert_line(expr_text, name):
    return f'ASSERT({expr_text}, "{name}")\n'


_LD_SYNTAX_RE = re.compile(r"^ld:[^\n]*?\.ld:(\d+): (?:syntax error|ignoring invalid character)", re.M)


def run_ld_script(d, obj, name, lines):
    """GNU ld reports every failing ASSERT. Returns the set of failing names."""
    p = d / f"{name}.ld"
    p.write_text("".join(lines))
    r = asm.gnu_ld([obj, "-T", p, "-o", d / f"{name}.ldout"], timeout=120)
    failed = set(re.findall(r"^ld: ([A-Za-z]\d+)$", r.err, re.M))
    other = [ln for ln in r.err.splitlines() if ln.strip() and not re.match(r"^ld: [A-Za-z]\d+$", ln)]
    if r.timed_out or r.rc < 0 or (r.rc != 0 and not failed) or other:
        raise ToolError(f"GNU ld failed on {p}: rc={r.rc} {r.err[-600:]}")
    return failed


def ld_rejected_shapes(d, obj, name, reps):
    """Which operator shapes does this GNU ld refuse to parse (2.40 has no `^`)? A syntax error is
    fatal, so drop the reported line and re-link."""
    pending = list(reps)
    rejected = set()
    it = 0
    while pending:
        it += 1
        p = d / f"{name}.{it}.ld"
        p.write_text("".join(assert_line(f"( {e['text']} ) == 0 || 1", f"p{e['id']}") for _, e in pending))
        r = asm.gnu_ld([obj, "-T", p, "-o", d / f"{name}.out"], timeout=120)
        m = _LD_SYNTAX_RE.search(r.err)
        if r.rc == 0 and not m:
            break
        if not m or r.timed_out:
            raise ToolError(f"GNU ld failed on {p}: rc={r.rc} {r.err[-600:]}")
        n = int(m.group(1))
        rejected.add(pending[n - 1][0])
        del pending[n - 1]
    return rejected


_PARSE_RE = re.compile(r"parse error at line (\d+), column (\d+)")
_ASSERT_RE = re.compile(r"error: [^\n]*?\.ld:(\d+): ([A-Za-z]\d+)\s*$", re.M)
_EVAL_RE = re.compile(r"error: [^\n]*?\.ld:(\d+): Failed to evaluate ASSERT\s*\n\s*Caused by:\s*\n\s*([^\n]+)")


def run_wild_lines(d, obj, name, items):
    """items: list of (key, line). wild stops at the first problem, so re-link from behind it.
    Returns dict key -> ("pass" | "fail" | "parse-reject" | "eval-reject:<cause>" | "crash:<class>", detail)."""
    res = {}
    pending = list(items)
    it = 0
    while pending:
        it += 1
        p = d / f"{name}.{it}.ld"
        p.write_text("".join(ln for _, ln in pending))
        r = run_wild([obj, "-T", p, "-o", d / f"{name}.out"] + WILD_FLAGS, timeout=120, wild=wild_bin())
        if r.rc == 0 and not r.timed_out:
            for k, _ in pending:
                res[k] = ("pass", "")
            break
        k = r.klass()
        if k in ("hang", "panic") or k.startswith("signal"):
            # cannot attribute to a line: bisect by halving
            if len(pending) == 1:
                res[pending[0][0]] = (f"crash:{k}", r.err[-400:])
                break
            half = len(pending) // 2
            res.update(run_wild_lines(d, obj, f"{name}.{it}a", pending[:half]))
            res.update(run_wild_lines(d, obj, f"{name}.{it}b", pending[half:]))
            break
        m = _PARSE_RE.search(r.err)
        if m:
            n = int(m.group(1))
            if not 1 <= n <= len(pending):
                raise ToolError(f"wild parse error outside the script: {r.err[-400:]}")
            res[pending[n - 1][0]] = ("parse-reject", f"col {m.group(2)}")
            del pending[n - 1]
            continue
        m = _EVAL_RE.search(r.err)
        if m:
            n = int(m.group(1))
            for kk, _ in pending[:n - 1]:
                res[kk] = ("pass", "")
            res[pending[n - 1][0]] = (f"eval-reject:{m.group(2).strip()}", "")
            pending = pending[n:]
            continue
        m = _ASSERT_RE.search(r.err)
        if m:
            n = int(m.group(1))
            if not 1 <= n <= len(pending) or f'"{m.group(2)}"' not in pending[n - 1][1]:
                raise ToolError(f"cannot attribute wild's ASSERT failure: {r.err[-400:]}")
            for kk, _ in pending[:n - 1]:
                res[kk] = ("pass", "")
            res[pending[n - 1][0]] = ("fail", "")
            pending = pending[n:]
            continue
        raise ToolError(f"unrecognised wild failure on {p}: rc={r.rc} {r.err[-600:]}")
    return res


def chunks(xs, n):
    return [xs[i:i + n] for i in range(0, len(xs), n)]


def pmap(fn, xs, workers):
    with ThreadPoolExecutor(max_workers=workers) as ex:
        return list(ex.map(fn, xs))


# ---------------------------------------------------------------------------------------------


def eq_line(e, val, prefix="e"):
    return assert_line(f"( {e['text']} ) == 0x{val:x}", f"{prefix}{e['id']}")


def run(ctx):
    cov = {"samples": []}
    rng = random.Random(ctx.seed)
    workers = 8
    cache = os.environ.get("VERIF_C16_DEVCACHE")     # development aid only: reuse one TLC enumeration
    if cache and os.path.exists(cache):
        import pickle
        exprs, c0 = pickle.load(open(cache, "rb"))
        cov.update(c0)
    else:
        exprs = enumerate_expressions(ctx, cov)
        if cache:
            import pickle
            pickle.dump((exprs, dict(cov)), open(cache, "wb"))
    by_id = {e["id"]: e for e in exprs}
    ok = [e for e in exprs if e["st"] == "ok"]
    divzero = [e for e in exprs if e["st"] == "divzero"]
    undef = [e for e in exprs if e["st"] == "undef"]
    cov["expressions"] = {"total": len(exprs), "valued": len(ok), "divzero": len(divzero), "undefined_in_C": len(undef)}
    log(f"C16: {len(exprs)} expressions ({len(ok)} valued, {len(divzero)} /0, {len(undef)} undefined)")
    wild_bin()
    with scratch("c16") as d:
        obj = asm.write_asm(d, "t", ".globl _start\n.text\n_start:\n" + asm.EXIT_X86)

        import time
        T = [time.time()]

        def lap(what):
            T.append(time.time())
            log(f"C16: {what}: {T[-1] - T[-2]:.1f}s")

        shapes = {}
        for e in ok:
            shapes.setdefault(e["shape"], []).append(e)
        reps = [(s, es[0]) for s, es in sorted(shapes.items())]

        # ---- 2. the reference: GNU ld must agree with the spec on every valued expression it can parse
        ld_rej = set()
        for r in pmap(lambda ib: ld_rejected_shapes(d, obj, f"ldprobe{ib[0]}", ib[1]),
                      list(enumerate(chunks(reps, 120))), workers):
            ld_rej |= r
        lap("ld shape probe")
        unref = [e for e in ok if e["shape"] in ld_rej]
        ok = [e for e in ok if e["shape"] not in ld_rej]
        cov["no_reference"] = {"shapes_gnu_ld_cannot_parse": len(ld_rej), "expressions": len(unref),
                               "examples": sorted(ld_rej)[:4]}

        def ld_batch(ib):
            i, batch = ib
            return run_ld_script(d, obj, f"ref{i}", [eq_line(e, e["v"]) for e in batch])

        bad = set().union(*pmap(ld_batch, list(enumerate(chunks(ok, BATCH))), workers))
        if bad:
            ex = [by_id[int(n[1:])] for n in sorted(bad)[:5]]
            raise ToolError(f"specification disagrees with GNU ld on {len(bad)} expressions (spec error), e.g. "
                            + "; ".join(f"{e['text']} spec=0x{e['v']:x}" for e in ex))
        cov["gnu_ld_agrees_on"] = len(ok)
        lap("ld reference")
        # division by zero: GNU ld must refuse (pins the strict && || of the spec); sampled, one link each
        dz_ok = [e for e in divzero if shape_of(e["toks"]) not in ld_rej and "^" not in e["toks"]]
        dz = rng.sample(dz_ok, min(len(dz_ok), 12 if ctx.quick else 60))

        def ld_dz(e):
            p = d / f"dz{e['id']}.ld"
            p.write_text(assert_line(f"( {e['text']} ) == 0", "z0"))
            r = asm.gnu_ld([obj, "-T", p, "-o", d / f"dz{e['id']}.out"])
            if " by zero" not in r.err:
                raise ToolError(f"spec says division by zero, GNU ld does not: {e['text']}: {r.err[-300:]}")
            w = run_wild([obj, "-T", p, "-o", d / f"dzw{e['id']}.out"], wild=wild_bin())
            return w.klass()

        dzw = pmap(ld_dz, dz, workers)
        cov["divzero_checked_with_ld"] = len(dz)
        cov["divzero_wild_outcomes"] = {k: dzw.count(k) for k in set(dzw)}
        # anti-vacuity of the reference: the unsigned-division variant must be refuted by GNU ld
        udiff = [e for e in ok if e["alt"]["udiv"] != ("ok", e["v"]) and e["alt"]["udiv"][0] == "ok"]
        if not udiff:
            raise ToolError("no expression distinguishes signed from unsigned division: enumeration is vacuous")
        sample_u = udiff[:BATCH]
        refuted = run_ld_script(d, obj, "variant", [eq_line(e, e["alt"]["udiv"][1]) for e in sample_u])
        if len(refuted) != len(sample_u):
            raise ToolError(f"GNU ld accepted {len(sample_u) - len(refuted)} predictions of the wrong (unsigned /) variant")
        cov["variant_refuted_by_ld"] = {"unsigned-division": len(refuted)}
        pdiff = [e for e in ok if e["wp"] == "diff" and e["alt"]["wildprec"] != ("ok", e["v"])]
        cov["distinguishing"] = {"signed_vs_unsigned_div": len(udiff), "c_vs_wild_level_table": len(pdiff)}

        # ---- 3. wild: which shapes does it accept at all (a parse rejection hides the rest of a script)
        reps = [(s, e) for s, e in reps if s not in ld_rej]

        def probe(ib):
            i, batch = ib
            return run_wild_lines(d, obj, f"probe{i}", [(s, assert_line(f"( {e['text']} ) == 0 || 1", f"p{e['id']}"))
                                                        for s, e in batch])

        shape_res = {}
        for r in pmap(probe, list(enumerate(chunks(reps, 60))), workers):
            shape_res.update(r)
        lap("wild shape probe")
        rejected_shapes = {s for s, (o, _) in shape_res.items() if o == "parse-reject"}
        for s, (o, det) in shape_res.items():
            if o.startswith("crash"):
                e = shapes[s][0]
                ctx.verdict.report(f"{o}:{s}", f"wild crashed on expression `{e['text']}`: {det[-200:]}",
                                   lambda e=e: save_replay(PROP, f"crash-{e['id']}", files={
                                       "t.s": (d / "t.s").read_text(), "a.ld": assert_line(e["text"], "x")},
                                       meta={"cmd": "wild t.o -T a.ld -o out", "expr": e["text"]}))
        accepted = [e for e in ok if e["shape"] not in rejected_shapes]
        n_rej_by_shape = len(ok) - len(accepted)
        # rejection is by syntax: confirm on other members of rejected shapes
        others = [e for s in rejected_shapes for e in shapes[s][1:]]
        for e in rng.sample(others, min(len(others), 12 if ctx.quick else 48)):
            r = run_wild_lines(d, obj, f"rej{e['id']}", [(e["id"], eq_line(e, e["v"]))])
            if r[e["id"]][0] != "parse-reject":
                raise ToolError(f"shape {e['shape']} was rejected for one literal choice but not for `{e['text']}`")
        cov["wild_shapes"] = {"total": len(shapes), "parse_rejected": len(rejected_shapes),
                              "rejected_examples": sorted(rejected_shapes)[:6]}

        # ---- the replay proper.  The spec names, for each expression, the value under each wrong
        # variant; expressions on which a variant differs are grouped so that the (known) deviations of
        # the tree (wild's level table; formerly also unsigned `/`, now fixed) cost one link per group
        # instead of one link per expression: a group link that
        # asserts the VARIANT values and succeeds is a concrete observation "wild computes the variant
        # value, which differs from spec and GNU ld" for every member.
        VARIANTS = (("udiv", "div-unsigned"), ("wildprec", "prec-comparison-below-bitwise"),
                    ("wildprec_udiv", "prec-comparison-below-bitwise+div-unsigned"))

        def suspect_of(e):
            for variant, _ in VARIANTS:
                a = e["alt"][variant]
                if a[0] == "ok" and a[1] != e["v"]:
                    return variant
            return None

        # ALIGN(0): GNU ld accepts it, wild refuses it at evaluation time ("ALIGN(0) is invalid") = not
        # accepted by wild = outside the property; each refusal costs a link, so only a sample is run.
        az = [e for e in accepted if e["az"]]
        az_run = rng.sample(az, min(len(az), 6 if ctx.quick else 40))
        cov["align_of_zero"] = {"expressions": len(az), "replayed": len(az_run)}
        az_skip = {e["id"] for e in az} - {e["id"] for e in az_run}
        accepted = [e for e in accepted if e["id"] not in az_skip]
        groups = {None: []}
        for e in accepted:
            groups.setdefault(suspect_of(e), []).append(e)
        outcome = {}          # id -> (pass|fail|...reject|crash, detail)
        klass = {}            # id -> (key, observed value)

        def all_or_nothing(name, batch, valfn):
            p = d / f"{name}.ld"
            p.write_text("".join(eq_line(e, valfn(e)) for e in batch))
            r = run_wild([obj, "-T", p, "-o", d / f"{name}.out"] + WILD_FLAGS, timeout=120, wild=wild_bin())
            return r.rc == 0 and not r.timed_out

        def plain_batch(ib):
            i, batch = ib
            return run_wild_lines(d, obj, f"w{i}", [(e["id"], eq_line(e, e["v"])) for e in batch]), {}

        def suspect_batch(args):
            i, variant, key, batch = args
            if all_or_nothing(f"s-{variant}{i}a", batch, lambda e: e["alt"][variant][1]):
                return ({e["id"]: ("fail", "") for e in batch},
                        {e["id"]: (key, e["alt"][variant][1]) for e in batch})
            return run_wild_lines(d, obj, f"s-{variant}{i}", [(e["id"], eq_line(e, e["v"])) for e in batch]), {}

        jobs = [(plain_batch, ib) for ib in enumerate(chunks(groups[None], BATCH))]
        for variant, key in VARIANTS:
            jobs += [(suspect_batch, (i, variant, key, b)) for i, b in enumerate(chunks(groups.get(variant, []), BATCH))]
        for o, k in pmap(lambda j: j[0](j[1]), jobs, workers):
            outcome.update(o)
            klass.update(k)
        lap("wild replay")
        passed = [by_id[i] for i, (o, _) in outcome.items() if o == "pass"]
        failed = [by_id[i] for i, (o, _) in outcome.items() if o == "fail"]
        rejected = {i: o for i, (o, _) in outcome.items() if o.endswith("reject") or o.startswith("eval-reject")}
        crashed = [(by_id[i], o, det) for i, (o, det) in outcome.items() if o.startswith("crash")]
        for e, o, det in crashed:
            ctx.verdict.report(f"{o}:{e['shape']}", f"wild crashed on `{e['text']}`: {det[-200:]}",
                               lambda e=e: save_replay(PROP, f"crash-{e['id']}", files={
                                   "t.s": (d / "t.s").read_text(), "a.ld": eq_line(e, e["v"])},
                                   meta={"cmd": "wild t.o -T a.ld -o out", "expr": e["text"]}))
        log(f"C16: wild accepted {len(passed) + len(failed)}, rejected {n_rej_by_shape + len(rejected)}, "
            f"value mismatches {len(failed)}")

        # ---- name the class of the remaining mismatches by the variant value that wild does compute
        remaining = [e for e in failed if e["id"] not in klass]
        for variant, key in VARIANTS:
            cand = [e for e in remaining if e["alt"][variant][0] == "ok" and e["alt"][variant][1] != e["v"]]

            def cls_batch(ib, variant=variant):
                i, batch = ib
                return run_wild_lines(d, obj, f"cls-{variant}{i}",
                                      [(e["id"], eq_line(e, e["alt"][variant][1], "c")) for e in batch])

            got = {}
            for r in pmap(cls_batch, list(enumerate(chunks(cand, BATCH))), workers):
                got.update(r)
            for e in cand:
                if got.get(e["id"], ("", ""))[0] == "pass":
                    klass[e["id"]] = (key, e["alt"][variant][1])
            remaining = [e for e in remaining if e["id"] not in klass]
        per_key = {}
        for e in failed:
            key, wv = klass.get(e["id"], (f"value-mismatch:{e['shape']}", None))
            per_key.setdefault(key, []).append((e, wv))
        for key, members in sorted(per_key.items()):
            e, wv = members[0]
            script = eq_line(e, e["v"])
            ctx.verdict.report(
                key,
                f"{len(members)} expressions, e.g. `{e['text']}`: spec and GNU ld give 0x{e['v']:x}, wild "
                + (f"gives 0x{wv:x}" if wv is not None else "gives another value"),
                lambda e=e, script=script, wv=wv, members=members: save_replay(PROP, f"expr-{e['id']}", files={
                    "t.s": (d / "t.s").read_text(), "a.ld": script,
                    "all.ld": "".join(eq_line(x, x["v"]) for x, _ in members[:200])},
                    meta={"cmd": "as --64 -o t.o t.s; wild t.o -T a.ld -o out   (and: ld t.o -T a.ld -o out.ld)",
                          "expression": e["text"], "expected": hex(e["v"]),
                          "observed": hex(wv) if wv is not None else "ASSERT failed (value unknown)",
                          "wild_parse_vs_C": e["wp"], "members_of_this_class": len(members)}))
        lap("classification")
        cov["mismatch_classes"] = {k: len(v) for k, v in per_key.items()}
        cov["mismatch_examples"] = {k: [e["text"] for e, _ in v[:3]] for k, v in per_key.items()}

        # ---- 4. ASSERT fails exactly when the expression is zero
        good = passed
        nonzero = [e for e in good if e["v"] != 0]
        zero = [e for e in good if e["v"] == 0]

        def truth_batch(ib):
            i, batch = ib
            return run_wild_lines(d, obj, f"nz{i}", [(e["id"], assert_line(e["text"], f"t{e['id']}")) for e in batch])

        nz_sample = nonzero if not ctx.quick else rng.sample(nonzero, min(len(nonzero), 4000))
        tr = {}
        for r in pmap(truth_batch, list(enumerate(chunks(nz_sample, BATCH))), workers):
            tr.update(r)
        for i, (o, _) in tr.items():
            if o != "pass":
                e = by_id[i]
                ctx.verdict.report(f"assert-nonzero-{o}:{e['shape']}",
                                   f"ASSERT({e['text']}) {o} although the value is 0x{e['v']:x} != 0",
                                   lambda e=e: save_replay(PROP, f"truth-{e['id']}", files={
                                       "t.s": (d / "t.s").read_text(), "a.ld": assert_line(e["text"], "t")},
                                       meta={"cmd": "wild t.o -T a.ld -o out", "expected": "link succeeds"}))
        lap("assert nonzero")
        z_sample = rng.sample(zero, min(len(zero), 40 if ctx.quick else 400))
        filler = [assert_line(e["text"], f"t{e['id']}") for e in nz_sample[:50] if tr.get(e["id"], ("",))[0] == "pass"]

        def zero_case(e):
            p = d / f"zero{e['id']}.ld"
            p.write_text("".join(filler) + assert_line(e["text"], f"t{e['id']}"))
            r = run_wild([obj, "-T", p, "-o", d / f"zero{e['id']}.out"] + WILD_FLAGS, timeout=60, wild=wild_bin())
            m = _ASSERT_RE.search(r.err)
            return e, (r.rc != 0 and m is not None and m.group(2) == f"t{e['id']}"), r

        for e, okz, r in pmap(zero_case, z_sample, workers):
            if not okz:
                ctx.verdict.report(f"assert-zero-not-failing:{e['shape']}",
                                   f"ASSERT({e['text']}) did not fail although the value is 0 (rc={r.rc} {r.err[-120:]!r})",
                                   lambda e=e: save_replay(PROP, f"zero-{e['id']}", files={
                                       "t.s": (d / "t.s").read_text(), "a.ld": assert_line(e["text"], "t")},
                                       meta={"cmd": "wild t.o -T a.ld -o out", "expected": "link fails with message t"}))
        lap("assert zero")
        cov["assert_truth"] = {"nonzero_must_link": len(nz_sample), "zero_must_fail": len(z_sample)}

        # ---- 5. binding demonstration: a corrupted expectation must be noticed on the real binary
        demo = []
        for e in good[:3]:
            r = run_wild_lines(d, obj, f"demo{e['id']}", [(e["id"], eq_line(e, e["v"] ^ 1))])
            demo.append({"expr": e["text"], "corrupted_expectation": hex(e["v"] ^ 1), "wild": r[e["id"]][0]})
            if r[e["id"]][0] != "fail":
                raise ToolError(f"binding demonstration failed: wild accepted a corrupted expectation for {e['text']}")
        cov["binding_demo"] = demo
        if os.environ.get("VERIF_C16_CORRUPT"):
            # self-test of the detection path (used once by hand): pretend the spec said v+1 for one expression
            e = good[int(os.environ["VERIF_C16_CORRUPT"]) % len(good)]
            r = run_wild_lines(d, obj, "selfcorrupt", [(e["id"], eq_line(e, (e["v"] + 1) % 2 ** 64))])
            if r[e["id"]][0] == "fail":
                ctx.verdict.report(f"value-mismatch:{e['shape']}", f"(injected) `{e['text']}` expected 0x{(e['v'] + 1) % 2 ** 64:x}",
                                   lambda: save_replay(PROP, "injected", files={"a.ld": eq_line(e, e["v"] + 1)}, meta={}))

    n_impl = len(passed) + len(failed)
    cov["traces_validated_against_impl"] = n_impl
    cov["wild_rejected_outside_property"] = n_rej_by_shape + len(rejected) + len(az_skip)
    cov["wild_eval_rejections"] = sorted({o for o in rejected.values() if o.startswith("eval-reject")})[:8]
    for e in (passed[:2] + failed[:2] + [x for x in ok if x["shape"] in rejected_shapes][:1]):
        cov["samples"].append({"expr": e["text"], "spec_value": hex(e["v"]),
                               "wild": outcome.get(e["id"], ("parse-reject",))[0], "gnu_ld": "agrees with spec"})
    cov["samples"] = trim_samples(cov["samples"], 5, 400)
    return {
        "level": "model_checking",
        "coverage": cov,
        "assumptions": [
            "GNU ld 2.40 (x86-64 build: shift counts taken mod 64 by the hardware) is the reference for the value",
            "ASSERTs at top level of a -T script: location counter 0, no symbols, no section functions",
            "wild's rejection of an expression is syntactic (decided per operator shape, re-checked on a sample)",
            "expressions are bounded: <= 2 (quick) / 3 (thorough) binary operators, the literal pools of the TLC config",
        ],
    }
