"""C17 - The exit status reflects whether the output was written.

Lifecycle.tla is model-checked exhaustively (every fault kind at every phase boundary x fork/no-fork
x threads x prior output x write modes): ExitZeroImpliesComplete, FaultImpliesNonZero hold on the
design; with CheckSignaled = FALSE TLC finds the exit-0-after-signal behaviour (anti-vacuity; the
defect repaired by the fix: commit).  Every enumerated scenario can be replayed into the real binary
through the cfg-guarded fault points; the observed top-level exit status must be one the model
admits for that scenario, and status 0 requires a complete output (compared byte-for-byte with a
fault-free link).  For a sample of the replays the hook trace of the worker (phase, protocol-scope and
fault events) is validated by TLC against Wild.tla: phases in order, scopes inside layout, nothing
after the fault - which also ties the fault points' placement to the model.  Wild.tla is model-checked too, and
links that succeed or fail on their own (undefined / duplicate symbol, missing input; fork / no-fork; 1-8
threads) are traced and validated against it together with the exit status their caller saw
(SuccessMeansFinished: status 0 only after `finished` was reached without an error).
"""
from vlib import lifecycle as lc

PROP = "C17"
META = {
    "ready": True,
    "level": "fault_enumeration",
    "technique": "TLA+ life-cycle model exhaustively checked by TLC; each enumerated (phase, fault kind, mode) behaviour replayed into the real binary via cfg-guarded fault points and compared with the model's admissible outcomes",
    "level_text": "All 13 phase boundaries x {error, panic, abort, SIGKILL, SIGSEGV, allocation failure} x fork/no-fork x single/multi-threaded x mmap/buffered output are enumerated by TLC from the life-cycle model, whose invariants ExitZeroImpliesComplete/FaultImpliesNonZero are checked exhaustively; the quick tier replays a seeded sample of those behaviours into the real wild binary, the thorough tier all of them.",
    "level_note": "Faults are placed by hooks (the fault itself is real: abort(), raise(SIGKILL/SIGSEGV), handle_alloc_error, Err propagation, panic!). OOM is the allocator's failure path, not memory pressure. Output completeness = byte equality with a fault-free link of the same inputs.",
    "engine": "tlc",
}


def select(s):
    return (not s["symlink"] and s["changeAt"] == "none" and s["holder"] == "none" and s["wopt"] == "default"
            and s["prior"] == "absent" and not s["shared"])


def judge(scn, adm, obs):
    out = []
    allowed_zero = {a["exitZero"] for a in adm}
    if obs["exitZero"] not in allowed_zero:
        if obs["exitZero"]:
            out.append((f"exit0-after-{scn['faultKind']}:{'fork' if scn['fork'] else 'nofork'}",
                        f"wild exited 0 although a {scn['faultKind']} fault hit the worker at {scn['faultAt']}"))
        else:
            out.append((f"nonzero-on-success:{scn['faultAt']}", f"wild exited {obs['rc']} where the model only admits success"))
    if obs["exitZero"] and obs["outClass"] != "complete":
        out.append((f"exit0-incomplete-output:{obs['outClass']}", f"exit status 0 but the output file is {obs['outClass']}"))
    return out


def run(ctx):
    cov = {}
    cov["anti_vacuity"] = [lc.anti_vacuity("mc/Lifecycle_noCheckSignaled.cfg", "ExitZeroImpliesComplete")]
    cov["pipeline_model"] = lc.pipeline_model()
    lc.natural_links(ctx, PROP, cov)
    lc.replay(ctx, PROP, select, judge, n_quick=160, n_thorough=2000, cov=cov, trace_sample=16 if ctx.quick else 100)
    return {"level": "fault_enumeration", "coverage": lc.generic_cov(cov),
            "assumptions": ["fault points placed by hooks; fault kinds are the real mechanisms",
                            "hard faults are injected in the worker process; the parent is never the target"]}
