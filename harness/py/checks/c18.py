"""C18 - A failed link leaves no output file produced by that link.

Lifecycle.tla (FailureLeavesNoOutput, exhaustively checked on the intended design; violated by TLC
when CleanupOnFailure = FALSE).  Replay: (a) hook-placed error/panic faults at every phase boundary
of the link x prior output {absent, file} x write modes x threads x fork, (b) links that succeed but whose inputs were
modified while they ran (the failure comes after the complete output was written), (c) natural failures that
need no hook (undefined symbol, duplicate symbol, failing ASSERT in a linker script, relocation
overflow, missing input).  After every process of the link has exited the output path must hold
nothing, or the previous file untouched (same inode, same bytes).
"""
import os
import shutil

from vlib import asm, lifecycle as lc
from vlib.common import run_wild, save_replay, scratch

PROP = "C18"
META = {
    "ready": True,
    "level": "fault_enumeration",
    "technique": "TLA+ life-cycle model checked by TLC (FailureLeavesNoOutput); enumerated failure points replayed into the real binary (hook-placed errors/panics and natural link failures) with a before/after snapshot of the output path",
    "level_text": "Every phase boundary x {error, panic} x prior output {absent, existing file} x write mode {default, --update-in-place, --no-update-in-place} x {executable, shared} x threads x fork is enumerated from the model; a seeded sample (all in thorough) is replayed into the real binary and the output path classified (absent / old inode untouched / zero-filled / partial / complete). Links whose input is really modified at a pause point after each phase (failure after a complete write) are replayed the same way. Natural failures (undefined/duplicate symbol, ASSERT, overflow, missing input) are run without any hook.",
    "level_note": "Asynchronous kills are outside the property's quantifier (errors) and are not judged here. 'Untouched' = same inode and same bytes as before the link.",
    "engine": "tlc",
}


def select(s):
    return (not s["symlink"] and s["changeAt"] == "none" and s["holder"] == "none" and s["faultAt"] != "none"
            and s["faultKind"] in ("error", "panic")
            and lc.PHASES.index(s["faultAt"]) <= lc.PHASES.index("written"))


def select_changed(s):
    """The link itself succeeds, but an input it read was modified meanwhile: verify_inputs_unchanged fails AFTER the
    complete output was written (InputsChangedError in Lifecycle.tla) - still a failed link."""
    return not s["symlink"] and s["changeAt"] != "none" and s["holder"] == "none"


def judge(scn, adm, obs):
    out = []
    if obs["exitZero"]:
        return out          # C17's / C20's business
    allowed = {(a["outClass"], a["outInode"]) for a in adm if not a["exitZero"]}
    got = (obs["outClass"], obs["outInode"])
    if got not in allowed:
        stage = lc.stage_of(scn) if scn["changeAt"] == "none" else "input-changed"
        what = f"{scn['faultKind']} at {scn['faultAt']}" if scn["changeAt"] == "none" else f"input modified after '{scn['changeAt']}'"
        out.append((f"leaves-{obs['outClass']}:{stage}:prior-{scn['prior']}",
                    f"failed link ({what}) left a {obs['outClass']} file ({obs['outInode']} inode) at the output path; admissible: {sorted(allowed)}"))
    return out


NATURAL = {
    "undefined-symbol": ('.globl _start\n_start: call missing_fn\n', []),
    "duplicate-symbol": ('.globl _start\n_start: ret\n.globl foo\nfoo: ret\n', []),
    "assert": ('.globl _start\n_start: ret\n', ["script"]),
    "overflow": ('.globl _start\n_start: movl $big_abs, %eax\nret\n', ["--defsym=big_abs=0x123456789"]),
    "missing-input": ('.globl _start\n_start: ret\n', ["does-not-exist.o"]),
}


def natural_failures(ctx, cov):
    ws_objs = None
    n = 0
    with scratch("c18n") as d:
        foo = asm.write_asm(d, "foo", '.globl foo\nfoo: ret\n')
        for kind, (src, extra) in NATURAL.items():
            for prior in ("absent", "file"):
                for threads in (1, 4):
                    sub = d / f"{kind}-{prior}-{threads}"
                    sub.mkdir()
                    o = asm.write_asm(sub, "main", src)
                    args = [str(o)]
                    if kind == "duplicate-symbol":
                        args += [str(foo)]
                    for e in extra:
                        if e == "script":
                            (sub / "a.ld").write_text('ASSERT(0, "verif: always fails")\n')
                            args += ["-T", str(sub / "a.ld")]
                        else:
                            args.append(e)
                    out = sub / "out"
                    prior_bytes = prior_ino = None
                    if prior == "file":
                        out.write_bytes(b"#!/bin/sh\necho previous output\n" * 40)
                        prior_bytes, prior_ino = out.read_bytes(), os.stat(out).st_ino
                    args += ["-o", str(out), f"--threads={threads}"]
                    import subprocess, time
                    p = subprocess.Popen([str(lc.build_wild())] + args, stdout=subprocess.PIPE, stderr=subprocess.PIPE,
                                         start_new_session=True, cwd=sub)
                    try:
                        so, se = p.communicate(timeout=60)
                    except subprocess.TimeoutExpired:
                        os.killpg(p.pid, 9)
                        so, se = p.communicate()
                    lc.wait_session_gone(p.pid, 20)
                    n += 1
                    if p.returncode == 0:
                        # not a failing link after all (e.g. the linker accepted it): nothing to judge
                        continue
                    cls, ino = lc.classify(out, b"\x00never", prior_bytes, prior_ino)
                    ok = cls == "absent" or (cls == "old" and ino == "old")
                    if not ok:
                        ctx.verdict.report(
                            f"natural:{kind}:leaves-{cls}:prior-{prior}",
                            f"link failing with {kind} (exit {p.returncode}) left a {cls} file ({ino} inode, {os.path.getsize(out)} bytes) at the output path",
                            lambda: save_replay(PROP, f"natural-{kind}-{prior}-{threads}", sub,
                                                meta={"args": args, "rc": p.returncode, "stderr": se.decode()[-400:], "class": cls}))
    cov["natural_failures_run"] = n


def run(ctx):
    cov = {}
    cov["anti_vacuity"] = [lc.anti_vacuity("mc/Lifecycle_noCleanupOnFailure.cfg", "FailureLeavesNoOutput")]
    lc.replay(ctx, PROP, select, judge, n_quick=160, n_thorough=3000, cov=cov)
    cov2 = {}
    lc.replay(ctx, PROP, select_changed, judge, n_quick=48, n_thorough=1500, cov=cov2)
    cov["changed_input_scenarios_in_model"] = cov2["scenarios_in_model"]
    cov["changed_input_scenarios_replayed"] = cov2["traces_validated_against_impl"]
    cov["traces_validated_against_impl"] += cov2["traces_validated_against_impl"]
    natural_failures(ctx, cov)
    cov = lc.generic_cov(cov)
    cov["evaluations"] += cov["natural_failures_run"]
    return {"level": "fault_enumeration", "coverage": cov,
            "assumptions": ["error/panic faults only (the property's quantifier); kills judged by C17 only"]}
