"""C19 - A link touches only its declared outputs.

Lifecycle.tla: OnlyDeclaredTouched (sibling file whose name resembles the output's is intact, no
temporary left) holds on the intended design and is violated by TLC with UniqueTemp = FALSE (the old
output renamed to <stem>.delete).  Replay: real links in a populated directory (a sibling
<stem>.delete, <output>.tmp, the inputs) x prior output x write modes x executable/shared x
success / error / panic; directory snapshot (inode, size, sha256, mode) before and after every
process of the link has exited.  Plus two concurrent links with the same stem in one directory.
"""
import os
import shutil
import subprocess

from vlib import lifecycle as lc
from vlib.common import save_replay, scratch

PROP = "C19"
META = {
    "ready": True,
    "level": "fault_enumeration",
    "technique": "TLA+ life-cycle/file-system model checked by TLC (OnlyDeclaredTouched); enumerated scenarios replayed into the real binary with directory snapshots before/after",
    "level_text": "prior output x write mode x output kind x threads x fork x {success, error, panic at each phase} enumerated from the model; each replayed link runs in a directory holding look-alike siblings (<stem>.delete, <output>.tmp) and private copies of the inputs; every path other than the output must have the same inode, size, sha256 and mode afterwards and no new path may exist. Two simultaneous links of lib.so / lib.o-style same-stem outputs are run in one directory.",
    "level_note": "Side files are not requested in these scenarios, so the declared set is {output}. Snapshots are taken after every process in the link's session has exited.",
    "engine": "tlc",
}


def select(s):
    return (not s["symlink"] and s["changeAt"] == "none" and s["holder"] == "none"
            and (s["faultAt"] == "none" or s["faultKind"] in ("error", "panic")))


def judge(scn, adm, obs):
    out = []
    if obs["sibling"] != "intact":
        out.append(("sibling-stem.delete-clobbered",
                    "the unrelated file <stem>.delete next to the output was overwritten/removed (old output is renamed to path.with_extension(\"delete\"))"))
    others = [t for t in obs["touched"] if not t.endswith(".delete")]
    import re as _re
    if others:
        names = sorted({_re.sub(r"\.\d+\.wild-delete$", ".<pid>.wild-delete", os.path.basename(t)) for t in others})
        out.append((f"touched-undeclared:{'|'.join(names)[:60]}",
                    f"paths other than the declared outputs changed or appeared: {others}"))
    return out


def concurrent_same_stem(ctx, cov):
    """Two links writing lib.so and lib.bin (same stem) in one directory at the same time."""
    n = 0
    with scratch("c19c") as d:
        ws = lc.Workspace(d / "ws")
        for rep in range(3 if ctx.quick else 20):
            sub = d / f"c{rep}"
            sub.mkdir()
            outs = [sub / "lib.so", sub / "lib.bin"]
            shutil.copy(ws.prior_so, outs[0])
            shutil.copy(ws.prior_exe, outs[1])
            cmds = [[str(lc.build_wild()), *map(str, ws.new), "-shared", "-o", str(outs[0]), "--no-update-in-place"],
                    [str(lc.build_wild()), *map(str, ws.new), "-o", str(outs[1]), "--no-update-in-place"]]
            env = dict(os.environ, WILD_VERIF_YIELD_SEED=str(ctx.seed * 100 + rep))
            ps = [subprocess.Popen(c, cwd=sub, env=env, stdout=subprocess.PIPE, stderr=subprocess.PIPE,
                                   start_new_session=True) for c in cmds]
            rcs = []
            for p in ps:
                try:
                    p.communicate(timeout=60)
                except subprocess.TimeoutExpired:
                    os.killpg(p.pid, 9)
                    p.communicate()
                rcs.append(p.returncode)
                lc.wait_session_gone(p.pid, 20)
            n += 1
            names = sorted(os.listdir(sub))
            ok_so = rcs[0] == 0 and outs[0].exists() and outs[0].read_bytes() == ws.reference({"shared": True})
            ok_exe = rcs[1] == 0 and outs[1].exists() and outs[1].read_bytes() == ws.reference({"shared": False})
            if not (ok_so and ok_exe) or names != ["lib.bin", "lib.so"]:
                ctx.verdict.report(
                    "concurrent-same-stem-collision",
                    f"two simultaneous links with outputs lib.so and lib.bin interfered: rcs={rcs} files={names} so_ok={ok_so} exe_ok={ok_exe}",
                    lambda: save_replay(PROP, f"concurrent-{rep}", sub, meta={"cmds": cmds, "rcs": rcs, "files": names}))
    cov["concurrent_pairs_run"] = n


def run(ctx):
    cov = {}
    cov["anti_vacuity"] = [lc.anti_vacuity("mc/Lifecycle_noUniqueTemp.cfg", "OnlyDeclaredTouched")]
    lc.replay(ctx, PROP, select, judge, n_quick=160, n_thorough=3000, cov=cov)
    concurrent_same_stem(ctx, cov)
    cov = lc.generic_cov(cov)
    cov["evaluations"] += cov["concurrent_pairs_run"]
    return {"level": "fault_enumeration", "coverage": cov,
            "assumptions": ["declared outputs = the -o path only (no side files requested in these scenarios)"]}
