"""C20 - Inputs changed during a link make the link fail.

Lifecycle.tla: ModifyInput (the environment changes an input the link has read, at any phase
boundary up to the end of writing) and ChangedInputImpliesError, checked exhaustively.  Replay: the
real link is stopped at the chosen boundary by a cfg-guarded pause point; the driver modifies one
input - object, archive, thin archive (the index file or a member), linker script, file named by a
linker script - by rewrite-in-place, append, replace-by-rename or touch (always with a strictly
newer mtime, as a compiler or editor would leave), releases the link and requires a non-zero exit.
"""
import os
import random
import shutil
from concurrent.futures import ThreadPoolExecutor

from vlib import asm, lifecycle as lc
from vlib.common import save_replay, scratch, trim_samples

PROP = "C20"
META = {
    "ready": True,
    "level": "fault_enumeration",
    "technique": "TLA+ life-cycle model with an environment action that modifies inputs, checked by TLC (ChangedInputImpliesError); each (input kind, modification kind, instant) replayed into the real binary through cfg-guarded pause points",
    "level_text": "modification instants = every phase boundary from 'loaded' to 'written' (10), input kinds = object, archive, thin-archive index, thin-archive member, linker script given with -T, file named by INPUT() in a script (6), modification kinds = rewrite, append, replace-by-rename, touch, replace-by-rename with an older file, rewrite-and-backdate (6), x fork/no-fork: the model enumerates the instants, the harness crosses them with kinds; quick replays a seeded sample, thorough the full product.",
    "level_note": "Modifications always change the mtime (>= 50 ms later, or 2 s earlier for the 'older' kinds); a modification that restores the identical mtime is out of scope. Rewrites keep the length so the mapped input cannot SIGBUS; a modification after the final re-verification cannot be detected by any design and is not generated.",
    "engine": "tlc",
}

KINDS = ["object", "archive", "thin-index", "thin-member", "script-T", "script-input"]
MODS = ["rewrite", "append", "rename", "touch", "rename-older", "backdate"]


def modifier(target, mod):
    def f(_inputs, d):
        p = target
        st = os.stat(p)
        data = p.read_bytes()
        if mod == "rewrite":
            with open(p, "r+b") as fh:
                fh.write(data)
        elif mod == "append":
            with open(p, "ab") as fh:
                fh.write(b"\n")
        elif mod == "rename":
            t = p.with_name(p.name + ".new")
            t.write_bytes(data)
            os.replace(t, p)
        if mod == "rename-older":
            # the path is replaced by a different file with an OLDER mtime (mv foo.o.prev foo.o,
            # a restore from a cache that preserves times)
            t = p.with_name(p.name + ".prev")
            t.write_bytes(data)
            os.utime(t, ns=(st.st_atime_ns, st.st_mtime_ns - 2_000_000_000))
            os.replace(t, p)
        elif mod == "backdate":
            with open(p, "r+b") as fh:
                fh.write(data)
            os.utime(p, ns=(st.st_atime_ns, st.st_mtime_ns - 2_000_000_000))
        else:
            os.utime(p, ns=(st.st_atime_ns, st.st_mtime_ns + 50_000_000))
        return {str(p.relative_to(d))}
    return f


def setup_inputs(ws, d, kind):
    """Create the extra inputs for `kind` in d; returns (extra_args, target_path)."""
    d.mkdir(parents=True, exist_ok=True)
    ex = asm.write_asm(d, "extra", '.globl extra_fn\n.section .text.extra,"ax",@progbits\nextra_fn: ret\n')
    if kind == "object":
        return [str(ex)], ex
    if kind == "archive":
        a = asm.archive(d / "libx.a", [ex])
        return ["--whole-archive", str(a), "--no-whole-archive"], a
    if kind in ("thin-index", "thin-member"):
        a = asm.archive(d / "libthin.a", [ex], thin=True)
        return ["--whole-archive", str(a), "--no-whole-archive"], (a if kind == "thin-index" else ex)
    if kind == "script-T":
        s = d / "extra.ld"
        s.write_text("verif_sym = 0x1234;\n")
        return ["-T", str(s)], s
    if kind == "script-input":
        s = d / "inputs.ld"
        s.write_text(f"INPUT({ex})\n")
        return [str(s)], ex
    raise ValueError(kind)


def run(ctx):
    cov = {}
    res, by = lc.model_outcomes()
    cov["states"], cov["transitions"] = res.distinct, res.generated
    instants = sorted({k[lc.SCN_KEYS.index("changeAt")] for k in by} - {"none"}, key=lc.PHASES.index)
    # every admissible outcome of a changed-input scenario is a failure in the model
    for k, adm in by.items():
        if k[lc.SCN_KEYS.index("changeAt")] != "none" and any(a["exitZero"] for a in adm):
            raise lc.ToolError("model admits success after an input changed")
    rng = random.Random(ctx.seed)
    combos = [(i, k, m, f) for i in instants for k in KINDS for m in MODS for f in (True, False)]
    rng.shuffle(combos)
    if ctx.quick:
        # make sure every kind x mod pair and every instant appears
        chosen, seen = [], set()
        for c in combos:
            key1, key2 = (c[1], c[2]), c[0]
            if key1 not in seen or key2 not in seen:
                chosen.append(c)
                seen.add(key1)
                seen.add(key2)
        chosen += combos[:60]
        chosen = chosen[:110]
    else:
        chosen = combos
    lc.build_wild()
    samples = []
    with scratch("c20") as d:
        ws = lc.Workspace(d / "ws")

        def one(ic):
            i, (instant, kind, mod, fork) = ic
            rd = d / f"r{i}"
            extra, target = setup_inputs(ws, rd, kind)
            scn = {"fork": fork, "multi": bool(i % 2), "prior": "absent", "shared": False, "wopt": "default",
                   "mmapOut": True, "holder": "none", "faultAt": "none", "faultKind": "error", "symlink": False, "reapable": True, "changeAt": instant}
            obs = lc.run_scenario(ws, scn, rd, modify=modifier(target, mod), extra_args=extra)
            return (instant, kind, mod, fork), scn, obs, rd

        with ThreadPoolExecutor(max_workers=8) as ex:
            results = list(ex.map(one, list(enumerate(chosen))))
        for (instant, kind, mod, fork), scn, obs, rd in results:
            if obs["modified"] is None:
                raise lc.ToolError(f"pause point {instant} was never reached (rc={obs['rc']} {obs['stderr'][-200:]})")
            if obs["exitZero"]:
                ctx.verdict.report(
                    f"undetected-change:{kind}",
                    f"{kind} modified ({mod}) after the link passed '{instant}' but wild exited 0",
                    lambda: save_replay(PROP, f"{kind}-{mod}-{instant}-{rd.name}", rd,
                                        meta={"instant": instant, "kind": kind, "mod": mod, "fork": fork, "observed": obs}))
            if len(samples) < 4:
                samples.append({"instant": instant, "input_kind": kind, "modification": mod, "fork": fork,
                                "rc": obs["rc"], "stderr": obs["stderr"][-160:]})
            shutil.rmtree(rd, ignore_errors=True)
    cov["traces_validated_against_impl"] = len(results)
    cov["evaluations"] = len(results)
    cov["distinct_nontrivial"] = len({r[0] for r in results})
    cov["rule"] = "distinct (instant, input kind, modification kind, fork) tuples; every one modifies a file the link has read"
    cov["samples"] = trim_samples(samples, 4, 800)
    cov["exhaustive"] = not ctx.quick
    return {"level": "fault_enumeration", "coverage": cov,
            "assumptions": ["every modification changes the mtime (newer, or older for the rename-older/backdate kinds)", "pause points placed by hooks; the modification is real"]}
