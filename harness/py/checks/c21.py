"""C21 - Relinking never alters a running program or loaded library.

Lifecycle.tla distinguishes path from inode: HeldInodeNeverWritten holds for every default-option
relink while another process executes (ETXTBSY on open-for-write) or has mapped (no ETXTBSY) the
previous output.  Replay: the previous output (linked by GNU ld) is really being executed, or really
mapped MAP_PRIVATE by a helper process, while wild relinks different contents over it; the holder's
view (/proc/<pid>/exe bytes, resp. the checksum of its mapping) must not change, for every write
mode the model admits, and --update-in-place on a busy executable must fail rather than modify.
"""
from vlib import lifecycle as lc

PROP = "C21"
META = {
    "ready": True,
    "level": "exploration",
    "technique": "TLA+ file-system model (path vs inode, ETXTBSY) checked by TLC; enumerated holder/write-mode scenarios replayed against a really running / really mapped previous output",
    "level_text": "holder {execve'd, mmap'd} x write option {default, --update-in-place, --no-update-in-place} x threads x fork x mmap/buffered output x fault-free and faulty relinks are enumerated from the model; in each replay the previous output is held by a live process and its view is checksummed before and after the relink.",
    "level_note": "x86-64 Linux only; 'mapped as a shared library' is modelled by a MAP_PRIVATE read-only mapping of the whole file (what ld.so does for the text segment), not by dlopen.",
    "engine": "tlc",
}


def select(s):
    return s["holder"] != "none" and s["changeAt"] == "none" and (s["faultAt"] == "none" or s["faultKind"] in ("error", "kill"))


def judge(scn, adm, obs):
    out = []
    model_written = {a["oldWritten"] for a in adm}
    if obs["holder_unchanged"] is False:
        if scn["wopt"] == "default" or model_written == {False}:
            out.append((f"holder-bytes-changed:{scn['holder']}:{scn['wopt']}",
                        f"the bytes seen by the process that has the previous output {scn['holder']}'d changed during the relink"))
    if obs.get("link_target_unchanged") is False and (scn["wopt"] == "default" or model_written == {False}):
        out.append((f"symlink-target-rewritten:{scn['holder']}:{scn['wopt']}",
                    "the output path is a symlink to the previous output; the relink rewrote the file the link points to instead of replacing the link"))
    if scn["holder"] == "exec" and scn["wopt"] == "inplace" and scn["faultAt"] == "none" and obs["exitZero"]:
        # explicit in-place update of a running executable must not succeed by modifying it
        if obs["outInode"] == "old":
            out.append(("inplace-update-of-running-executable-succeeded", "--update-in-place modified a file that is being executed"))
    return out


def run(ctx):
    cov = {}
    lc.replay(ctx, PROP, select, judge, n_quick=120, n_thorough=1500, cov=cov)
    cov = lc.generic_cov(cov)
    return {"level": "exploration", "coverage": cov,
            "assumptions": ["mapping = MAP_PRIVATE PROT_READ of the whole previous output", "x86-64 only"]}
