"""C22 - Malformed input produces a diagnostic, never a crash/hang.

1. TLC (specs/Robust.tla): the outcome oracle (Classify / Allowed, sanity-checked over all observation
   shapes; NothingForbidden must be violated) and the full descriptor product
   carrier x locus x mutation (5 804 descriptors) which TLC enumerates and exports.
2. Binding R: every descriptor is applied (vlib/mutate.py) to a valid seed input of its carrier - object,
   shared object, archive, thin archive, linker script, version script, export list, response file,
   argument list (expanded over every option `wild --help` lists) - the seed commands must link
   unmutated.  Each case runs the real wild with --no-fork and forked, --threads=1, under a 20 s
   timeout (a timeout is re-tried once with 60 s before it counts as a hang) and is classified by
   ShResult.klass() + the message rule.
3. Forbidden outcomes are reported with a key that names the specific site:
   panic@<file>:<line> (from the panic message), signal<N>@<carrier>:<locus>, hang@..., silent@...
   Sites listed in KNOWN_FINDINGS.txt (findings/C22-*.md, reproducers in findings/C22-repro/) print
   KNOWN-FINDING; any other site is a VIOLATION.
Quick runs a seeded sample of the product within a time budget, thorough the whole product.
"""
import os
import random
import re
import shutil
import time
from concurrent.futures import ThreadPoolExecutor
from pathlib import Path

from vlib import mutate, tlc
from vlib.common import REPO, ToolError, build_wild, log, save_replay, scratch, sh, trim_samples

PROP = "C22"
META = {
    "ready": True,
    "level": "exploration",
    "technique": "TLA+ outcome oracle plus a TLC-enumerated mutation grammar (carrier x locus x mutation); every descriptor applied to valid seed inputs and run through the real wild (forked and --no-fork) under a hard timeout, outcomes classified and panic sites extracted",
    "level_text": "TLC enumerates the full product of 9 carriers x structural loci (ELF header / section header / symbol / relocation / group / note / eh_frame / compressed header / merge fields, program headers, dynamic entries, version tables, GNU hash header, archive header fields and symbol table, thin-archive member paths, token positions of four text formats, every command-line option) x mutations (0, 1, -1, max, bound-1, bound, bound+1, swap with neighbour, truncate here; token deletions/insertions, unbalanced braces/quotes/comments, huge numbers, non-UTF-8, replacement of a name by every other word of the same text (self / forward / cyclic references between version nodes, sections, symbols - this class is always run in full, also in quick); missing/empty/garbage parameters, @file recursion). The harness applies each descriptor to a seed that links unmutated and requires Outcome in {Success, Diagnostic(exit != 0 and a message)} and termination, in both process modes. Quick: seeded sample within a time budget; thorough: the whole product.",
    "level_note": "This is robustness fuzzing with a model-derived, systematically enumerated corpus, not model checking: the specification contributes the outcome oracle and the locus x mutation enumeration. One seed per carrier, x86-64 only, --threads=1 for reproducible panic sites, single-field mutations only (no byte-level havoc); SHT_SYMTAB_SHNDX has no seed (counted as unsupported). The wild binary is a debug build, so arithmetic-overflow checks count as panics.",
    "engine": "tlc",
}

TIMEOUT = 20
ENV = {"WILD_VALIDATE_OUTPUT": "0", "RUST_BACKTRACE": "1"}


def panic_site(err):
    m = re.search(r"panicked at ([^\s:]+):(\d+):\d+", err)
    if not m:
        return None
    path, line = m.group(1), m.group(2)
    if "/registry/src/" in path:
        path = path.split("/registry/src/", 1)[1].split("/", 1)[1]
    elif path.startswith("/rustc/"):
        path = "rustc:" + path.split("/", 3)[3]
    elif path.startswith("/repo/"):
        path = path[len("/repo/"):]
    return f"{path}:{line}"


_FRAME_RE = r"^\s+at (?:/repo/|\./|" + re.escape(str(REPO)) + r"/)([^\s:]+):(\d+)(?::\d+)?\s*$"   # REPO differs from /repo only when a seeded change is tried in a scratch worktree
REPO_DIRS = ("libwild/", "linker-utils/", "wild/", "linker-diff/", "linker-layout/", "linker-trace/")


def first_repo_frame(err):
    """First backtrace frame whose source is in the repository (RUST_BACKTRACE=1, debug build)."""
    for m in re.finditer(_FRAME_RE, err, re.M):
        f = m.group(1)
        if f.startswith("src/"):
            continue
        if f.startswith(REPO_DIRS):
            return f"{f}:{m.group(2)}"
    return None


def frame_function(err, loc):
    """Name of the function of the backtrace frame located at `loc` (repo-relative file:line)."""
    lines = err.splitlines()
    for i, ln in enumerate(lines):
        m = re.match(_FRAME_RE, ln)
        if m and f"{m.group(1)}:{m.group(2)}" == loc and i > 0:
            f = re.sub(r"^\s*\d+:\s*", "", lines[i - 1]).strip()
            f = re.sub(r"::\{\{closure\}\}", "", f)
            f = re.sub(r"::h[0-9a-f]{16}$", "", f)
            return re.sub(r"\s+", "", f) or None
    return None


_ALIASES = None


def aliases():
    """KNOWN_FINDINGS.txt lines of C22 may carry `fn=<function>`: the same panic site is then recognised
    after unrelated edits have shifted its line number (the listed key keeps the line it was found at)."""
    global _ALIASES
    if _ALIASES is None:
        _ALIASES = {}
        p = Path(__file__).resolve().parents[3] / "KNOWN_FINDINGS.txt"
        for line in p.read_text().splitlines():
            m = re.match(r"finding: property=C22 key=(\S+) .*\bfn=(\S+) msg=(\S+)", line)
            if m:
                key = m.group(1)
                _ALIASES[(re.sub(r":\d+$", "", key), m.group(2), m.group(3))] = key
    return _ALIASES


def msg_kind(err):
    """The panic message with numbers abstracted (distinguishes several sites within one function)."""
    m = re.search(r"panicked at [^\n]*\n([^\n]*)", err)
    t = re.sub(r"\d+", "N", m.group(1) if m else "")
    return re.sub(r"[^A-Za-z]+", "_", t)[:30].strip("_") or "none"


def locus_str(c):
    return c["carrier"] + ":" + ".".join(str(x) for x in c["locus"]) + (":" + c["label"] if c.get("label") else "")


def classify(r):
    k = r.klass()
    if k == "diagnostic" and not (r.err.strip() or r.out.strip()):
        return "silent-failure"
    return k


def run_modes(wild, argv, cwd):
    """Both process modes. Returns list of (mode, class, ShResult)."""
    out = []
    for mode, extra in (("no-fork", ["--no-fork"]), ("forked", [])):
        r = sh([wild] + extra + argv, cwd=cwd, timeout=TIMEOUT, env=ENV)
        if r.timed_out:
            r = sh([wild] + extra + argv, cwd=cwd, timeout=60, env=ENV)
        out.append((mode, classify(r), r))
        for f in ("out", "out.so"):
            try:
                os.unlink(os.path.join(cwd, f))
            except OSError:
                pass
    return out


def place(seeds, names, d):
    for n in names:
        src = seeds[n] if n in seeds else seeds["seed.o"].parent / n
        try:
            os.link(src, d / n)
        except OSError:
            shutil.copy(src, d / n)


def expand(descs, seeds, forms):
    """Descriptors -> concrete cases. Returns (cases, unsupported_count)."""
    cases, unsupported = [], 0
    seed_bytes = {k: v.read_bytes() for k, v in seeds.items() if v.is_file()}
    for c in descs:
        carrier, locus, mut = c["carrier"], c["locus"], c["mutation"]
        files, argv, target = mutate.CARRIER_CMD[carrier]
        if carrier in ("object", "shared_object"):
            data = mutate.mutate_elf(seed_bytes[target], carrier, locus, mut)
        elif carrier in ("archive", "thin_archive") and locus[0] == "ar":
            data = mutate.mutate_archive(seed_bytes[target], locus, mut)
        elif carrier == "thin_archive":
            cases.append(dict(c, files=files, argv=["--threads=1"] + argv, thin_extra=locus[1]))
            continue
        elif carrier == "argv":
            cases.append(dict(c, files=files, argv=None))
            continue
        else:
            data = mutate.mutate_text(seed_bytes[target], locus, mut)
        if data is None:
            unsupported += 1
            continue
        pre = [] if carrier == "response_file" else ["--threads=1"]
        cases.append(dict(c, files=files, argv=pre + argv, target=target, data=data))
    return cases, unsupported


def run_case(i, c, d, seeds, forms, wild):
    """-> list of (case-with-label, mode, class, ShResult, case_dir, argv)."""
    res = []
    if c["carrier"] == "argv":
        sub = d / f"c{i}"
        sub.mkdir()
        place(seeds, c["files"], sub)
        base = ["--threads=1", "seed.o", "aux.o", "-o", "out"]
        for label, argv in mutate.argv_cases(base, forms, c["locus"][1], c["mutation"], sub):
            for mode, k, r in run_modes(wild, argv, sub):
                res.append((dict(c, label=f"{label.strip()}:{c['mutation']}"), mode, k, r, sub, argv))
        keep = any(k not in ("success", "diagnostic") for _, _, k, _, _, _ in res)
        if not keep:
            shutil.rmtree(sub, ignore_errors=True)
        return res
    sub = d / f"c{i}"
    sub.mkdir()
    place(seeds, c["files"], sub)
    if "thin_extra" in c:
        mutate.apply_thin_extra(sub, c["thin_extra"])
    else:
        t = sub / c["target"]
        t.unlink()
        t.write_bytes(c["data"])
    for mode, k, r in run_modes(wild, c["argv"], sub):
        res.append((c, mode, k, r, sub, c["argv"]))
    if all(k in ("success", "diagnostic") for _, _, k, _, _, _ in res):
        shutil.rmtree(sub, ignore_errors=True)
    return res


def where_str(c):
    """The class of input that failed, for outcomes that carry no source location."""
    if c["locus"][0] == "token":
        return f"{c['carrier']}:{c['mutation']}"           # not the token position
    if c["carrier"] == "argv":
        return f"argv:{c['mutation']}"                      # not the individual option
    return c["carrier"] + ":" + ".".join(str(x) for x in c["locus"])


def key_of(c, k, r):
    if k == "panic":
        site = panic_site(r.err)
        if not site:
            return f"panic-unlocated@{where_str(c)}"
        if not site.startswith(REPO_DIRS):
            # a panic inside a dependency / the standard library: name the wild frame that got there
            fr = first_repo_frame(r.err)
            key = f"panic@{site}<-{fr}" if fr else f"panic@{site}"
            fn = frame_function(r.err, fr) if fr else None
        else:
            key = f"panic@{site}"
            fn = frame_function(r.err, site)
        return aliases().get((re.sub(r":\d+$", "", key), fn, msg_kind(r.err)), key) if fn else key
    if k.startswith("signal"):
        return f"{k}@{where_str(c)}"
    if k == "hang":
        return f"hang@{where_str(c)}"
    return f"silent@{where_str(c)}"


def run(ctx):
    cov = {"samples": []}
    rng = random.Random(ctx.seed)
    r = tlc.run_tlc("Robust", "mc/Robust_all.cfg", workers=4, timeout=600, coverage=False)
    if not r.ok:
        raise ToolError(f"Robust model check failed: {r.violated} {r.error_text}\n{r.trace_text[:1500]}")
    descs = r.records
    if len(descs) != r.distinct or len(descs) < 1000:
        raise ToolError(f"exported {len(descs)} descriptors, TLC found {r.distinct}")
    vac = tlc.run_tlc("Robust", "mc/Robust_vacuity.cfg", workers=2, timeout=300, coverage=False)
    if vac.ok:
        raise ToolError("anti-vacuity: NothingForbidden was not rejected")
    cov["states"], cov["transitions"] = r.distinct, r.generated
    cov["tlc_runs"] = [{"cfg": "mc/Robust_all.cfg", **r.summary()}, {"cfg": "mc/Robust_vacuity.cfg", "expected_violation": True}]
    wild = build_wild()
    with scratch("c22") as d:
        seeds = mutate.build_seeds(d / "seeds")
        h = sh([wild, "--help"], timeout=TIMEOUT)
        forms = mutate.parse_help(h.out + h.err)
        if len(forms) < 80:
            raise ToolError(f"could not parse the option list from --help ({len(forms)} forms)")
        # every seed command must link unmutated, in both modes
        for carrier, (files, argv, target) in mutate.CARRIER_CMD.items():
            sub = d / f"seedcheck-{carrier}"
            sub.mkdir()
            place(seeds, files, sub)
            for mode, k, rr in run_modes(wild, ([] if carrier == "response_file" else ["--threads=1"]) + argv, sub):
                if k != "success":
                    raise ToolError(f"seed for carrier {carrier} does not link unmutated ({mode}): {rr}")
        cases, unsupported = expand(descs, seeds, forms)
        cases.sort(key=lambda c: (c["carrier"], str(c["locus"]), c["mutation"]))
        rng.shuffle(cases)
        # always-run core, before the seeded sample: the cross-reference mutations of the text carriers (a small class
        # whose members are each a distinct structural situation - self / forward / cyclic reference, keyword as name)
        cases.sort(key=lambda c: 0 if str(c["mutation"]).startswith("xref-") else 1)
        cov["always_run_xref_cases"] = sum(1 for c in cases if str(c["mutation"]).startswith("xref-"))
        budget = int(os.environ.get("VERIF_C22_BUDGET", 110 if ctx.quick else 1500))
        results = []
        t0 = time.time()
        done = 0
        with ThreadPoolExecutor(max_workers=8) as ex:
            for lo in range(0, len(cases), 48):
                chunk = list(enumerate(cases))[lo:lo + 48]
                for rs in ex.map(lambda ic: run_case(ic[0], ic[1], d, seeds, forms, wild), chunk):
                    results += rs
                done = lo + len(chunk)
                if time.time() - t0 > budget and done >= cov["always_run_xref_cases"]:
                    break
        counts = {}
        keys = {}
        per_carrier = {}
        for c, mode, k, rr, sub, argv in results:
            kk = "signal" if k.startswith("signal") else k
            counts[kk] = counts.get(kk, 0) + 1
            per_carrier[c["carrier"]] = per_carrier.get(c["carrier"], 0) + 1
            if k in ("success", "diagnostic"):
                if len(cov["samples"]) < 3:
                    cov["samples"].append({"case": locus_str(c), "mutation": c["mutation"], "mode": mode, "outcome": k,
                                           "stderr": rr.err.strip()[-160:]})
                continue
            key = key_of(c, k, rr)
            first = key not in keys
            keys.setdefault(key, {"count": 0, "example": f"{locus_str(c)} {c['mutation']} ({mode})"})
            keys[key]["count"] += 1
            msg = re.search(r"panicked at [^\n]*\n?[^\n]*", rr.err)
            text = (f"{locus_str(c)} mutation {c['mutation']} ({mode}): outcome {k} rc={rr.rc} "
                    f"{(msg.group(0) if msg else rr.err.strip()[-200:])!r}")

            def mk(sub=sub, argv=argv, c=c, mode=mode, k=k, rr=rr, key=key):
                name = re.sub(r"[^A-Za-z0-9_.@-]+", "_", key)[:120]
                return save_replay(PROP, name, sub if sub.exists() else None, meta={
                    "cmd": ["wild"] + (["--no-fork"] if mode == "no-fork" else []) + argv, "cwd": "<this directory>",
                    "descriptor": {"carrier": c["carrier"], "locus": c["locus"], "mutation": c["mutation"], "label": c.get("label")},
                    "expected": "success or diagnostic (exit != 0 and a message), termination", "observed": k, "rc": rr.rc,
                    "stderr": rr.err[:1500]})
            ctx.verdict.report(key, text, mk)
            if first and len(cov["samples"]) < 8:
                cov["samples"].append({"case": locus_str(c), "mutation": c["mutation"], "mode": mode, "outcome": k,
                                       "key": key, "stderr": rr.err.strip()[-200:]})
        # binding demonstration: a corrupted observation (a panic text injected into a clean run) is classified as forbidden
        from vlib.common import ShResult
        fake = ShResult(1, "", "thread 'main' panicked at libwild/src/elf.rs:1:1:\nboom", False, 0.0)
        if classify(fake) != "panic" or panic_site(fake.err) != "libwild/src/elf.rs:1":
            raise ToolError("binding demo: an injected panic text was not classified as a panic")
        cov["binding_demo"] = {"injected_panic_classified": True}
    n_runs = len(results)
    cov["evaluations"] = n_runs
    cov["descriptors_total"] = len(descs)
    cov["concrete_cases_total"] = len(cases)
    cov["concrete_cases_run"] = done
    cov["descriptors_without_seed_locus_or_identity"] = unsupported
    cov["outcomes"] = counts
    cov["runs_per_carrier"] = per_carrier
    cov["forbidden_sites"] = keys
    cov["distinct_nontrivial"] = len({(locus_str(c), c["mutation"]) for c, _, _, _, _, _ in results})
    cov["rule"] = ("descriptors = carrier x locus x mutation enumerated by TLC from Robust.tla; a concrete case applies one "
                   "descriptor to the carrier's seed (argv descriptors are expanded over every option of --help); each case "
                   "is run forked and --no-fork (evaluations = runs); distinct non-trivial = distinct (locus, mutation) "
                   "cases run whose mutated input differs from the seed")
    cov["traces_validated_against_impl"] = n_runs
    cov["exhaustive"] = done >= len(cases)
    cov["samples"] = trim_samples(cov["samples"], 8, 700)
    if n_runs < 50:
        raise ToolError(f"only {n_runs} runs fitted in the budget")
    return {
        "level": "exploration",
        "coverage": cov,
        "assumptions": [
            "--threads=1 so that the panic site of a malformed input is reproducible",
            "a run that exceeds 20 s and then 60 s on re-try is a hang",
            "debug build of wild (overflow checks enabled)",
        ],
    }
