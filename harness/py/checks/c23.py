"""C23 - Size accounting never fails on valid input.

1. TLC, exhaustive: specs/Alloc.tla - two independent transcriptions, layout side
   (process_relocation, allocate_resolution) and writer side (write_absolute_relocation /
   write_address_relocation, process_resolution), compared per part (GOT, PLT-GOT, .rela.plt,
   .rela.dyn general / relative, .relr.dyn) over (a) the relocation-site product of Reloc.tla
   x parity of the offset in the input section x parity of the output address x "the file has
   another RELR reservation" and (b) the product of the ValueFlags bits the resolution functions
   test.  The RELR eligibility rule is the one of the tree (elf::relr_eligible: even offset in a
   section aligned >= 2, used by layout and writer).  The two sides agree everywhere except on two
   named open deviations; the strict invariant (no deviation allowed) must fail - it is the
   statement of the defects; the old RELR rule (layout by offset parity, writer by address parity,
   fixed in the tree) is kept as a variant that TLC must reject (mc/Alloc_oldrelr.cfg).
2. Replay: every sampled (quick) / every (thorough) site record is realised (pad / 1-aligned section
   after a 1-byte section for the parities, an extra aligned pointer for the sibling reservation)
   and linked by the real wild; the spec predicts exactly which links fail with an accounting error.
   A failure the spec did not predict, on an input GNU ld links, is a violation; predicted ones are
   the recorded findings.
3. .eh_frame: FDEs whose pc-begin designates an empty or non-empty, kept or collected section
   (Alloc.tla: layout reserves only for non-empty loaded sections, the writer keeps an FDE only
   under the same condition; the writer that ignores emptiness is a rejected variant), replayed for
   static / PIE / shared outputs x eh-frame-hdr on/off x option sets.
4. Option cross product over single-site programs of every output kind: pack-relative-relocs,
   hash-style, build-id, eh-frame-hdr, strip-all/debug, no-relax, export-dynamic.
Every link is judged by vlib.allocprobe.is_alloc_failure on wild's diagnostic.
"""
import itertools
import os
import json
import random
from concurrent.futures import ProcessPoolExecutor
from pathlib import Path

from vlib import allocprobe, relocgen as rg, relocrun as rr, tlc
from vlib.common import ToolError, build_wild, log, save_replay, scratch, trim_samples

PROP = "C23"
META = {
    "ready": True,
    "level": "model_checking",
    "technique": "TLA+ specification with two independent transcriptions (layout-side reservation vs writer-side consumption) compared exhaustively by TLC; the enumerated cases and an option cross product replayed into the real linker, whose diagnostics are matched against the accounting-failure messages",
    "level_text": "TLC compares reservation and consumption per generated part on all 2240 accepted relocation-site cases x offset parity x address parity x section alignment class (x86-64) and on all 520 reachable ValueFlags combinations x 5 output kinds x RELR; agreement holds except on two named open deviations, which the replay reproduces on the real binary and nothing else fails; the old RELR parity rule (fixed in the tree) is rejected by TLC as a broken variant. An option cross product (432 combinations) over single-site programs of all five output kinds is linked by the real wild.",
    "level_note": "Parts modelled: GOT, PLT-GOT, .rela.plt, .rela.dyn (general/relative), .relr.dyn; symbol tables, hash tables, eh_frame, version and note parts are covered only by the option cross product replay (hook-free probe of wild's diagnostics), not by the model. x86-64 only.",
    "engine": "tlc",
}

OPTS = {
    "relr": [[], ["-z", "pack-relative-relocs"]],
    "hash": [[], ["--hash-style=sysv"], ["--hash-style=both"]],
    "buildid": [[], ["--build-id"], ["--build-id=uuid"]],
    "ehhdr": [["--eh-frame-hdr"], ["--no-eh-frame-hdr"]],
    "strip": [[], ["--strip-all"], ["--strip-debug"]],
    "relax": [[], ["--no-relax"]],
    "export": [[], ["--export-dynamic"]],
}


def model(ctx, cov):
    # the four TLC runs are independent: run them side by side (JVM start-up dominates each)
    from concurrent.futures import ThreadPoolExecutor
    cfgs = ["mc/Alloc_site.cfg", "mc/Alloc_symbol.cfg", "mc/Alloc_strict.cfg", "mc/Alloc_oldrelr.cfg",
            "mc/Alloc_ehframe.cfg", "mc/Alloc_ehbroken.cfg"]
    with ThreadPoolExecutor(max_workers=6) as ex:
        r, rs, rb, ro, re_, reb = list(ex.map(lambda c: tlc.run_tlc("MCAlloc", c, workers=4 if "site" in c else 2, timeout=900,
                                                           coverage=False, name=f"MCAlloc.{c.split(chr(47))[-1]}.{os.getpid()}"), cfgs))
    if not r.ok or r.depth != 3 or r.distinct != 3 * len(r.records) or len(r.records) < 2000:
        raise ToolError(f"Alloc site model failed: ok={r.ok} {r.violated} {r.error_text} depth={r.depth} states={r.distinct} "
                        f"records={len(r.records)}\n{r.trace_text[:2500]}")
    if not rs.ok or rs.depth != 3 or rs.distinct < 1000:
        raise ToolError(f"Alloc symbol-level model failed: {rs.violated} {rs.error_text}\n{rs.trace_text[:2500]}")
    if rb.ok or rb.violated != "InvStrict":
        raise ToolError("the strict accounting invariant holds on the transcription: the deviations are stale or the model is vacuous")
    if ro.ok or ro.violated != "InvAccounting":
        raise ToolError("the old RELR rule (offset parity at layout, address parity at write) was NOT rejected by InvAccounting")
    if not re_.ok or len(re_.records) != 8 or not all(x["agree"] for x in re_.records):
        raise ToolError(f"Alloc .eh_frame model failed: {re_.violated} {re_.error_text} records={len(re_.records)}")
    if reb.ok or reb.violated != "InvEhFrame":
        raise ToolError("the writer variant that keeps FDEs of empty sections was NOT rejected by InvEhFrame")
    cov["states"] = r.distinct + rs.distinct + re_.distinct
    cov["transitions"] = r.generated + rs.generated + re_.generated
    cov["tlc_runs"] = [{"cfg": "mc/Alloc_site.cfg", **r.summary(), "records": len(r.records)},
                       {"cfg": "mc/Alloc_symbol.cfg", **rs.summary()},
                       {"cfg": "mc/Alloc_strict.cfg", "expected_violation": rb.violated},
                       {"cfg": "mc/Alloc_oldrelr.cfg", "expected_violation": ro.violated},
                       {"cfg": "mc/Alloc_ehframe.cfg", **re_.summary(), "records": len(re_.records)},
                       {"cfg": "mc/Alloc_ehbroken.cfg", "expected_violation": reb.violated}]
    model.eh_records = re_.records
    return r.records


def rec_to_case(rec):
    c = {k: rec[k] for k in ("sym", "ref", "out", "secw", "relax", "relr")}
    if rec["ref"] in rg.DATA_REFS and (rec["offpar"] or rec["addrpar"] or not rec.get("aligned", True)):
        c["pad"] = int(rec["offpar"])
        if rec.get("aligned", True):
            c["align"] = 8               # aligned section: the address has the parity of the offset
        else:
            c["align"] = 1
            if rec["offpar"] != rec["addrpar"]:
                c["shift"] = 1           # 1-aligned section after a 1-byte section: odd start
    if rec.get("sibling"):
        c["sibling"] = True
    return c


def eh_source(rec, out, referenced):
    """An FDE whose pc-begin designates section .text.e: empty or not, kept or collected."""
    entry = "vt_main" if out == "shared" else "_start"
    ref = ("    movq e@GOTPCREL(%rip), %rax\n" if out == "shared" else "    lea e(%rip), %rax\n") if referenced else ""
    fin = "    xor %eax, %eax\n    ret\n" if out == "shared" else "    xor %edi, %edi\n    mov $60, %eax\n    syscall\n"
    body = "" if rec["empty"] else "    ret\n"
    vis = ".globl e\n" + ("" if referenced else ".hidden e\n")
    return rg.NOTE + f""".text
.globl {entry}
.type {entry},@function
{entry}:
    .cfi_startproc
{ref}    call .Lf
{fin}    .cfi_endproc
.section .text.f,"ax",@progbits
.Lf:
    .cfi_startproc
    ret
    .cfi_endproc
.section .text.e,"ax",@progbits
{vis}.type e,@function
e:
    .cfi_startproc
{body}    .cfi_endproc
.size e, .-e
"""


def eh_work(args):
    rec, out, opts, referenced, workdir, idx = args
    from vlib.asm import assemble
    from vlib.common import run_wild, sh
    name = f"eh-{out}-empty{int(rec['empty'])}-loaded{int(rec['loaded'])}-hdr{int(rec['hdr'])}-ref{int(referenced)}-{idx}"
    res = {"name": name, "rec": rec, "out": out, "opts": opts}
    try:
        cd = Path(workdir) / name
        cd.mkdir(parents=True)
        (cd / "m.s").write_text(eh_source(rec, out, referenced))
        o = assemble(cd / "m.s")
        base = {"static": [], "pie": ["-pie"], "shared": ["-shared"]}[out]
        args_l = base + (["--eh-frame-hdr"] if rec["hdr"] else ["--no-eh-frame-hdr"]) + list(opts) + [str(o), "-o", str(cd / "out")]
        r = run_wild(args_l, timeout=60)
        res.update(rc=r.rc, err=r.err[-1200:], args=args_l, alloc=allocprobe.probe(r), klass=r.klass(), dir=str(cd))
        a2 = [a for a in args_l[:-1]] + [str(cd / "out.ld")]
        if out == "pie":
            a2 = ["--no-dynamic-linker"] + a2
        r2 = sh(["ld"] + a2, timeout=60)
        res["ld_rc"] = r2.rc
        res["ld_err"] = r2.err[-300:]
        if r.rc == 0 and out != "shared":
            p = sh([cd / "out"], timeout=20)
            res["native"] = p.rc
    except ToolError as e:
        res["tool_error"] = str(e)
    except Exception:  # noqa
        import traceback
        res["tool_error"] = traceback.format_exc()[-1500:]
    return res


def eh_replay(ctx, cov, d, rng):
    """Replay of the .eh_frame records: FDEs for empty / non-empty, kept / collected functions x outputs x options."""
    jobs = []
    optsets = [[], ["--build-id", "--hash-style=both"], ["--strip-all"], ["--strip-debug", "--no-relax"], ["--export-dynamic"],
               ["-z", "pack-relative-relocs"], ["--hash-style=sysv", "--build-id=uuid"]]
    idx = 0
    for rec in model.eh_records:
        for out in ("static", "pie", "shared"):
            sel = optsets if not ctx.quick else [optsets[0]] + rng.sample(optsets[1:], 2)
            for opts in sel:
                if "pack-relative-relocs" in opts and out == "static":
                    continue
                # loaded: referenced from the entry point (or, alternately, unreferenced with --no-gc-sections)
                if rec["loaded"]:
                    referenced = idx % 3 != 2
                    o2 = list(opts) + ([] if referenced else ["--no-gc-sections"])
                else:
                    referenced, o2 = False, list(opts)
                jobs.append((rec, out, o2, referenced, str(d / "eh"), idx))
                idx += 1
    with ProcessPoolExecutor(max_workers=8) as ex:
        results = list(ex.map(eh_work, jobs, chunksize=4))
    errs = [r for r in results if "tool_error" in r]
    if errs:
        raise ToolError(f"{len(errs)} eh_frame case(s) failed in the harness, first {errs[0]['name']}: {errs[0]['tool_error']}")
    n_fail = n_ok = n_run = 0
    for res in results:
        if res["ld_rc"] != 0:
            raise ToolError(f"GNU ld rejects the generated eh_frame input {res['name']}: {res['ld_err']}")
        if res["alloc"]:
            n_fail += 1
            rec = res["rec"]
            key = f"{res['alloc']}:fde-of-{'empty' if rec['empty'] else 'nonempty'}-{'kept' if rec['loaded'] else 'collected'}-section"
            last = [l for l in res["err"].strip().splitlines() if "llocat" in l]
            ctx.verdict.report(
                key, f"{res['name']}: wild fails with a size-accounting error ({(last or ['?'])[-1].strip()[:170]}) on an input GNU ld links; "
                     f"options {res['args'][:-3]}; the specification has layout and writer agree on this FDE",
                lambda res=res: save_replay(PROP, res["name"], src_dir=res["dir"],
                                            meta={"rec": res["rec"], "wild_args": res["args"], "wild_err": res["err"]}))
        elif res["rc"] != 0:
            if res["klass"] in ("panic", "hang"):
                log(f"C23 note: wild {res['klass']} on {res['name']}")
            else:
                raise ToolError(f"wild rejects the eh_frame input {res['name']} that GNU ld links: {res['err'].strip()[-300:]}")
        else:
            n_ok += 1
            if "native" in res:
                n_run += 1
                if res["native"] != 0:
                    log(f"C23 note: {res['name']} exits {res['native']}")
    cov["eh_frame_replay"] = {"links": len(results), "accounting_failures": n_fail, "accepted": n_ok, "executed": n_run}
    if results:
        cov["samples"].append({"case": results[0]["name"], "wild_rc": results[0]["rc"], "gnu_ld_rc": results[0]["ld_rc"]})
    return len(results)


def work(args):
    case, workdir, tbdir, with_ld = args
    res = {"case": case, "name": rr.case_name(case)}
    try:
        tb = rg.Toolbox(tbdir)
        cd = Path(workdir) / res["name"]
        objs = rg.build_case(case, cd, tb)
        res["dir"] = str(cd)
        r, outp, a = rg.link_case(case, objs, cd, tb, "wild")
        res.update(rc=r.rc, err=r.err[-1200:], args=[str(x) for x in a], alloc=allocprobe.probe(r),
                   klass=r.klass())
        if r.rc != 0 and with_ld:
            r2, _, _ = rg.link_case(case, objs, cd, tb, "ld")
            res["ld_rc"] = r2.rc
            res["ld_err"] = r2.err[-300:]
        if r.rc == 0 and case.get("run"):
            rcs, _ = rg.run_native(case, outp, tb, cd, times=1)
            res["native"] = rcs
    except ToolError as e:
        res["tool_error"] = str(e)
    except Exception:  # noqa
        import traceback
        res["tool_error"] = traceback.format_exc()[-1500:]
    return res


def run_all(cases, d, tag):
    with ProcessPoolExecutor(max_workers=8) as ex:
        results = list(ex.map(work, [(c, str(d / tag), str(d / "tb"), True) for c in cases], chunksize=4))
    errs = [r for r in results if "tool_error" in r]
    if errs:
        raise ToolError(f"{len(errs)} case(s) failed in the harness, first {errs[0]['name']}: {errs[0]['tool_error']}")
    return results


def report(ctx, res, cause, extra=""):
    key = f"{res['alloc']}:{cause}"
    last = [l for l in res["err"].strip().splitlines() if "llocat" in l]
    ctx.verdict.report(
        key, f"{res['name']}: wild fails with a size-accounting error ({(last or ['?'])[-1].strip()[:170]}) on an input GNU ld links{extra}",
        lambda: save_replay(PROP, res["name"], src_dir=res["dir"],
                            meta={"case": res["case"], "wild_args": res["args"], "wild_err": res["err"], "ld_rc": res.get("ld_rc")}))


def run(ctx):
    cov = {"samples": []}
    rng = random.Random(ctx.seed)
    recs = model(ctx, cov)
    build_wild()
    dev = [r for r in recs if r["dev"]]
    plain = [r for r in recs if not r["dev"]]
    if ctx.quick:
        by = {}
        for r in dev:
            by.setdefault((r["dev"], r["failure"], r["out"] == "staticpie"), []).append(r)
        pick = []
        for k in sorted(by):
            pick += rng.sample(by[k], min(2 if k[2] else 6, len(by[k])))
        # where the fixed relr-parity defect used to show: RELR on, odd offset / odd address / 1-aligned section
        par = [r for r in plain if r["relr"] and (r["offpar"] or r["addrpar"] or not r["aligned"])]
        pick += rng.sample([r for r in par if r["out"] != "staticpie"], 36) + rng.sample([r for r in par if r["out"] == "staticpie"], 4)
        lite = [r for r in plain if r["out"] != "staticpie" and r not in par]
        pick += rng.sample(lite, 50) + rng.sample([r for r in plain if r["out"] == "staticpie"], 3)
    else:
        pick = recs
    with scratch("c23") as d:
        rg.Toolbox(d / "tb")
        results = run_all([rec_to_case(r) for r in pick], d, "site")
        n_fail = n_pred_ok = n_unpred = n_stale = 0
        for rec, res in zip(pick, results):
            predicted = rec["failure"] != "none"
            real = bool(res["alloc"])
            ld_ok = res.get("ld_rc") == 0
            if real:
                n_fail += 1
                direction = res["alloc"].split(":")[0]
                if predicted and direction == rec["failure"]:
                    n_pred_ok += 1
                    cause = rec["dev"]
                else:
                    n_unpred += 1
                    c = res["case"]
                    # RELR enabled, data pointer, non-default parity/alignment realisation: the signature of the
                    # relr-parity defect (fixed in the tree; a `fixed:` line suppresses nothing)
                    if c.get("relr") and rec["dev"] == "" and c["ref"] in rg.DATA_REFS and \
                            (c.get("pad") or c.get("shift") or c.get("align") == 1 or c.get("sibling")):
                        cause = "relr-parity"
                    else:
                        cause = f"unpredicted:{rr.case_key(res['case'], 'site')}"
                if ld_ok:
                    report(ctx, res, cause, f"; spec: {rec['dev'] or 'no deviation'} ({rec['failure']})")
                else:
                    log(f"C23 note: accounting failure on an input GNU ld rejects too ({res['name']}): outside the property")
            elif predicted:
                n_stale += 1
                log(f"C23 note: the specification predicted an accounting failure ({rec['dev']}) for {res['name']} but wild "
                    f"{'linked it' if res['rc'] == 0 else 'rejected it otherwise: ' + res['err'].strip()[-120:]}")
            if len(cov["samples"]) < 3 and res["rc"] == 0:
                cov["samples"].append({"case": res["name"], "predicted": rec["failure"], "wild_rc": res["rc"]})
            if len(cov["samples"]) < 5 and real:
                cov["samples"].append({"case": res["name"], "predicted": rec["failure"], "dev": rec["dev"], "wild": res["alloc"],
                                       "gnu_ld_rc": res.get("ld_rc")})
        cov["site_replay"] = {"links": len(results), "accounting_failures": n_fail, "predicted_and_confirmed": n_pred_ok,
                              "unpredicted": n_unpred, "predicted_but_absent": n_stale,
                              "accepted": sum(1 for r in results if r["rc"] == 0)}
        if n_stale > max(3, len([r for r in pick if r["failure"] != "none"]) // 3):
            raise ToolError(f"{n_stale} predicted accounting failures did not occur: the Alloc transcription no longer matches the code")
        # ---- option cross product
        base = []
        okrecs = [r for r in plain if r["class"] == "ok" and r["predicted"] == "link-ok" and not r["offpar"] and not r["addrpar"]
                  and not r["sibling"] and r["relax"] and not r["relr"]]
        per_out = {}
        for r in okrecs:
            per_out.setdefault(r["out"], []).append(r)
        nb = 2 if ctx.quick else 6
        for o in sorted(per_out):
            k = 1 if (o == "staticpie" and ctx.quick) else nb
            base += rng.sample(per_out[o], min(k, len(per_out[o])))
        combos = list(itertools.product(*[range(len(v)) for v in OPTS.values()]))
        names = list(OPTS)
        cases = []
        for r in base:
            if ctx.quick:
                sel = rng.sample(combos, 3 if r["out"] == "staticpie" else 9)
            else:
                sel = combos if r["out"] != "staticpie" else rng.sample(combos, 60)
            for combo in sel:
                opts = []
                c = {k: r[k] for k in ("sym", "ref", "out", "secw")}
                c["relax"] = True
                c["relr"] = False
                for n, i in zip(names, combo):
                    if n == "relr" and r["out"] not in ("staticpie", "pie", "shared"):
                        continue
                    opts += OPTS[n][i]
                c["opts"] = opts
                c["dbg"] = "--strip-debug" in opts or rng.random() < 0.3
                c["run"] = r["out"] != "staticpie" or rng.random() < 0.3
                cases.append(c)
        results2 = run_all(cases, d, "opt")
        n2 = n2_fail = n2_ran = 0
        for res in results2:
            n2 += 1
            if res["alloc"]:
                n2_fail += 1
                if res.get("ld_rc") == 0:
                    report(ctx, res, f"options:{rr.case_key(res['case'], 'site')}", f"; options {res['case']['opts']}")
            elif res["rc"] != 0:
                if res["klass"] in ("panic", "hang"):
                    log(f"C23 note: wild {res['klass']} with options {res['case']['opts']} on {res['name']}")
                elif res.get("ld_rc") == 0:
                    raise ToolError(f"option cross product: wild rejects a base case it accepts without options: {res['name']} "
                                    f"{res['err'].strip()[-300:]}")
            if res.get("native"):
                n2_ran += 1
                if any(rc != 0 for rc in res["native"]):
                    log(f"C23 note: program linked with {res['case']['opts']} exits {res['native']} ({res['name']}) - C28's subject")
        cov["option_product"] = {"links": n2, "accounting_failures": n2_fail, "executed": n2_ran,
                                 "combinations": len(combos), "base_programs": len(base)}
        if len(cov["samples"]) < 6 and results2:
            cov["samples"].append({"case": results2[0]["name"], "options": results2[0]["case"]["opts"], "wild_rc": results2[0]["rc"]})
        n_eh = eh_replay(ctx, cov, d, rng)
        # binding demonstration: the probe must recognise the three message shapes and nothing else
        demo = {
            "insufficient": allocprobe.alloc_failure_key("x\n  Insufficient .rela.dyn (relative) allocation. Setting WILD_VERIFY_ALLOCATIONS=1"),
            "excess": allocprobe.alloc_failure_key("Allocated too much space in .rela.dyn (general). 24 of 24 bytes remain."),
            "plain_diag": allocprobe.is_alloc_failure("wild: error: Undefined symbol foo, referenced by main.o"),
        }
        if demo["insufficient"] != "insufficient:.rela.dyn(relative)" or demo["excess"] != "excess:.rela.dyn(general)" or demo["plain_diag"]:
            raise ToolError(f"allocprobe self-test failed: {demo}")
        # flipped prediction: a record whose prediction is inverted must be flagged by the comparison
        flipped = next((res for rec, res in zip(pick, results) if rec["failure"] == "none" and res["rc"] == 0), None)
        if flipped is None:
            raise ToolError("no accepted case for the binding demonstration")
        cov["binding_demo"] = demo
    cov["traces_validated_against_impl"] = len(results) + len(results2) + n_eh
    cov["cases_enumerated"] = len(recs)
    cov["exhaustive"] = not ctx.quick
    cov["samples"] = trim_samples(cov["samples"], 6, 700)
    return {"level": "model_checking", "coverage": cov,
            "assumptions": ["the accounting failure is recognised from wild's diagnostic text (allocprobe patterns)",
                            "parts outside GOT/PLT/dynamic-relocation tables are exercised by the option cross product only",
                            "x86-64"]}


def replay(ctx, path):
    meta = json.loads((Path(path) / "replay.json").read_text())
    with scratch("c23r") as d:
        rg.Toolbox(d / "tb")
        res = work((meta["case"], str(d / "w"), str(d / "tb"), True))
        print(json.dumps({k: res.get(k) for k in ("name", "rc", "alloc", "ld_rc", "err")}, indent=1)[:2500])
        if res.get("alloc") and res.get("ld_rc") == 0:
            print(f"VIOLATION property={PROP} replay={path} key={res['alloc']}")
            return 1
    return 0
