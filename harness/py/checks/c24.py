"""C24 - Save-dir bundles replay to an identical output.

1. TLC (specs/SaveDir.tla): every argument text of length <= 2 (quick) / <= 3 (thorough) over 28
   character classes in 7 position kinds (input file name, -o value, -soname=<text>, -soname <text>,
   -L directory, response-file input name, response-file option text).  For each the spec says whether
   the words bash / wild's response-file lexer form from what save_dir.rs writes are the original
   arguments: RoundTrip is an INVARIANT of the quoting coded today (RoundTripHolds).  The quoting wild
   had before the fix is kept as the broken variant: TLC must reject it (SaveDir_oldquoting.cfg,
   anti-vacuity) and the class it blames per text is the key a regression would be reported under.
2. The bash model is pinned against the real bash: the script text of every exported shell case is
   given to /bin/bash in a directory laid out as the model assumes; the words must agree.
3. Binding R: exported cases (all single-character texts first, then seeded random order, within a time
   budget) each become a real link with WILD_SAVE_DIR, then `bash run-with <wild>`
   (other cwd, OUT redirected) and the sha256 of both outputs is compared.  A replay that fails or
   differs contradicts the property -> report(key by blamed class).  The transcription of write_args
   is compared with the bytes wild really wrote.
4. A few structural bundles (thin archive, linker script with absolute INPUT, nested response file,
   symlinked directory) must replay identically too.
"""
import os
import random
import shutil
import time
from concurrent.futures import ThreadPoolExecutor
from pathlib import Path

from vlib import asm, tlc
from vlib.common import ToolError, build_wild, log, save_replay, scratch, sh, sha256, trim_samples

PROP = "C24"
META = {
    "ready": True,
    "level": "exploration",
    "technique": "TLA+ model of bash word formation and of wild's response-file lexer plus a transcription of save_dir.rs quoting, enumerated by TLC over all short argument texts; every enumerated case replayed into the real wild (WILD_SAVE_DIR, then run-with) and the real bash",
    "level_text": "TLC enumerates every argument text of length <= 2 (quick) / <= 3 (thorough) over 28 character classes (plain, space, tab, newline, quotes, $, backslash, backquote, ; & | ( < * ? # ~ = - @, and the characters that are white space for wild's response-file lexer but not for bash: VT, FF, U+0085, U+00A0, U+2003, U+3000) in 7 position kinds and evaluates RoundTrip = (words formed on replay = original arguments) on a model of bash word formation / wild's response-file lexer; a candidate quoting is model-checked to round-trip all of them. Enumerated cases (all single-character texts, then a seeded random order of the rest, as many as fit the time budget: a few hundred quick, a few thousand thorough) are replayed for real: link with WILD_SAVE_DIR, run run-with with the same binary in another directory, compare sha256. The bash model is pinned against /bin/bash on the same texts.",
    "level_note": "Exploration over a model-checked quoting model: texts longer than 3 characters, bytes outside the 28 classes (e.g. braces, '!', '>', non-UTF-8) and the save directory's own path are not covered; COLLECT_GCC env propagation and plugins are out of scope. Trusted base: TLC, /bin/bash as the shell the prelude demands, the representative byte per class.",
    "engine": "tlc",
}

BYTE = {"a": "a", "D": "D", "sp": " ", "tab": "\t", "nl": "\n", "sq": "'", "dq": '"', "dol": "$", "bs": "\\",
        "bq": "`", "semi": ";", "amp": "&", "pipe": "|", "lpar": "(", "lt": "<", "star": "*", "qm": "?",
        "hash": "#", "tilde": "~", "eq": "=", "dash": "-", "at": "@",
        "vt": "\x0b", "ff": "\x0c", "nel": "\u0085", "nbsp": "\u00a0", "emsp": "\u2003", "idsp": "\u3000",
        "w": "w", "z": "z", "L": "L", "h": "h", "d": "d", "O": "O", "U": "U", "T": "T", "o": "o", "slash": "/"}
GROUP = {"file": "unescaped-path", "libdir": "unescaped-path", "opteq": "unescaped", "optsep": "unescaped",
         "rspfile": "rsp-unescaped", "rspopt": "rsp-unescaped", "out": "out"}
SHELL_KINDS = ("file", "out", "opteq", "optsep", "libdir")
# number of leading tokens of `mid` that are the fixed (non-text) part, per kind
FIXED = {"file": 8, "libdir": 10, "opteq": 4, "optsep": 9, "rspfile": 7, "rspopt": 3, "out": 9}


def txt(tokens):
    return "".join(BYTE[t] for t in tokens)


# ---------------------------------------------------------------------------------------------
# 2. pinning the bash model


def pin_bash(rec, d, old=False):
    """Run the model's script text (as coded, or the old quoting's) through the real bash in the file layout
    the model assumes. Returns None if bash agrees with the model, else a description."""
    if old:
        rec = dict(rec, script=rec["old_script"], words=rec["old_words"], why=rec["old_why"], rt=rec["old_rt"])
    d.mkdir()
    cwd = d / "cwd"
    cwd.mkdir()
    (cwd / "a").write_text("")
    (cwd / "aa").write_text("")
    dtree = d / "dtree"                       # the value of $D: outside the replay's cwd
    ind = dtree / "a"
    ind.mkdir(parents=True)
    (ind / "aa").write_text("")
    (ind / "zz").write_text("")
    name = txt(rec["text"])
    if rec["kind"] == "file":
        (ind / name).write_text("")
    elif rec["kind"] == "libdir" and name != "aa":
        (ind / name).mkdir()
    script = f"D={dtree}\nOUT=o\nprintf '%s\\0' " + txt(rec["script"]) + "\n"
    (d / "s.sh").write_text(script)
    r = sh(["/usr/bin/env", "-u", "OLDPWD", "/bin/bash", str(d / "s.sh")], cwd=cwd, timeout=20,
           env={"PATH": "/nonexistent", "HOME": "/nonexistent-home"})
    words = r.out.replace(str(dtree), "d").split("\0")
    if words and words[-1] == "":
        words = words[:-1]
    exp = [txt(w) for w in rec["expected"]]
    model_words = [txt(w) for w in rec["words"]]
    real_rt = (r.rc == 0 and not r.timed_out and words == exp)
    shutil.rmtree(d, ignore_errors=True)
    if rec["why"] == "":
        # the model formed words: they must be bash's words
        if r.rc != 0 or words != model_words:
            return f"model words {model_words!r} bash rc={r.rc} words {words!r} err={r.err[-200:]!r}"
    if real_rt != rec["rt"]:
        return f"model rt={rec['rt']} ({rec['why']}) bash rt={real_rt} rc={r.rc} words={words!r} err={r.err[-200:]!r}"
    return None


# ---------------------------------------------------------------------------------------------
# 3. real links


def rsp_escape(s):
    # white space as wild's response-file lexer sees it (char::is_whitespace), quotes, backslash
    return "".join(("\\" + c) if c in " \t\n\x0b\x0c\r\u0085\u00a0\u2003\u3000'\"\\" else c for c in s)


class Seeds:
    def __init__(self, d):
        self.d = d
        d.mkdir()
        (d / "main.s").write_text('.text\n.globl f_main\n.type f_main,@function\nf_main:\n  mov $42,%eax\n  ret\n'
                                  '.data\n.globl d_main\nd_main: .quad f_main\n')
        (d / "other.s").write_text('.text\n.globl other\n.type other,@function\nother:\n  call f_main@PLT\n  ret\n')
        self.main = asm.assemble(d / "main.s")
        self.other = asm.assemble(d / "other.s")
        (d / "zz.s").write_text('.text\n.globl zz_f\n.type zz_f,@function\nzz_f:\n  mov $7,%eax\n  ret\n')
        self.zz = asm.assemble(d / "zz.s")
        self.lib = asm.archive(d / "libm9.a", [self.main])


def link_copy(src, dst):
    try:
        os.link(src, dst)
    except OSError:
        shutil.copy(src, dst)


def real_case(rec, d, seeds, wild):
    """Returns dict(status= 'ok'|'fail'|'na', detail, transcription_ok)."""
    kind, name = rec["kind"], txt(rec["text"])
    d.mkdir()
    ind = d / "in"
    ind.mkdir()
    link_copy(seeds.other, ind / "aa")
    link_copy(seeds.zz, ind / "zz")
    out = "out.so"
    rsp = None
    if kind in ("file", "rspfile"):
        if name == "aa":
            return {"status": "na", "detail": "name collides with the second input"}
        link_copy(seeds.main, ind / name)
        if kind == "file":
            args = ["in/" + name, "in/zz", "in/aa", "-shared", "-soname=S"]
        else:
            rsp = rsp_escape("in/" + name) + "\nin/zz\nin/aa\n-shared\n-soname=S\n"
    elif kind == "libdir":
        if name == "aa":
            return {"status": "na", "detail": "name collides with the second input"}
        (ind / name).mkdir()
        link_copy(seeds.lib, ind / name / "libm9.a")
        args = ["-Lin/" + name, "in/zz", "in/aa", "-lm9", "-shared", "-soname=S"]
    else:
        link_copy(seeds.main, ind / "a")
        if kind == "out":
            args = ["in/a", "in/zz", "in/aa", "-shared", "-soname=S"]
            out = name
        elif kind == "opteq":
            args = ["in/a", "in/zz", "in/aa", "-shared", "-soname=" + name]
        elif kind == "optsep":
            args = ["in/a", "in/zz", "in/aa", "-shared", "-soname", name]
        elif kind == "rspopt":
            rsp = "in/a\nin/zz\nin/aa\n-shared\n" + rsp_escape("-soname=" + name) + "\n"
    if rsp is not None:
        (d / "args.rsp").write_text(rsp)
        args = ["@args.rsp"]
    args += ["-o", out]
    sd = d / "sd"
    env = {"WILD_SAVE_DIR": str(sd), "WILD_VALIDATE_OUTPUT": "0"}
    r = sh([wild] + args, cwd=d, timeout=20, env=env)
    meta = {"kind": kind, "text": rec["text"], "args": args, "env": env, "cwd": "<this directory>",
            "replay_cmd": "cd cwd && OUT=../rep.so HOME=/nonexistent-home bash ../sd/run-with <wild>"}
    if r.timed_out:
        return {"status": "na", "detail": "original link timed out", "meta": meta}
    if r.rc != 0 or not (d / out).is_file() or not (sd / "run-with").is_file():
        return {"status": "na", "detail": f"original link not successful rc={r.rc} {r.err[-160:]!r}", "meta": meta}
    h0 = sha256(d / out)
    # transcription check: the bytes wild wrote for this argument
    transcription_ok = None
    if kind in FIXED:
        tail = txt(rec["mid"][FIXED[kind]:])
        rel = str(d / "in").lstrip("/")
        fixed = {"file": f"\"$D\"/'{rel}/", "rspfile": f"\"$D\"/{rel}/", "libdir": f"-L\"$D\"/'{rel}/",
                 "opteq": "'-soname=", "rspopt": "-soname=", "optsep": "'-soname' \\\n  ",
                 "out": "-o \"$OUT\""}[kind]
        where = sd / ("run-with" if kind in SHELL_KINDS else "at-0.txt")
        try:
            body = where.read_bytes().decode("utf-8", "replace")
        except OSError:
            body = ""
        sep = " \\\n  " if kind in SHELL_KINDS else "\n"
        end = "\n" if kind == "out" or kind not in SHELL_KINDS else sep      # `-o "$OUT"` is the last argument
        transcription_ok = (sep + fixed + tail + end) in body + "\n"
    cwd = d / "cwd"
    cwd.mkdir()
    (cwd / "a").write_text("junk\n")
    (cwd / "aa").write_text("junk\n")
    rep = d / "rep.so"
    r2 = sh(["/usr/bin/env", "-u", "OLDPWD", "-u", "WILD_SAVE_DIR", "/bin/bash", str(sd / "run-with"), str(wild)],
            cwd=cwd, timeout=30,
            env={"OUT": str(rep), "HOME": "/nonexistent-home", "WILD_VALIDATE_OUTPUT": "0", "PATH": "/usr/bin:/bin"})
    meta["replay_rc"] = r2.rc
    meta["replay_err"] = r2.err[-400:]
    if r2.timed_out:
        return {"status": "fail", "detail": "replay timed out", "meta": meta, "transcription_ok": transcription_ok}
    if r2.rc != 0 or not rep.is_file():
        return {"status": "fail", "detail": f"replay failed rc={r2.rc}: {r2.err.strip()[-160:]!r}", "meta": meta,
                "transcription_ok": transcription_ok}
    if not (d / out).is_file() or sha256(d / out) != h0:
        return {"status": "fail", "detail": "replay modified the original output", "meta": meta,
                "transcription_ok": transcription_ok}
    if sha256(rep) != h0:
        return {"status": "fail", "detail": "replayed output differs from the original", "meta": meta,
                "transcription_ok": transcription_ok}
    return {"status": "ok", "detail": "", "meta": meta, "transcription_ok": transcription_ok}


# ---------------------------------------------------------------------------------------------
# 4. structural bundles (plain names)


def structural_cases(d, seeds):
    """Yield (name, cwd, args)."""
    # thin archive
    s = d / "thin"
    (s / "objs").mkdir(parents=True)
    link_copy(seeds.main, s / "objs" / "m.o")
    link_copy(seeds.other, s / "o.o")
    sh(["ar", "rcT", "libt.a", "objs/m.o"], cwd=s, timeout=30, check=True)
    yield "thin-archive", s, ["o.o", "libt.a", "-shared", "-soname=S", "-o", "out.so"]
    # linker script naming an input by absolute path
    s = d / "script"
    (s / "sub").mkdir(parents=True)
    link_copy(seeds.main, s / "sub" / "m.o")
    link_copy(seeds.other, s / "o.o")
    (s / "in.ld").write_text(f"INPUT({s}/sub/m.o)\n")
    yield "script-absolute-input", s, ["o.o", "in.ld", "-shared", "-soname=S", "-o", "out.so"]
    # nested response files
    s = d / "nested"
    s.mkdir()
    link_copy(seeds.main, s / "m.o")
    link_copy(seeds.other, s / "o.o")
    (s / "inner.rsp").write_text("m.o\n-soname=S\n")
    (s / "outer.rsp").write_text("o.o\n@inner.rsp\n-shared\n")
    yield "nested-response-file", s, ["@outer.rsp", "-o", "out.so"]
    # input reached through a symlinked directory
    s = d / "symlink"
    (s / "real").mkdir(parents=True)
    link_copy(seeds.main, s / "real" / "m.o")
    link_copy(seeds.other, s / "o.o")
    os.symlink("real", s / "lnk")
    yield "symlinked-directory", s, ["o.o", "lnk/m.o", "-shared", "-soname=S", "-o", "out.so"]
    # version script passed with =
    s = d / "vscript"
    s.mkdir()
    link_copy(seeds.main, s / "m.o")
    link_copy(seeds.other, s / "o.o")
    (s / "v.map").write_text("{ global: other; local: *; };\n")
    yield "version-script", s, ["o.o", "m.o", "-shared", "-soname=S", "--version-script=v.map", "-o", "out.so"]


def run_structural(name, cwd, args, wild):
    sd = cwd / "sd"
    r = sh([wild] + args, cwd=cwd, timeout=30, env={"WILD_SAVE_DIR": str(sd), "WILD_VALIDATE_OUTPUT": "0"})
    if r.rc != 0 or r.timed_out:
        raise ToolError(f"structural seed {name} does not link: {r}")
    h0 = sha256(cwd / "out.so")
    other = cwd / "elsewhere"
    other.mkdir()
    rep = cwd / "rep.so"
    r2 = sh(["/usr/bin/env", "-u", "WILD_SAVE_DIR", "/bin/bash", str(sd / "run-with"), str(wild)], cwd=other, timeout=30,
            env={"OUT": str(rep), "WILD_VALIDATE_OUTPUT": "0"})
    ok = r2.rc == 0 and not r2.timed_out and rep.is_file() and sha256(rep) == h0
    return ok, f"rc={r2.rc} {r2.err.strip()[-200:]!r}"


# ---------------------------------------------------------------------------------------------


def key_of(rec):
    """Key of a failing real replay: the class the model blames under the quoting coded today, else the
    class it blames under the old quoting (a regression to the old behaviour gets the old keys), else the
    text itself."""
    if not rec["rt"]:
        return f"{GROUP[rec['kind']]}:{rec['blame']}"
    if not rec["old_rt"]:
        return f"{GROUP[rec['kind']]}:{rec['old_blame']}"
    return "unpredicted:" + rec["kind"] + ":" + "+".join(rec["text"])


def run(ctx):
    cov = {"samples": []}
    rng = random.Random(ctx.seed)
    # 1. TLC
    cfg = "mc/SaveDir_quick.cfg" if ctx.quick else "mc/SaveDir_thorough.cfg"
    r = tlc.run_tlc("SaveDir", cfg, workers=8, timeout=300 if ctx.quick else 1500, coverage=False)
    if not r.ok:
        raise ToolError(f"SaveDir model check failed ({cfg}): {r.violated} {r.error_text}\n{r.trace_text[:2000]}")
    recs = r.records
    if len(recs) != r.distinct or not recs:
        raise ToolError(f"exported {len(recs)} cases but TLC found {r.distinct} states")
    old = tlc.run_tlc("SaveDir", "mc/SaveDir_oldquoting.cfg", workers=2, timeout=300, coverage=False)
    if old.ok or old.violated != "OldRoundTrips":
        raise ToolError("anti-vacuity: the old (insufficient) quoting was not rejected by the model")
    cov["states"] = r.distinct
    cov["transitions"] = r.generated
    cov["tlc_runs"] = [{"cfg": cfg, **r.summary()},
                       {"cfg": "mc/SaveDir_oldquoting.cfg", "expected_violation": old.violated}]
    if not all(x["rt"] for x in recs):
        raise ToolError("RoundTripHolds passed but a record has rt = false")
    cov["model_roundtrips_all"] = True
    cov["old_quoting_non_roundtrip"] = sum(1 for x in recs if not x["old_rt"])

    # order of the cases: all single-character texts first, then the rest in seeded random order;
    # as many as fit in the time budget are pinned against bash / replayed for real
    first = [x for x in recs if len(x["text"]) == 1]
    rest = [x for x in recs if len(x["text"]) > 1]
    rng.shuffle(rest)
    ordered = first + rest
    pin_budget, real_budget = (15, 45) if ctx.quick else (180, 800)
    wild = build_wild()
    with scratch("c24") as d:
        seeds = Seeds(d / "seeds")
        # 2. bash pin
        shell_recs = [x for x in ordered if x["kind"] in SHELL_KINDS]

        def pin(ix):
            i, x = ix
            m = pin_bash(x, d / f"p{i}")
            if m:
                return x, m
            m = pin_bash(x, d / f"q{i}", old=True)
            return x, ("old quoting: " + m) if m else None

        pins = []
        t0 = time.time()
        with ThreadPoolExecutor(max_workers=8) as ex:
            for lo in range(0, len(shell_recs), 128):
                pins += list(ex.map(pin, list(enumerate(shell_recs))[lo:lo + 128]))
                if time.time() - t0 > pin_budget and lo + 128 >= len(first):
                    break
        bad = [(x, m) for x, m in pins if m]
        cov["bash_model_cases_pinned"] = 2 * len(pins)      # script as coded + old quoting's script
        if bad:
            msg = "\n".join(f"  {x['kind']} {x['text']}: {m}" for x, m in bad[:15])
            raise ToolError(f"the bash model disagrees with /bin/bash on {len(bad)} of {len(pins)} texts:\n{msg}")

        # 3. real replays
        def real(ix):
            i, x = ix
            sub = d / f"c{i}"
            res = real_case(x, sub, seeds, wild)
            if res["status"] != "fail":
                shutil.rmtree(sub, ignore_errors=True)
            return i, x, sub, res

        results = []
        t0 = time.time()
        with ThreadPoolExecutor(max_workers=8) as ex:
            for lo in range(0, len(ordered), 64):
                results += list(ex.map(real, list(enumerate(ordered))[lo:lo + 64]))
                if time.time() - t0 > real_budget and lo + 64 >= len(first):
                    break
        counts = {"ok": 0, "fail": 0, "na": 0}
        pessimistic = []
        stale = 0
        keys = {}
        na_plain = []
        for i, x, sub, res in results:
            counts[res["status"]] += 1
            if res.get("transcription_ok") is False:
                stale += 1
            if res["status"] == "na":
                if all(t in ("a", "D") for t in x["text"]) and "collides" not in res["detail"]:
                    na_plain.append((x, res["detail"]))
                continue
            if res["status"] == "fail":
                k = key_of(x)
                keys[k] = keys.get(k, 0) + 1
                meta = dict(res["meta"], detail=res["detail"], model={"rt": x["rt"], "why": x["why"], "blame": x["blame"]})
                ctx.verdict.report(
                    k, f"save-dir replay of {x['kind']} text {txt(x['text'])!r} ({'+'.join(x['text'])}): {res['detail']}",
                    lambda sub=sub, meta=meta, i=i: save_replay(PROP, f"case-{meta['kind']}-{i}", sub, meta=meta))
            elif not x["rt"]:
                pessimistic.append((x, res))
            if len(cov["samples"]) < 6 and (res["status"] == "fail") == (len(cov["samples"]) % 2 == 0):
                cov["samples"].append({"kind": x["kind"], "text": txt(x["text"]), "classes": x["text"],
                                       "model_roundtrip": x["rt"], "model_why": x["why"], "real": res["status"],
                                       "detail": res["detail"]})
        for i, x, sub, res in results:
            if len(cov["samples"]) >= 4:
                break
            if res["status"] == "ok":
                cov["samples"].append({"kind": x["kind"], "text": txt(x["text"]), "classes": x["text"],
                                       "model_roundtrip": x["rt"], "real": res["status"], "detail": res["detail"]})
        if na_plain:
            raise ToolError(f"plain-text cases did not link: {na_plain[:3]}")
        # model (and bash) say the replay sees other words, yet the output is identical: possible (e.g. a
        # glob that also matches an input that is already on the command line); counted, not an error
        cov["words_differ_output_identical"] = len(pessimistic)
        cov["words_differ_output_identical_samples"] = [f"{x['kind']}:{'+'.join(x['text'])}" for x, _ in pessimistic[:8]]
        cov["real_cases"] = counts
        cov["transcription_mismatches"] = stale
        cov["failing_keys"] = keys
        if stale:
            log(f"note: in {stale} cases wild did not write what specs/SaveDir.tla Script/AtFile says "
                f"(transcription out of date); only the real replay result was used for them")

        # 4. structural bundles
        struct = {}
        for name, cwd, args in structural_cases(d / "struct", seeds):
            ok, detail = run_structural(name, cwd, args, wild)
            struct[name] = ok
            if not ok:
                ctx.verdict.report(f"structural:{name}", f"save-dir replay of a bundle with {name} is not identical: {detail}",
                                   lambda cwd=cwd, name=name, args=args: save_replay(
                                       PROP, f"struct-{name}", cwd, meta={"args": args, "env": {"WILD_SAVE_DIR": "sd"},
                                                                          "replay_cmd": "OUT=rep.so bash sd/run-with <wild>"}))
        cov["structural"] = struct

        # 5. binding demonstration: a corrupted observation must be noticed (sha of a patched replay)
        demo_dir = d / "demo"
        plain = next(x for x in recs if x["kind"] == "opteq" and x["text"] == ["a"])
        res = real_case(plain, demo_dir, seeds, wild)
        if res["status"] != "ok":
            raise ToolError(f"binding demo seed is not ok: {res}")
        b = bytearray((demo_dir / "rep.so").read_bytes())
        b[len(b) // 2] ^= 1
        (demo_dir / "rep.so").write_bytes(bytes(b))
        if sha256(demo_dir / "rep.so") == sha256(demo_dir / "out.so"):
            raise ToolError("binding demo: a flipped bit in the replayed output was not noticed")
        cov["binding_demo"] = {"flipped_bit_detected": True}

    n_real = counts["ok"] + counts["fail"]
    cov["evaluations"] = n_real
    cov["distinct_nontrivial"] = sum(1 for i, x, sub, res in results
                                     if res["status"] != "na" and any(t not in ("a", "D") for t in x["text"]))
    cov["rule"] = ("cases = (position kind, text) enumerated by TLC from SaveDir.tla (all texts up to the length bound over 28 "
                   "character classes x 7 kinds); evaluated = the original link succeeded and run-with was replayed; "
                   "non-trivial = text contains at least one non-plain class; distinct by (kind, text)")
    cov["traces_validated_against_impl"] = n_real
    cov["samples"] = trim_samples(cov["samples"], 6, 700)
    return {
        "level": "exploration",
        "coverage": cov,
        "assumptions": [
            "bash is the shell (the prelude's shebang); one representative byte per character class",
            "replay runs in a directory containing files named a and aa, HOME set, OLDPWD empty (legal but adversarial environment)",
            "the save directory's own path is plain",
        ],
    }
