"""C25 - The dependency file lists exactly the files the link read.

1. TLC (specs/DepFile.tla): every command o1 + up to 2/3 (quick) or 4 (thorough) items over 13 item
   kinds (objects, second spelling, archive, thin archive, thin member given directly, shared object,
   nested linker scripts, -l via -L, version script, dynamic list, export list, retain-symbols file).
   For each the spec gives Read(cmd) (declarative rule); TLC checks as an INVARIANT that the algorithm
   coded today (thin archive file and auxiliary files pushed to loaded_files, de-duplication on the
   absolute path) satisfies DepOk up to the retain-symbols file, that listing that file too satisfies DepOk
   in full, and - anti-vacuity - that the algorithm wild had before the fix (DepFile_old.cfg) and the
   claim "nothing is missing" (DepFile_claim.cfg: the retain file still is) are both rejected.
2. Binding R: each exported command is linked for real with --dependency-file; the Makefile syntax is
   parsed, paths are resolved, and target / set / multiplicity are compared with Read(cmd).
2b. HISTORY: the spec's environment action Vanish (an input that was read disappears after
   verify_inputs_unchanged and before the dependency file is written; DepFile_history.cfg, the variant
   that skips vanished files must be rejected by TLC) is replayed for a few commands per run: wild is
   stopped at the cfg-guarded pause point `verified` (WILD_VERIF_PAUSE), one input of each kind is deleted,
   wild is released; the dependency file must still list everything that was read.
3. The rule Read itself is pinned independently: GNU ld's --dependency-file on the same command (as a
   set, minus what ld is known not to track: unpulled thin members, the retain file) and, for a sample
   (all in thorough), `strace -f -e trace=openat` of the wild link (files really opened read-only).
"""
import os
import random
import re
import shutil
import subprocess
import time
from concurrent.futures import ThreadPoolExecutor
from pathlib import Path

from vlib import asm, tlc
from vlib.common import ToolError, build_wild, log, save_replay, scratch, sh, trim_samples

PROP = "C25"
META = {
    "ready": True,
    "level": "model_checking",
    "technique": "TLA+ rule Read(cmd) and DepOk, model-checked as an invariant of a transcription of wild's loaded_files algorithm as coded today (the pre-fix algorithm is the rejected broken variant) over all small commands; every enumerated command replayed into the real wild with --dependency-file; Read pinned against GNU ld's dependency file and strace",
    "level_text": "TLC enumerates all link commands of up to 4 items (thorough; 2 plus a sample of 3 quick) over 13 input/option kinds with duplicates, aliases and script nesting depth 2, computes Read(cmd) and checks that the loaded_files algorithm as coded satisfies DepOk on every command up to the recorded omission of the retain-symbols file (the pre-fix algorithm is rejected). Every enumerated command that fits the time budget is linked for real and the parsed dependency file is compared (target, set, multiplicity) with Read(cmd); GNU ld's dependency file and strace's openat record of the same link pin Read(cmd) independently.",
    "level_note": "The universe of files is fixed (one of each kind, scripts nest to depth 2); sysroot, plugins/LTO temporaries, -T scripts, --just-symbols and response files (treated as part of the command line) are not modelled. Trusted base: TLC, GNU ld 2.40 and strace as witnesses of what a link reads, the Makefile-syntax parser in c25.py.",
    "engine": "tlc",
}

ITEM_ARGS = {"o2": ["o2.o"], "o2x": ["./o2.o"], "A": ["liba.a"], "T": ["libt.a"], "tm1": ["tm1.o"], "S": ["libs.so"],
             "L1": ["L1.ld"], "L3": ["L3.ld"], "lZ": ["-Lzdir", "-lz"], "V": ["--version-script=v.map"],
             "Y": ["--dynamic-list=d.list"], "E": ["--export-dynamic-symbol-list=e.list"],
             "R": ["--retain-symbols-file=r.syms"]}
FILE_PATH = {"o1": "o1.o", "o2": "o2.o", "o3": "o3.o", "o4": "o4.o", "tm1": "tm1.o", "tm2": "tm2.o", "A": "liba.a",
             "T": "libt.a", "S": "libs.so", "L1": "L1.ld", "L2": "L2.ld", "L3": "L3.ld", "Z": "zdir/libz.a",
             "V": "v.map", "Y": "d.list", "E": "e.list", "R": "r.syms"}
KIND_NAME = {"o1": "object", "o2": "object", "o3": "object-from-script", "o4": "object-from-nested-script",
             "tm1": "thin-archive-member", "tm2": "thin-archive-member", "A": "archive", "T": "thin-archive-file",
             "S": "shared-object", "L1": "linker-script", "L2": "nested-linker-script", "L3": "linker-script",
             "Z": "library-from-search-path", "V": "version-script", "Y": "dynamic-list",
             "E": "export-dynamic-symbol-list", "R": "retain-symbols-file"}


def build_world(w):
    """One directory with one file of every kind; all links run with it as cwd (they only read it)."""
    w.mkdir()
    tmp = w / "_members"
    tmp.mkdir()
    for n in ("o1", "o2", "o3", "o4", "tm1", "tm2"):
        (w / f"{n}.s").write_text(f'.text\n.globl sym_{n}\n.type sym_{n},@function\nsym_{n}:\n  ret\n'
                                  f'.data\n.quad sym_{n}\n')
        asm.assemble(w / f"{n}.s")
        (w / f"{n}.s").unlink()
    for n in ("am1", "zm1", "sm1"):
        (tmp / f"{n}.s").write_text(f'.text\n.globl sym_{n}\nsym_{n}:\n  ret\n')
        asm.assemble(tmp / f"{n}.s")
    sh(["ar", "rc", "liba.a", "_members/am1.o"], cwd=w, check=True)
    sh(["ar", "rcT", "libt.a", "tm1.o", "tm2.o"], cwd=w, check=True)
    (w / "zdir").mkdir()
    sh(["ar", "rc", "zdir/libz.a", "_members/zm1.o"], cwd=w, check=True)
    sh(["ld", "-shared", "-o", "libs.so", "_members/sm1.o"], cwd=w, check=True)
    shutil.rmtree(tmp)
    (w / "L1.ld").write_text("INPUT(o3.o L2.ld)\n")
    (w / "L2.ld").write_text("INPUT(o4.o libt.a)\n")
    (w / "L3.ld").write_text("GROUP(liba.a o2.o)\n")
    (w / "v.map").write_text("{ global: sym_*; local: *; };\n")
    (w / "d.list").write_text("{ sym_o1; };\n")
    (w / "e.list").write_text("{ sym_o1; };\n")
    (w / "r.syms").write_text("sym_o1\nsym_o2\n")
    real = {os.path.realpath(w / p): f for f, p in FILE_PATH.items()}
    return real


def parse_depfile(text):
    """Makefile syntax -> list of (targets, prerequisites). Handles continuations and `\\ `, `$$`, `\\#`."""
    text = text.replace("\\\n", " ")
    rules = []
    for line in text.split("\n"):
        if not line.strip() or line.lstrip().startswith("#"):
            continue
        toks, cur, i, colon = [], "", 0, None
        while i < len(line):
            c = line[i]
            if c == "\\" and i + 1 < len(line) and line[i + 1] in " #:\\":
                cur += line[i + 1]
                i += 2
                continue
            if c == "$" and line[i:i + 2] == "$$":
                cur += "$"
                i += 2
                continue
            if c == ":" and colon is None and (i + 1 == len(line) or line[i + 1] in " \t"):
                if cur:
                    toks.append(cur)
                    cur = ""
                colon = len(toks)
                i += 1
                continue
            if c in " \t":
                if cur:
                    toks.append(cur)
                    cur = ""
                i += 1
                continue
            cur += c
            i += 1
        if cur:
            toks.append(cur)
        if colon is None:
            raise ValueError(f"not a rule: {line!r}")
        rules.append((toks[:colon], toks[colon:]))
    return rules


def resolve_ids(paths, w, real):
    ids, unknown = [], []
    for p in paths:
        rp = os.path.realpath(os.path.join(w, p))
        if rp in real:
            ids.append(real[rp])
        else:
            unknown.append(p)
    return ids, unknown


def strace_opened(trace_text, w, real):
    """File ids of the world that were successfully opened read-only (not as directories).
    Handles `<unfinished ...>` / `<... openat resumed>` pairs of strace -f."""
    got = set()
    pending = {}
    call = re.compile(r'^(\d+)\s+open(?:at)?\((?:AT_FDCWD, )?"((?:[^"\\]|\\.)*)", ([A-Z_|0-9]+)(?:, [0-7]+)?(?:\)\s+= (-?\d+)| <unfinished \.\.\.>)')
    resumed = re.compile(r'^(\d+)\s+<\.\.\. open(?:at)? resumed>.*\)\s+= (-?\d+)')

    def note(path, flags, ret):
        if ret < 0 or "O_DIRECTORY" in flags or "O_WRONLY" in flags or "O_RDWR" in flags:
            return
        rp = os.path.realpath(os.path.join(w, path))
        if rp in real:
            got.add(real[rp])

    for line in trace_text.splitlines():
        m = call.match(line)
        if m:
            if m.group(4) is None:
                pending[m.group(1)] = (m.group(2), m.group(3))
            else:
                note(m.group(2), m.group(3), int(m.group(4)))
            continue
        m = resumed.match(line)
        if m and m.group(1) in pending:
            path, flags = pending.pop(m.group(1))
            note(path, flags, int(m.group(2)))
    return got


def args_of(cmd):
    a = ["o1.o"]
    for it in cmd:
        a += ITEM_ARGS[it]
    return a + ["-shared"]


def one_case(i, rec, w, real, wild, with_strace, with_ld):
    cmd = rec["cmd"]
    args = args_of(cmd)
    out, dep = f"out{i}.so", f"dep{i}.d"
    full = args + ["-o", out, f"--dependency-file={dep}"]
    res = {"i": i, "cmd": cmd, "args": full, "problems": [], "status": "ok"}
    pre = []
    if with_strace:
        pre = ["strace", "-f", "-qq", "-e", "trace=open,openat", "-o", f"trace{i}.txt"]
    r = sh(pre + [wild] + full, cwd=w, timeout=60, env={"WILD_VALIDATE_OUTPUT": "0"})
    if r.timed_out or r.rc != 0 or not (w / dep).is_file():
        res["status"] = "na"
        res["detail"] = f"wild rc={r.rc} timeout={r.timed_out} {r.err.strip()[-200:]!r}"
        return res
    text = (w / dep).read_text()
    res["depfile"] = text
    want = set(rec["read"])
    try:
        rules = parse_depfile(text)
    except ValueError as e:
        res["problems"].append(("syntax", f"dependency file is not Makefile syntax: {e}"))
        return res
    main = [(t, p) for t, p in rules if p]
    phony = [(t, p) for t, p in rules if not p]
    if len(main) != 1 or len(main[0][0]) != 1 or \
            os.path.realpath(w / main[0][0][0]) != os.path.realpath(w / out):
        res["problems"].append(("target", f"the rule with prerequisites must have the output {out} as its only target: "
                                          f"{[t for t, _ in main]}"))
        if not main:
            return res
    listed, unknown = resolve_ids(main[0][1], w, real)
    res["listed"] = listed
    for u in unknown:
        res["problems"].append((f"extra:{u}", f"lists {u}, which is not a file of the link"))
    for f in sorted(want - set(listed)):
        res["problems"].append((f"missing:{KIND_NAME[f]}", f"{FILE_PATH[f]} ({KIND_NAME[f]}) was read but is not listed"))
    for f in sorted(set(listed) - want):
        res["problems"].append((f"extra:{KIND_NAME[f]}", f"{FILE_PATH[f]} is listed but is not read by this link"))
    for f in sorted({f for f in listed if listed.count(f) > 1}):
        res["problems"].append((f"duplicate:{KIND_NAME[f]}", f"{FILE_PATH[f]} is listed {listed.count(f)} times"))
    # phony rules, if any, must be for listed prerequisites only (informational sanity)
    for t, _ in phony:
        ids, unk = resolve_ids(t, w, real)
        if unk or any(x not in listed for x in ids):
            res["problems"].append(("phony-target", f"empty rule for {t} which is not a prerequisite"))
    res["matches_transcription"] = (listed == rec["wild"])
    if with_strace:
        try:
            opened = strace_opened((w / f"trace{i}.txt").read_text(errors="replace"), w, real)
            res["strace"] = sorted(opened)
        finally:
            (w / f"trace{i}.txt").unlink(missing_ok=True)
    if with_ld:
        ldout, lddep = f"ldout{i}.so", f"lddep{i}.d"
        r2 = asm.gnu_ld(args + ["-o", ldout, f"--dependency-file={lddep}"], cwd=w, timeout=60)
        if r2.rc == 0 and (w / lddep).is_file():
            try:
                lr = [(t, p) for t, p in parse_depfile((w / lddep).read_text()) if p]
                ids, unk = resolve_ids(lr[0][1], w, real)
                res["ld"] = sorted(set(ids))
                res["ld_unknown"] = unk
            except (ValueError, IndexError) as e:
                res["ld_error"] = str(e)
        for f in (ldout, lddep):
            (w / f).unlink(missing_ok=True)
    (w / out).unlink(missing_ok=True)
    (w / dep).unlink(missing_ok=True)
    return res


def history_case(i, rec, w, d, wild):
    """Replay of the spec behaviour  verified -> Vanish(gone) -> WriteDep  on a private copy of the world.
    -> dict(status 'ok'|'na'|'tool', problems [(key, text)], ...)"""
    hw = d / f"h{i}"
    shutil.copytree(w, hw, symlinks=True)
    real = {os.path.realpath(hw / p): f for f, p in FILE_PATH.items()}
    pause = hw / "_pause"
    pause.mkdir()
    gone = rec["gone"]
    args = args_of(rec["cmd"]) + ["-o", "out.so", "--dependency-file=dep.d"]
    env = dict(os.environ, WILD_VALIDATE_OUTPUT="0", RUST_BACKTRACE="0", WILD_VERIF_PAUSE=f"verified:{pause}")
    res = {"cmd": rec["cmd"], "gone": gone, "args": args, "problems": [], "dir": hw}
    p = subprocess.Popen([str(wild)] + args, cwd=hw, env=env, stdin=subprocess.DEVNULL, stdout=subprocess.PIPE,
                         stderr=subprocess.PIPE, start_new_session=True)
    t0 = time.time()
    try:
        while not (pause / "reached").exists() and p.poll() is None and time.time() - t0 < 50:
            time.sleep(0.002)
        if not (pause / "reached").exists():
            out, err = p.communicate(timeout=60)
            res["status"] = "tool" if p.returncode == 0 else "na"
            res["detail"] = f"pause point `verified` not reached rc={p.returncode} {err.decode(errors='replace')[-200:]!r}"
            return res
        # the environment action: the file disappears (the link has read it and re-verified it already)
        os.unlink(hw / FILE_PATH[gone])
        (pause / "go").write_text("")
        out, err = p.communicate(timeout=60)
    except subprocess.TimeoutExpired:
        os.killpg(p.pid, 9)
        p.communicate()
        res["status"] = "na"
        res["detail"] = "link did not finish after the pause"
        return res
    if p.returncode != 0 or not (hw / "dep.d").is_file():
        res["status"] = "na"
        res["detail"] = f"link failed after the input vanished rc={p.returncode} {err.decode(errors='replace')[-200:]!r}"
        return res
    res["status"] = "ok"
    text = (hw / "dep.d").read_text()
    res["depfile"] = text
    try:
        main = [(t, pr) for t, pr in parse_depfile(text) if pr]
        listed, unknown = resolve_ids(main[0][1], hw, real) if main else ([], [])
    except ValueError as e:
        res["problems"].append(("syntax", f"dependency file is not Makefile syntax: {e}"))
        return res
    # a vanished file cannot be resolved through realpath of a symlink-free tree: FILE_PATH is plain, so it still is
    res["listed"] = listed
    want = set(rec["read"])
    for f in sorted(want - set(listed)):
        if f == gone and f in rec["wild"]:      # the spec says wild lists it, whatever happened to it afterwards
            res["problems"].append((f"missing:{KIND_NAME[f]}:vanished-after-verification",
                                    f"{FILE_PATH[f]} ({KIND_NAME[f]}) was read and re-verified, then deleted before the dependency "
                                    f"file was written: it is not listed"))
        else:
            res["problems"].append((f"missing:{KIND_NAME[f]}", f"{FILE_PATH[f]} ({KIND_NAME[f]}) was read but is not listed"))
    for f in sorted(set(listed) - want):
        res["problems"].append((f"extra:{KIND_NAME[f]}", f"{FILE_PATH[f]} is listed but is not read by this link"))
    for u in unknown:
        res["problems"].append((f"extra:{u}", f"lists {u}, which is not a file of the link"))
    for f in sorted({f for f in listed if listed.count(f) > 1}):
        res["problems"].append((f"duplicate:{KIND_NAME[f]}", f"{FILE_PATH[f]} is listed {listed.count(f)} times"))
    res["matches_transcription"] = (listed == rec["wild"])
    return res


HISTORY_KINDS = ["o2", "A", "tm1", "L1", "V"]          # object, archive, thin-archive member, script, version script
LD_BLIND = {"tm1", "tm2", "R"}   # GNU ld does not track unpulled thin members nor the retain file


def run(ctx):
    cov = {"samples": []}
    rng = random.Random(ctx.seed)
    cfg = "mc/DepFile_mid.cfg" if ctx.quick else "mc/DepFile_thorough.cfg"
    r = tlc.run_tlc("DepFile", cfg, workers=8, timeout=300 if ctx.quick else 1500, coverage=False)
    if not r.ok:
        raise ToolError(f"DepFile model check failed ({cfg}): {r.violated} {r.error_text}\n{r.trace_text[:2000]}")
    recs = r.records
    if 2 * len(recs) != r.distinct or not recs:      # one `verified` and one `written` state per command
        raise ToolError(f"exported {len(recs)} commands but TLC found {r.distinct} states")
    claim = tlc.run_tlc("DepFile", "mc/DepFile_claim.cfg", workers=2, timeout=300, coverage=False)
    if claim.ok:
        log("note: the transcription of wild's algorithm satisfies DepOk in full (retain-symbols file listed now?)")
    old = tlc.run_tlc("DepFile", "mc/DepFile_old.cfg", workers=2, timeout=300, coverage=False)
    if old.ok or old.violated != "OldSatisfies":
        raise ToolError("anti-vacuity: the pre-fix dependency-file algorithm was not rejected by the model")
    hist = tlc.run_tlc("DepFile", "mc/DepFile_history.cfg", workers=4, timeout=600)
    if not hist.ok:
        raise ToolError(f"DepFile history model check failed: {hist.violated} {hist.error_text}\n{hist.trace_text[:2000]}")
    if tlc.zero_coverage_actions(hist, ["Vanish", "WriteDep"]):
        raise ToolError("vacuous history run: Vanish / WriteDep never taken")
    hrecs = [x for x in hist.records if x["gone"] != "none"]
    hb = tlc.run_tlc("DepFile", "mc/DepFile_history_broken.cfg", workers=2, timeout=300, coverage=False)
    if hb.ok or hb.violated != "CodedSatisfiesUpToRetain":
        raise ToolError("anti-vacuity: the variant that skips vanished prerequisites was not rejected by the model")
    cov["states"], cov["transitions"] = r.distinct + hist.distinct, r.generated + hist.generated
    cov["tlc_runs"] = [{"cfg": cfg, **r.summary()}, {"cfg": "mc/DepFile_claim.cfg", "expected_violation": claim.violated},
                       {"cfg": "mc/DepFile_old.cfg", "expected_violation": old.violated},
                       {"cfg": "mc/DepFile_history.cfg", **hist.summary(), "behaviours_with_vanish": len(hrecs)},
                       {"cfg": "mc/DepFile_history_broken.cfg", "expected_violation": hb.violated}]
    cov["model_predicts_wild_incomplete"] = sum(1 for x in recs if not x["wild_ok"])
    cov["old_algorithm_incomplete"] = sum(1 for x in recs if sorted(set(x["old"])) != sorted(x["read"]) or len(set(x["old"])) != len(x["old"]))

    first = sorted((x for x in recs if len(x["cmd"]) <= 2), key=lambda x: (len(x["cmd"]), x["cmd"]))
    rest = [x for x in recs if len(x["cmd"]) > 2]
    rng.shuffle(rest)
    ordered = first + rest
    budget = 70 if ctx.quick else 1100
    n_strace = 24 if ctx.quick else 10 ** 9
    strace_ix = set(rng.sample(range(len(first)), min(n_strace, len(first)))) if ctx.quick else None
    wild = build_wild()
    with scratch("c25") as d:
        w = d / "w"
        real = build_world(w)

        def job(ix):
            i, rec = ix
            st = True if strace_ix is None else (i in strace_ix)
            return one_case(i, rec, w, real, wild, st, True), rec

        results = []
        t0 = time.time()
        with ThreadPoolExecutor(max_workers=8) as ex:
            for lo in range(0, len(ordered), 64):
                results += list(ex.map(job, list(enumerate(ordered))[lo:lo + 64]))
                if time.time() - t0 > budget and lo + 64 >= len(first):
                    break
        n_ok = n_na = n_ld = n_strace_done = n_stale = n_na_unexpected = 0
        keys = {}
        for res, rec in results:
            if res["status"] == "na":
                n_na += 1
                if not rec["cmd"]:
                    raise ToolError(f"the plain command does not link: {res}")
                if rec["wild_links"]:
                    n_na_unexpected += 1
                    log(f"note: {res['args']} does not link: {res.get('detail')}")
                continue
            n_ok += 1
            want = set(rec["read"])
            # --- pin the rule Read(cmd) with independent witnesses; disagreement = spec error
            if "strace" in res:
                n_strace_done += 1
                if set(res["strace"]) != want:
                    raise ToolError(f"Read({rec['cmd']}) = {sorted(want)} but strace saw wild open {res['strace']}")
            if "ld" in res and not ({"Y", "E"} <= set(rec["cmd"])):
                n_ld += 1
                if res.get("ld_unknown") or (set(res["ld"]) - LD_BLIND) != (want - LD_BLIND):
                    raise ToolError(f"Read({rec['cmd']}) = {sorted(want)} but GNU ld lists {res['ld']} {res.get('ld_unknown')}")
            if res.get("matches_transcription") is False:
                n_stale += 1
            for key, text in res["problems"]:
                keys[key] = keys.get(key, 0) + 1

                def mk(res=res, rec=rec, key=key):
                    p = save_replay(PROP, f"cmd-{'_'.join(rec['cmd']) or 'plain'}", w,
                                    meta={"args": res["args"], "cwd": "<this directory>", "env": {},
                                          "expected_prerequisites": sorted(FILE_PATH[f] for f in rec["read"]),
                                          "observed_depfile": res.get("depfile"), "problem": key})
                    return p
                ctx.verdict.report(key, f"link `{' '.join(res['args'])}`: {text}", mk)
            if len(cov["samples"]) < 5 and len(rec["cmd"]) >= 2:
                cov["samples"].append({"cmd": rec["cmd"], "args": res["args"], "read": sorted(rec["read"]),
                                       "listed": res.get("listed"), "problems": [k for k, _ in res["problems"]],
                                       "ld": res.get("ld"), "strace": res.get("strace")})
        if n_ok < max(3, len(first) // 2):
            raise ToolError(f"only {n_ok} of {len(results)} commands linked")
        if n_na_unexpected > max(2, len(results) // 10):
            raise ToolError(f"{n_na_unexpected} commands the model expects to link do not link")
        if n_ld == 0 or n_strace_done == 0:
            raise ToolError("no independent witness (GNU ld / strace) confirmed the rule in this run")
        # 2b. history: Vanish after the re-verification, for one input of each kind (+ a few random ones)
        hsel = []
        linkable = [x for x in hrecs if x["wild_links"]]
        for g in HISTORY_KINDS:
            c = [x for x in linkable if x["gone"] == g]
            if not c:
                raise ToolError(f"no history behaviour in which {g} vanishes")
            hsel += rng.sample(c, min(len(c), 1 if ctx.quick else 4))
        hsel += rng.sample(linkable, min(len(linkable), 5 if ctx.quick else 40))
        with ThreadPoolExecutor(max_workers=4) as ex:
            hres = list(ex.map(lambda ix: (history_case(ix[0], ix[1], w, d, wild), ix[1]), enumerate(hsel)))
        h_ok = h_na = 0
        hkinds = set()
        for res, rec in hres:
            if res["status"] == "tool":
                raise ToolError(f"history replay: {res['detail']} (hooks not compiled in?)")
            if res["status"] == "na":
                h_na += 1
                log(f"note: history case {rec['cmd']} gone={rec['gone']}: {res['detail']}")
                continue
            h_ok += 1
            hkinds.add(KIND_NAME[rec["gone"]])
            if res.get("matches_transcription") is False:
                n_stale += 1
            for key, text in res["problems"]:
                keys[key] = keys.get(key, 0) + 1

                def mkh(res=res, rec=rec, key=key):
                    return save_replay(PROP, f"hist-{'_'.join(rec['cmd']) or 'plain'}-gone-{rec['gone']}", res["dir"], meta={
                        "args": res["args"], "cwd": "<this directory>",
                        "env": {"WILD_VERIF_PAUSE": "verified:<dir>  (wild creates <dir>/reached and waits for <dir>/go)"},
                        "history": f"run wild; when _pause/reached exists delete {FILE_PATH[rec['gone']]}; create _pause/go",
                        "expected_prerequisites": sorted(FILE_PATH[f] for f in rec["read"]),
                        "observed_depfile": res.get("depfile"), "problem": key})
                ctx.verdict.report(key, f"link `{' '.join(res['args'])}` with {FILE_PATH[rec['gone']]} deleted after the "
                                        f"re-verification: {text}", mkh)
            if len(cov["samples"]) < 7:
                cov["samples"].append({"history": f"verified -> Vanish({rec['gone']}) -> WriteDep", "cmd": rec["cmd"],
                                       "read": sorted(rec["read"]), "listed": res.get("listed"),
                                       "problems": [k for k, _ in res["problems"]]})
        if h_ok < len(HISTORY_KINDS):
            raise ToolError(f"only {h_ok} history replays produced a dependency file ({h_na} links failed after the deletion)")
        cov["history_replays"] = {"ok": h_ok, "link_failed": h_na, "kinds_vanished": sorted(hkinds)}

        # binding demonstration: a corrupted observation (one prerequisite dropped from a correct list) is noticed
        demo = None
        for res, rec in results:
            if res["status"] == "ok" and not res["problems"] and len(rec["read"]) >= 2:
                text = res["depfile"]
                victim = FILE_PATH[sorted(rec["read"])[-1]]
                rules = parse_depfile(text.replace(" " + victim, "", 1))
                ids, _ = resolve_ids([p for t, p in rules if p][0], w, real)
                demo = set(ids) != set(rec["read"])
                break
        if demo is False:
            raise ToolError("binding demo: a dropped prerequisite was not noticed")
        cov["binding_demo"] = {"dropped_prerequisite_detected": demo}
    cov["traces_validated_against_impl"] = n_ok + h_ok
    cov["commands_not_linkable"] = n_na
    cov["commands_not_linkable_unexpected"] = n_na_unexpected
    cov["rule_confirmed_by_gnu_ld"] = n_ld
    cov["rule_confirmed_by_strace"] = n_strace_done
    cov["transcription_mismatches"] = n_stale
    cov["problem_keys"] = keys
    cov["samples"] = trim_samples(cov["samples"], 7, 900)
    return {
        "level": "model_checking",
        "coverage": cov,
        "assumptions": [
            "response files are part of the command line, not prerequisites",
            "a file counts as read when wild opens it read-only (strace) - wild mmaps what it opens",
            "GNU ld does not track unpulled thin-archive members and the retain-symbols file; it is a witness for the rest",
        ],
    }
