"""C26 - Diagnostics are deterministic.

Spec: GcTraversal.tla with items whose handling reports an error without stopping the worker
(undefined symbols) and items whose handling fails: TLC enumerates every interleaving; for each
scenario the reported error under the rule "least message of the set" is the same in every terminal
state, while under "last pushed" (the rule of the pinned code) it is not - TLC exhibits both
terminal states (anti-vacuity).
Binding: generated failing links with k independent errors of one kind (undefined symbols in
different objects, duplicate strong symbols, overflowing relocations in different sections,
unterminated merge-string sections, several missing inputs) are each linked under threads
{1,2,4,16} x yield seeds (files-per-group fixed per scenario); the normalised stderr and the exit status must be a
single value per scenario.
"""
import random
import re
from concurrent.futures import ThreadPoolExecutor

from vlib import asm, tlc
from vlib.common import ToolError, build_wild, run_wild, save_replay, scratch, trim_samples

PROP = "C26"
META = {
    "ready": True,
    "level": "exploration",
    "technique": "TLA+ traversal model with error reporting checked by TLC over all interleavings (reported error as a function of the error set vs. of the push order); failing links replayed under a matrix of thread counts and seeded schedules, comparing diagnostics",
    "level_text": "TLC enumerates all interleavings of the traversal model with 2 error-reporting items in different groups and shows the reported diagnostic is schedule-independent iff it is a function of the error set; real failing links with 2-6 independent errors of 5 kinds are each run under >= 24 (quick) schedules (threads x yield seeds x grouping) and must print one single diagnostic and exit status.",
    "level_note": "Schedules of the implementation are sampled; stderr is normalised only for the scratch directory path and ANSI colour. Warning sets are compared as sorted line sets.",
    "engine": "tlc",
}


def model_part(cov):
    r = tlc.run_tlc("MCGcEnum", "mc/GcReport.cfg", workers=8, timeout=900, coverage=False)
    if not r.ok:
        raise ToolError(f"GcTraversal error-report model failed: {r.violated} {r.error_text}")
    by = {}
    for rec in r.records:
        key = (str(rec["succ"]), str(rec["roots"]), str(rec["soft"]))
        by.setdefault(key, set()).add((rec["last"], rec["min"]))
    nondet_last = sum(1 for v in by.values() if len({x[0] for x in v}) > 1)
    nondet_min = sum(1 for v in by.values() if len({x[1] for x in v}) > 1)
    if nondet_min:
        raise ToolError("model: least-of-set reporting is schedule dependent - the spec's deterministic rule is wrong")
    if not nondet_last:
        raise ToolError("anti-vacuity: last-pushed reporting never differed between schedules in the model")
    cov["states"], cov["transitions"] = r.distinct, r.generated
    cov["model_scenarios"] = len(by)
    cov["model_scenarios_where_last_pushed_is_schedule_dependent"] = nondet_last


def norm(s, d):
    s = re.sub(r"\x1b\[[0-9;]*m", "", s)
    return s.replace(str(d), "<D>")


def scenarios(rng, d):
    out = []
    for k in (2, 3, 6):
        sub = d / f"undef{k}"
        sub.mkdir()
        objs = [asm.write_asm(sub, "main", '.globl _start\n.section .text._start,"ax",@progbits\n_start:\n' +
                              "".join(f"    call f{i}\n" for i in range(k)) + asm.EXIT_X86)]
        for i in range(k):
            objs.append(asm.write_asm(sub, f"o{i}", f'.globl f{i}\n.section .text.f{i},"ax",@progbits\nf{i}:\n    call undefined_sym_{i}\n    ret\n'))
        out.append((f"undefined-symbols-{k}", sub, [str(o) for o in objs]))
    for k in (2, 4):
        sub = d / f"dup{k}"
        sub.mkdir()
        objs = [asm.write_asm(sub, "main", '.globl _start\n_start: ret\n')]
        for i in range(k):
            for c in "ab":
                objs.append(asm.write_asm(sub, f"d{i}{c}", f'.globl dupsym_{i}\n.section .text.d{i},"ax",@progbits\ndupsym_{i}: ret\n'))
        out.append((f"duplicate-symbols-{k}", sub, [str(o) for o in objs]))
    # far more independent errors than any small collector could hold: a bounded, first-come-first-served error queue
    # would make the reported SET depend on the schedule even if each message is deterministic
    for k in (40, 200):
        sub = d / f"dupmany{k}"
        sub.mkdir()
        objs = [asm.write_asm(sub, "main", '.globl _start\n_start: ret\n')]
        for c in "ab":
            objs.append(asm.write_asm(sub, f"many{c}", "".join(
                f'.globl dupsym_{i}\n.section .text.d{i},"ax",@progbits\ndupsym_{i}: ret\n' for i in range(k))))
        out.append((f"duplicate-symbols-{k}", sub, [str(o) for o in objs]))
    sub = d / "undef40"
    sub.mkdir()
    objs = [asm.write_asm(sub, "main", '.globl _start\n.section .text._start,"ax",@progbits\n_start:\n' +
                          "".join(f"    call f{i}\n" for i in range(40)) + asm.EXIT_X86)]
    for j in range(4):
        objs.append(asm.write_asm(sub, f"o{j}", "".join(
            f'.globl f{i}\n.section .text.f{i},"ax",@progbits\nf{i}:\n    call undefined_sym_{i}\n    ret\n' for i in range(j * 10, j * 10 + 10))))
    out.append(("undefined-symbols-40", sub, [str(o) for o in objs]))
    for k in (2, 4):
        sub = d / f"ovf{k}"
        sub.mkdir()
        objs = [asm.write_asm(sub, "main", '.globl _start\n.section .text._start,"ax",@progbits\n_start:\n' +
                              "".join(f"    call g{i}\n" for i in range(k)) + asm.EXIT_X86)]
        for i in range(k):
            objs.append(asm.write_asm(sub, f"v{i}", f'.globl g{i}\n.section .text.g{i},"ax",@progbits\ng{i}:\n    movl $big_abs_{i}, %eax\n    ret\n'))
        out.append((f"reloc-overflow-{k}", sub, [str(o) for o in objs] + [f"--defsym=big_abs_{i}=0x1{i}2345678" for i in range(k)]))
    for k in (2, 3):
        sub = d / f"unterm{k}"
        sub.mkdir()
        objs = [asm.write_asm(sub, "main", '.globl _start\n_start: ret\n')]
        for i in range(k):
            objs.append(asm.write_asm(sub, f"u{i}", f'.section .rodata.str{i},"aMS",@progbits,1\n    .ascii "unterminated{i}"\n'))
        out.append((f"unterminated-merge-strings-{k}", sub, [str(o) for o in objs] + ["--no-gc-sections"]))
    for k in (2, 3):
        sub = d / f"missing{k}"
        sub.mkdir()
        objs = [asm.write_asm(sub, "main", '.globl _start\n_start: ret\n')]
        out.append((f"missing-inputs-{k}", sub, [str(o) for o in objs] + [str(sub / f"nope{i}.o") for i in range(k)]))
    return out


def run(ctx):
    cov = {}
    model_part(cov)
    build_wild()
    rng = random.Random(ctx.seed)
    reps = 24 if ctx.quick else 160
    samples = []
    total = 0
    with scratch("c26") as d:
        scs = scenarios(rng, d)
        for name, sub, args in scs:
            runs = []
            fpg = str(rng.choice([1, 1, 2, 64]))     # a configuration knob: fixed per scenario
            for i in range(reps):
                env = {"WILD_VERIF_YIELD_SEED": str(rng.getrandbits(30)), "WILD_FILES_PER_GROUP": fpg}
                runs.append((args + ["-o", str(sub / f"out{i}"), f"--threads={rng.choice([1, 2, 4, 16])}"], env))

            def one(a):
                return run_wild(a[0], env=a[1], timeout=60)

            with ThreadPoolExecutor(max_workers=8) as ex:
                results = list(ex.map(one, runs))
            total += len(results)
            outcomes = {}
            for (a, env), r in zip(runs, results):
                if r.timed_out:
                    raise ToolError(f"{name}: link hung")
                key = (r.rc, norm(r.err, sub).replace(a[-2].replace(str(sub), "<D>"), "<OUT>"))
                outcomes.setdefault(key, []).append((a, env))
            if all(k[0] == 0 for k in outcomes):
                raise ToolError(f"{name}: scenario did not fail")
            if len(samples) < 5:
                samples.append({"scenario": name, "runs": len(results), "distinct_outcomes": len(outcomes),
                                "example": list(outcomes)[0][1][:300]})
            if len(outcomes) > 1:
                kind = name.rsplit("-", 1)[0]
                # Is it the same diagnostic except for wild's internal file numbering (which
                # depends on how inputs are grouped, i.e. on the thread count)?
                ids = {(k[0], re.sub(r"#?\d+ \(\d+/\d+\)", "<FILE-ID>", k[1])) for k in outcomes}
                if len(ids) == 1:
                    kind = "message-embeds-thread-dependent-file-ids"
                ctx.verdict.report(
                    f"nondeterministic-diagnostic:{kind}",
                    f"{name}: {len(outcomes)} different (exit status, stderr) outcomes over {len(results)} schedules",
                    lambda: save_replay(PROP, name, sub, meta={"outcomes": [{"rc": k[0], "stderr": k[1][:600], "count": len(v), "example_args": v[0][0], "example_env": v[0][1]} for k, v in outcomes.items()]}))
    cov["evaluations"] = total
    cov["distinct_nontrivial"] = len(scs)
    cov["rule"] = "distinct failing scenarios (kind x number of independent errors), each run under `reps` schedules; all fail by construction"
    cov["samples"] = trim_samples(samples, 5, 900)
    cov["traces_validated_against_impl"] = total
    return {"level": "exploration", "coverage": cov,
            "assumptions": ["implementation schedules sampled via threads x yield seeds x grouping"]}
