"""C27 - Partial links are transparent.

Spec: Partial.tla - abstract objects (per-name definition kind with the origin of the definition,
ordered section fragments), final-link resolution (first strong > largest common > first weak),
PartialLink over a contiguous run of the command line, and `Transparent`: the abstract result
(binding of every name to an original definition, fragment / constructor order) is the same for
every composition of the command line into partial links.  TLC checks it over all kind assignments
of 3 (thorough: 4) objects x all compositions and prints each as a REPLAY record.
Binding: (R) each record becomes real objects (a definition of `x` of the recorded kind carrying an
identity word, a constructor that logs the object's index) + a C main that prints the value of `x`
and the constructor log; the objects are combined with `wild -r` exactly as the composition says and
linked through the compiler driver; the program is executed and must print what the direct link
prints, and the value of x the spec's binding predicts.  (Corpus) the C and C++ corpus programs are
linked directly and through every composition of their objects into `wild -r` partial links, final
link by wild and by GNU ld, executed and compared.
"""
import json
import random
from concurrent.futures import ThreadPoolExecutor

from vlib import asm, progs, tlc
from vlib.common import ToolError, build_wild, run_wild, save_replay, scratch, sh, trim_samples

PROP = "C27"
META = {
    "ready": True,
    "level": "exploration",
    "technique": "TLA+ model of symbol resolution under partial linking checked by TLC (transparency over all compositions); each enumerated configuration and a program corpus replayed through real `wild -r` partial links, executed and compared with the direct link",
    "level_text": "All assignments of {none, undef, weak, strong, common4, common8} to 3 objects x all 3 proper compositions into contiguous partial links (772 configurations; thorough: 4 objects) are model-checked for transparency and replayed: real objects, `wild -r`, final link, native run; plus every composition of the corpus programs' objects, final link by wild and by GNU ld.",
    "level_note": "Partial links combine CONTIGUOUS runs of the command line (constructor order is behaviour and a non-contiguous -r legitimately reorders it). Behaviour = stdout + exit status on x86-64/glibc.",
    "engine": "tlc",
}

MAIN_C = r'''
#include <stdio.h>
#include <string.h>
char ctor_log[32]; int ctor_n;
void log_ctor(int c) { ctor_log[ctor_n++] = (char)('0' + c); }
extern int x __attribute__((weak));
int main(void) { unsigned v = 0; if (&x) memcpy(&v, &x, 4); printf("x=%u ctors=%s\n", &x ? v : 99999u, ctor_log); return 0; }
'''


def obj_source(i, kind):
    t = [f'.section .text.c{i},"ax",@progbits', f"ctor{i}:", f"    mov ${i}, %edi", "    jmp log_ctor@PLT",
         '.section .init_array,"aw",@init_array', "    .p2align 3", f"    .quad ctor{i}"]
    if kind == "strong":
        t += ['.section .data.x,"aw",@progbits', ".globl x", ".p2align 3", f"x: .long {1000 + i}", "    .long 0"]
    elif kind == "weak":
        t += ['.section .data.x,"aw",@progbits', ".weak x", ".p2align 3", f"x: .long {1000 + i}", "    .long 0"]
    elif kind == "common4":
        t += [".comm x,4,4"]
    elif kind == "common8":
        t += [".comm x,8,8"]
    elif kind == "undef":
        t += ['.section .data.ref,"aw",@progbits', "    .quad x"]
    return "\n".join(t) + "\n"


def compositions(n):
    """All sets of cut positions except the full one (every object alone = the direct link)."""
    out = []
    for m in range(1 << (n - 1)):
        cuts = [k + 1 for k in range(n - 1) if m >> k & 1]
        if len(cuts) < n - 1:
            out.append(cuts)
    return out


def partial_link(objs, cuts, d, tag):
    """Combine contiguous runs with wild -r. Returns the new object list or (None, ShResult)."""
    bounds = [0] + cuts + [len(objs)]
    out = []
    for r in range(len(bounds) - 1):
        run = objs[bounds[r]:bounds[r + 1]]
        if len(run) == 1:
            out.append(run[0])
        else:
            p = d / f"partial-{tag}-{r}.o"
            res = run_wild(["-r", *map(str, run), "-o", str(p)], timeout=60)
            if res.rc != 0:
                return None, res
            out.append(p)
    return out, None


def diagnose(inputs, outputs):
    """Why might a partial link have changed behaviour? Compare symbol tables of the inputs of the
    -r links with their outputs. Returns a sorted list of recognised causes."""
    from vlib.elf import Elf, SHN_COMMON, SHN_UNDEF
    causes = set()
    try:
        commons, startstop = set(), set()
        for p in inputs:
            for sym in Elf(p).symtab:
                if sym["shndx"] == SHN_COMMON:
                    commons.add(sym["name"])
                if sym["shndx"] == SHN_UNDEF and sym["name"].startswith(("__start_", "__stop_")):
                    startstop.add(sym["name"])
        out_syms = {}
        for p in outputs:
            for sym in Elf(p).symtab:
                if sym["name"] and sym["bind"] != 0:
                    out_syms.setdefault(sym["name"], []).append(sym)
        for n in commons:
            if not any(x["shndx"] != SHN_UNDEF for x in out_syms.get(n, [])):
                causes.add("common-symbol-lost-in-partial-link")
        for n in startstop:
            if not any(x["shndx"] == SHN_UNDEF for x in out_syms.get(n, [])):
                causes.add("start-stop-symbol-resolved-in-partial-link")
    except Exception:      # noqa - diagnosis only refines the key
        pass
    return sorted(causes)


def enum_part(ctx, cov, d):
    cfg = "mc/Partial_quick.cfg" if ctx.quick else "mc/Partial_thorough.cfg"
    r = tlc.run_tlc("MCPartial", cfg, workers=4, timeout=1800, coverage=False)
    if not r.ok:
        raise ToolError(f"Partial model failed: {r.violated} {r.error_text}\n{r.trace_text[:1500]}")
    recs = list({json.dumps(x, sort_keys=True): x for x in r.records}.values())
    cov["states"], cov["transitions"] = r.distinct, r.generated
    rng = random.Random(ctx.seed)
    rng.shuffle(recs)
    recs = recs[:150] if ctx.quick else recs[:3000]
    bw = progs.linker_dir(d, "wild")
    mc = d / "main.c"
    mc.write_text(MAIN_C)
    mo = d / "main.o"
    sh(["gcc", "-c", "-O1", "-fPIE", "-o", mo, mc], timeout=60, check=True)

    def one(kr):
        k, rec = kr
        sub = d / f"e{k}"
        sub.mkdir()
        kinds = [rec["kinds"][i]["x"] for i in range(len(rec["kinds"]))]
        objs = [asm.write_asm(sub, f"o{i + 1}", obj_source(i + 1, kd)) for i, kd in enumerate(kinds)]
        direct = progs.drive("gcc", bw, [mo, *objs], sub / "direct")
        parts, err = partial_link(objs, list(rec["cuts"]), sub, "p")
        if parts is None:
            return k, rec, sub, kinds, direct, err, None, None
        via = progs.drive("gcc", bw, [mo, *parts], sub / "via")
        bd = progs.execute(sub / "direct") if direct.rc == 0 else None
        bv = progs.execute(sub / "via") if via.rc == 0 else None
        return k, rec, sub, kinds, direct, via, bd, bv

    with ThreadPoolExecutor(max_workers=6) as ex:
        results = list(ex.map(one, list(enumerate(recs))))
    for k, rec, sub, kinds, direct, via, bd, bv in results:
        cuts = list(rec["cuts"])
        if direct.rc != 0:
            raise ToolError(f"direct link of an enumerated configuration failed: kinds={kinds} {direct.err[-300:]}")
        partial_objs = sorted(sub.glob("partial-*.o"))
        causes = diagnose(sorted(sub.glob("o[0-9].o")), partial_objs + [p for p in sorted(sub.glob("o[0-9].o"))][:0]) if partial_objs else []
        # a symbol lost from a partial object may still be supplied by an object outside the run
        ckey = "+".join(causes) if causes else "+".join(sorted(set(kinds)))
        if bv is None:
            ctx.verdict.report(f"partial-link-fails:{ckey}",
                               f"kinds={kinds} cuts={cuts}: direct link works, link via wild -r fails: {via.err[-300:]}",
                               lambda: save_replay(PROP, f"enum-{k}", sub, meta={"kinds": kinds, "cuts": cuts, "stderr": via.err[-1500:]}))
            continue
        origin = rec["bind"]["x"]
        if bd != bv:
            ctx.verdict.report(f"behaviour-differs:{ckey}",
                               f"kinds={kinds} cuts={cuts}: direct prints {bd}, via partial links prints {bv}",
                               lambda: save_replay(PROP, f"enum-{k}", sub, meta={"kinds": kinds, "cuts": cuts, "direct": bd, "via": bv, "spec_origin": origin}))
        elif origin and kinds[origin - 1] in ("strong", "weak") and f"x={1000 + origin} " not in bd[1]:
            # both agree with each other but not with the resolution rule: C02's business, not C27's
            cov["direct_disagrees_with_rule"] = cov.get("direct_disagrees_with_rule", 0) + 1
    cov["enumerated_configurations_replayed"] = len(results)
    return [{"kinds": results[0][3], "cuts": list(results[0][1]["cuts"]), "direct": results[0][6]}]


def corpus_part(ctx, cov, d):
    bw = progs.linker_dir(d, "wild")
    bg = progs.linker_dir(d, "gnu")
    n = 0
    samples = []
    for name in progs.CORPUS:
        driver, objs = progs.compile_corpus(name, d / name)
        direct = progs.drive(driver, bw, objs, d / name / "direct")
        if direct.rc != 0:
            raise ToolError(f"direct link of {name} failed: {direct.err[-300:]}")
        ref = progs.execute(d / name / "direct")
        for ci, cuts in enumerate(compositions(len(objs))):
            parts, err = partial_link(objs, cuts, d / name, f"c{ci}")
            if parts is None:
                ctx.verdict.report(f"partial-link-fails:{name}", f"{name} cuts={cuts}: wild -r failed: {err.err[-300:]}",
                                   lambda: save_replay(PROP, f"{name}-c{ci}", d / name, meta={"cuts": cuts, "stderr": err.err[-1500:]}))
                continue
            pobjs = [p for p in parts if p.name.startswith("partial-")]
            causes = diagnose(objs, pobjs)
            ckey = "+".join(causes) if causes else name
            for which, b in (("wild", bw), ("gnu", bg)):
                out = d / name / f"via-{ci}-{which}"
                lr = progs.drive(driver, b, parts, out)
                n += 1
                if lr.rc != 0:
                    ctx.verdict.report(f"final-link-of-partial-fails:{ckey}:{which}",
                                       f"{name} cuts={cuts}: final link ({which}) of wild's partial objects failed: {lr.err[-300:]}",
                                       lambda: save_replay(PROP, f"{name}-c{ci}-{which}", d / name, meta={"cuts": cuts, "stderr": lr.err[-1500:]}))
                    continue
                beh = progs.execute(out)
                if beh != ref:
                    ctx.verdict.report(f"behaviour-differs:{ckey}:final-by-{which}",
                                       f"{name} cuts={cuts} final link by {which}: {beh} vs direct {ref}",
                                       lambda: save_replay(PROP, f"{name}-c{ci}-{which}", d / name, meta={"cuts": cuts, "observed": beh, "direct": ref}))
        samples.append({"program": name, "compositions": len(compositions(len(objs)))})
    cov["corpus_links_run"] = n
    return samples


def run(ctx):
    cov = {}
    build_wild()
    with scratch("c27") as d:
        s1 = enum_part(ctx, cov, d)
        s2 = corpus_part(ctx, cov, d)
    total = cov["enumerated_configurations_replayed"] + cov["corpus_links_run"]
    cov["evaluations"] = total
    cov["distinct_nontrivial"] = total
    cov["rule"] = "distinct (configuration, composition) pairs from TLC and (program, composition, final linker) triples; each involves at least one real `wild -r` link and a native run"
    cov["samples"] = trim_samples(s1 + s2, 4, 500)
    cov["traces_validated_against_impl"] = total
    return {"level": "exploration", "coverage": cov, "assumptions": ["contiguous partial links only", "x86-64 glibc native execution"]}
