"""C28 - Optional transformations don't change program behaviour.

Spec: Options.tla - the option space (kind of executable, relax, string merging, packed relative
relocations, hash style, build id, gc) with its applicability rules; the property is that the
behaviour of the linked program is a function of the program alone.  TLC enumerates the admissible
option vectors (384).
Binding: for every program of the corpus (multi-file C with pointer tables, merged strings, TLS,
constructors with priorities, start/stop sections, weak/common symbols, jump tables; C++ with
exceptions, virtual dispatch and static initialisers) each enumerated vector (quick: a seeded sample
that contains every value of every option) is linked with wild through the compiler driver and
EXECUTED; stdout + exit status must be identical across all vectors and equal to the GNU-ld-linked
program's.
"""
import random
from concurrent.futures import ThreadPoolExecutor

from vlib import progs, tlc
from vlib.allocprobe import is_alloc_failure
from vlib.common import ToolError, build_wild, save_replay, scratch, trim_samples

PROP = "C28"
META = {
    "ready": True,
    "level": "exploration",
    "technique": "TLA+ option-space model enumerated by TLC; every enumerated option vector replayed as a real link of a program corpus through the compiler driver and executed, behaviour compared across vectors and with GNU ld",
    "level_text": "384 admissible option vectors (static / static-pie / pie / no-pie x relax x string-merge x pack-relative-relocs x hash-style x build-id x gc) are enumerated from the specification; quick links and runs a seeded covering sample (every option value, ~40 vectors per program), thorough all of them, for a C and a C++ program exercising pointer tables, merged strings, TLS, constructors, start/stop sections, exceptions.",
    "level_note": "Behaviour = stdout + exit status of a native run (x86-64, glibc). Programs are compiled -fPIE so every executable kind applies. The TLA+ part is an enumeration of the configuration space with its applicability rules, not a behavioural model of the transformations themselves (those are C01/C07/C08/C09).",
    "engine": "tlc",
}

FLAGS = {
    "kind": {"static": (["-static"], []), "static-pie": (["-static-pie"], []), "pie": (["-pie"], []), "no-pie": (["-no-pie"], [])},
    "relax": {"relax": ([], []), "no-relax": ([], ["--no-relax"])},
    "merge": {"merge": ([], []), "no-merge": ([], ["--no-string-merge"])},
    "relr": {"relr": ([], ["-z,pack-relative-relocs"]), "no-relr": ([], [])},
    "hash": {"gnu": ([], ["--hash-style=gnu"]), "sysv": ([], ["--hash-style=sysv"]), "both": ([], ["--hash-style=both"])},
    "buildid": {"none": ([], ["--build-id=none"]), "fast": ([], ["--build-id=fast"]), "sha1": ([], ["--build-id=sha1"]), "uuid": ([], ["--build-id=uuid"])},
    "gc": {"gc": ([], ["--gc-sections"]), "no-gc": ([], ["--no-gc-sections"])},
}


def flags_of(vec):
    dflags, lflags = [], []
    for k, v in vec.items():
        d, l = FLAGS[k][v]
        dflags += d
        lflags += l
    return dflags, lflags


def covering_sample(vecs, rng, n):
    """A seeded sample that contains every value of every option at least once."""
    rng.shuffle(vecs)
    need = {(k, v) for k in FLAGS for v in FLAGS[k]}
    chosen = []
    for v in vecs:
        gain = {(k, v[k]) for k in v} & need
        if gain:
            chosen.append(v)
            need -= gain
    for v in vecs:
        if len(chosen) >= n:
            break
        if v not in chosen:
            chosen.append(v)
    return chosen


def run(ctx):
    cov = {}
    r = tlc.run_tlc("MCOptions", "mc/Options.cfg", workers=2, timeout=300, coverage=False)
    if not r.ok:
        raise ToolError(f"Options model failed: {r.violated} {r.error_text}")
    vecs = list({str(sorted(x.items())): x for x in r.records}.values())
    cov["states"], cov["transitions"] = r.distinct, r.generated
    cov["admissible_vectors"] = len(vecs)
    build_wild()
    rng = random.Random(ctx.seed)
    samples = []
    total = 0
    with scratch("c28") as d:
        bw = progs.linker_dir(d, "wild")
        bg = progs.linker_dir(d, "gnu")
        for name in progs.CORPUS:
            driver, objs = progs.compile_corpus(name, d / name)
            ref_out = d / name / "ref-gnu"
            rr = progs.drive(driver, bg, objs, ref_out)
            if rr.rc != 0:
                raise ToolError(f"GNU ld reference link failed: {rr}")
            ref = progs.execute(ref_out)
            chosen = covering_sample(list(vecs), rng, 40) if ctx.quick else list(vecs)

            def one(iv):
                i, vec = iv
                dflags, lflags = flags_of(vec)
                out = d / name / f"o{i}"
                lr = progs.drive(driver, bw, objs, out, dflags, lflags)
                beh = progs.execute(out) if lr.rc == 0 else None
                return i, vec, lr, beh

            with ThreadPoolExecutor(max_workers=6) as ex:
                results = list(ex.map(one, list(enumerate(chosen))))
            total += len(results)
            for i, vec, lr, beh in results:
                if lr.rc != 0:
                    if is_alloc_failure(lr.err):
                        key = f"link-fails:size-accounting:{vec['kind']}"
                    elif lr.klass() in ("panic", "hang") or lr.signaled:
                        key = f"link-{lr.klass()}:{vec['kind']}"
                    else:
                        key = f"link-rejected:{vec['kind']}:{[f for f in flags_of(vec)[1]]}"[:90]
                    ctx.verdict.report(key, f"{name}: wild failed to link with {vec}: {lr.err[-300:]}",
                                       lambda: save_replay(PROP, f"{name}-o{i}", d / name, meta={"vector": vec, "stderr": lr.err[-2000:]}))
                    continue
                if beh != ref:
                    diff_opts = [f"{k}={v}" for k, v in vec.items() if v != {"kind": "pie", "relax": "relax", "merge": "merge", "relr": "no-relr", "hash": "both", "buildid": "none", "gc": "gc"}.get(k)]
                    ctx.verdict.report(f"behaviour-differs:{name}:{vec['kind']}",
                                       f"{name} linked with {vec} behaves differently: {beh} vs reference {ref}",
                                       lambda: save_replay(PROP, f"{name}-o{i}", d / name, meta={"vector": vec, "observed": beh, "reference": ref, "non_default": diff_opts}))
            samples.append({"program": name, "vectors_linked_and_run": len(results), "reference_stdout": ref[1][:120]})
        # A shared library with many similarly named exported functions (names sharing suffixes fall
        # into the same SysV hash bucket), linked by wild under every hash style, used by an executable
        # that calls every function: the run-time loader's lookups are the observation.
        ld_dir = d / "shlib"
        ld_dir.mkdir()
        kinds_ops = [f"{a}_{b}" for a in ("list", "map", "tree", "heap", "ring", "trie", "set", "bag") for b in ("get", "set", "del", "len", "new")]
        (ld_dir / "lib.c").write_text("\n".join(f"int {n}(int x) {{ return x * {i + 3} + {i}; }}" for i, n in enumerate(kinds_ops)) + "\n")
        (ld_dir / "main.c").write_text("#include <stdio.h>\n" + "\n".join(f"int {n}(int);" for n in kinds_ops) +
                                       "\nint main(void) { long s = 0; " + " ".join(f"s += {n}({i});" for i, n in enumerate(kinds_ops)) +
                                       ' printf("sum=%ld\\n", s); return 0; }\n')
        from vlib.common import sh as _sh
        _sh(["gcc", "-c", "-O1", "-fPIC", "-o", ld_dir / "lib.o", ld_dir / "lib.c"], timeout=120, check=True)
        _sh(["gcc", "-c", "-O1", "-fPIE", "-o", ld_dir / "main.o", ld_dir / "main.c"], timeout=120, check=True)
        ref_so = ld_dir / "ref" / "libmany.so"
        ref_so.parent.mkdir()
        _sh(["gcc", f"-B{bg}/", "-shared", "-o", ref_so, ld_dir / "lib.o"], timeout=120, check=True)
        _sh(["gcc", f"-B{bg}/", "-o", ld_dir / "ref" / "main", ld_dir / "main.o", f"-L{ref_so.parent}", "-lmany", f"-Wl,-rpath,{ref_so.parent}"], timeout=120, check=True)
        ref_beh = progs.execute(ld_dir / "ref" / "main")
        n_sh = 0
        for hs in ("gnu", "sysv", "both"):
            for extra in ([], ["-Wl,--no-gc-sections"], ["-Wl,-z,now"]):
                vd = ld_dir / f"{hs}{len(extra)}{extra[0][-3:] if extra else ''}"
                vd.mkdir()
                so = vd / "libmany.so"
                r1 = _sh(["gcc", f"-B{bw}/", "-shared", f"-Wl,--hash-style={hs}", *extra, "-o", so, ld_dir / "lib.o"], timeout=120)
                r2 = _sh(["gcc", f"-B{bw}/", f"-Wl,--hash-style={hs}", *extra, "-o", vd / "main", ld_dir / "main.o", f"-L{vd}", "-lmany", f"-Wl,-rpath,{vd}"], timeout=120) if r1.rc == 0 else r1
                n_sh += 1
                if r2.rc != 0:
                    ctx.verdict.report(f"link-rejected:shlib-many-symbols:{hs}", f"wild failed to link the library/executable pair with hash-style {hs}: {r2.err[-300:]}",
                                       lambda: save_replay(PROP, f"shlib-{hs}", vd, meta={"hash_style": hs, "extra": extra, "stderr": r2.err[-1500:]}))
                    continue
                beh = progs.execute(vd / "main")
                if beh != ref_beh:
                    ctx.verdict.report(f"behaviour-differs:shlib-many-symbols:hash-{hs}",
                                       f"executable + shared library linked with --hash-style={hs} {extra}: {beh} vs reference {ref_beh}",
                                       lambda: save_replay(PROP, f"shlib-{hs}", ld_dir, meta={"hash_style": hs, "extra": extra, "observed": beh, "reference": ref_beh}))
        total += n_sh
        samples.append({"program": "shlib-many-symbols", "variants_linked_and_run": n_sh, "reference_stdout": ref_beh[1][:60]})
    cov["evaluations"] = total
    cov["distinct_nontrivial"] = total
    cov["rule"] = "distinct (program, option vector) pairs; each is a full link through the compiler driver followed by a native run"
    cov["samples"] = trim_samples(samples + [chosen[0]], 4, 500)
    cov["traces_validated_against_impl"] = total
    cov["exhaustive"] = not ctx.quick
    return {"level": "exploration", "coverage": cov, "assumptions": ["x86-64 glibc native execution", "objects compiled -fPIE"]}
