"""C29 - Alignment arithmetic is exact.

1. Spec: specs/Align.tla transcribes Alignment::{new, align_up, align_down, align_modulo} over the
   naturals and states the property twice (least/greatest form = the text; quantifier-free form).
2. TLC (MCAlign): enumerates (alignment, value, reference) cases - all 17 alignments on small and
   near-multiple values, small alignments densely - checks both forms on each case, checks Valid
   against "power of two <= 2^16", and prints one REPLAY record per case with the model's results.
   A deliberately broken align_up must be rejected (anti-vacuity).
3. TLAPS (Align_proofs.tla): for each of the 17 alignments, for ALL naturals: the transcribed
   functions satisfy the quantifier-free form and are least/greatest. Cached by fingerprint of the
   two modules in quick mode, re-checked from scratch in thorough mode.
4. Binding (mode F): every REPLAY record is replayed into the real functions through
   libwild::verif_api (harness/wildconf `align`) and compared for equality; 64-bit boundary values
   and seeded random (v, r) per alignment, which TLC cannot evaluate, are checked against the
   proved characterisation with exact integers; Alignment::new on every 2^0..2^63, neighbours, 0.
"""
import hashlib
import random
from concurrent.futures import ThreadPoolExecutor

from vlib import tlc
from vlib.common import CACHE, SPECS, ToolError, log, save_replay, sh, trim_samples
from vlib.conf import run_conf

PROP = "C29"
META = {
    "ready": True,
    "level": "model_checking",
    "technique": "TLA+ model of the alignment functions: TLAPS proof of the property for all naturals per alignment + TLC enumeration of cases, replayed into the real Alignment functions in-process (verif_api)",
    "level_text": "Align.tla transcribes Alignment::new/align_up/align_down/align_modulo; TLAPS proves for each of the 17 alignments and ALL natural v, r that the transcription yields the least multiple >= v, the greatest multiple <= v and the least value >= align_up(v) congruent to r (102 theorems); TLC checks the same statements, the least/greatest wording of the text and Valid on enumerated cases and exports every case with the model's result; every exported case is replayed into the real functions (equality), and 64-bit boundary and seeded random inputs are checked against the proved characterisation.",
    "level_note": "The proof is about the transcription, not the Rust: the link to the code is the replay (exhaustive on the TLC-enumerated small scope, sampled on 64-bit values); mask-vs-mod equivalence (& (a-1) vs % a) is covered by replay only. Inputs whose mathematical result does not fit in 64 bits are outside the property (no u64 answer exists) and only counted. Trusted: TLC, tlapm+Z3, the wildconf harness.",
    "engine": "tlc",
}

M64 = 1 << 64


def gen_proofs():
    """Text of specs/Align_proofs.tla (17 concrete instances x 6 theorems + 2 lemmas)."""
    out = ["""--------------------------- MODULE Align_proofs ---------------------------
(***************************************************************************)
(* TLAPS proofs for Align.tla (C29): for each of the 17 supported          *)
(* alignments a = 2^k (as a literal: the general non-linear statement does *)
(* not go through the SMT backends, the concrete instances do), for ALL    *)
(* natural numbers v, r (hence all 64-bit values):                         *)
(*   Up_k      AlignUp(a,v) is a multiple of a, >= v, less than a above v  *)
(*   UpLeast_k every multiple of a that is >= v is >= AlignUp(a,v)         *)
(*   Down_k / DownGreatest_k   dually                                      *)
(*   Mod_k     AlignModulo(a,r,v) >= AlignUp(a,v), congruent to r mod a,   *)
(*             less than a above AlignUp(a,v)                              *)
(*   ModLeast_k every x >= AlignUp(a,v) congruent to r is >= AlignModulo   *)
(*   (via ModClosed_k: AlignModulo(a,r,v) = AlignUp(a,v) + r % a)          *)
(* Checked with `tlapm Align_proofs.tla` (generated file: do not edit by   *)
(* hand; the generator is in harness/py/checks/c29.py: gen_proofs()).      *)
(***************************************************************************)
EXTENDS Align, TLAPS
"""]
    for k in range(17):
        a = 1 << k
        out.append(f"""
THEOREM Up_{k} == \\A v \\in Nat : IsAlignUp({a}, v, AlignUp({a}, v))
  BY Z3T(60) DEF IsAlignUp, AlignUp
THEOREM UpLeast_{k} == \\A v \\in Nat, x \\in Nat : (x % {a} = 0 /\\ x >= v) => x >= AlignUp({a}, v)
  BY Z3T(60) DEF AlignUp
THEOREM Down_{k} == \\A v \\in Nat : IsAlignDown({a}, v, AlignDown({a}, v))
  BY Z3T(60) DEF IsAlignDown, AlignDown
THEOREM DownGreatest_{k} == \\A v \\in Nat, x \\in Nat : (x % {a} = 0 /\\ x <= v) => x <= AlignDown({a}, v)
  BY Z3T(60) DEF AlignDown
LEMMA UpNat_{k} == \\A v \\in Nat : AlignUp({a}, v) \\in Nat /\\ AlignUp({a}, v) % {a} = 0
  BY Z3T(60) DEF AlignUp
LEMMA ModClosed_{k} == \\A v \\in Nat, r \\in Nat : AlignModulo({a}, r, v) = AlignUp({a}, v) + (r % {a})
  BY UpNat_{k}, Z3T(60) DEF AlignModulo
THEOREM Mod_{k} == \\A v \\in Nat, r \\in Nat : IsAlignModulo({a}, r, v, AlignModulo({a}, r, v))
<1> TAKE v \\in Nat, r \\in Nat
<1>1. AlignUp({a}, v) \\in Nat /\\ AlignUp({a}, v) % {a} = 0
  BY UpNat_{k}
<1>2. AlignModulo({a}, r, v) = AlignUp({a}, v) + (r % {a})
  BY ModClosed_{k}
<1>3. r % {a} \\in 0..{a - 1}
  BY Z3T(60)
<1>4. (AlignUp({a}, v) + (r % {a})) % {a} = r % {a}
  BY <1>1, <1>3, Z3T(60)
<1> QED
  BY <1>1, <1>2, <1>3, <1>4, Z3T(60) DEF IsAlignModulo
THEOREM ModLeast_{k} == \\A v \\in Nat, r \\in Nat, x \\in Nat :
    (x >= AlignUp({a}, v) /\\ x % {a} = r % {a}) => x >= AlignModulo({a}, r, v)
  BY UpNat_{k}, ModClosed_{k}, Z3T(60)""")
    out.append("\n=============================================================================\n")
    return "\n".join(out)


def check_proofs(ctx, cov):
    """Run tlapm on Align_proofs.tla (cached by fingerprint in quick mode)."""
    import re
    import shutil
    text = (SPECS / "Align_proofs.tla").read_text()
    if text != gen_proofs():
        raise ToolError("specs/Align_proofs.tla differs from gen_proofs(): regenerate it, do not hand-edit")
    ver = sh(["tlapm", "--version"], timeout=30).out.strip()
    fp = hashlib.sha256(((SPECS / "Align.tla").read_text() + text + ver).encode()).hexdigest()[:16]
    d = CACHE / "tlaps" / "C29"
    stamp = d / f"{fp}.ok"
    cmd = "tlapm --threads 4 Align_proofs.tla"
    cov["checker_cmd"] = f"cd specs && {cmd}"
    cov["trusted_base"] = ["tlapm " + ver, "Z3 (SMT backend)", "TLC", "transcription of alignment.rs in Align.tla"]
    if ctx.quick and stamp.exists():
        n = int(stamp.read_text().split()[0])
        cov["obligations"] = cov["discharged"] = n
        cov["proof_cached"] = True
        return
    work = d / "work"
    shutil.rmtree(work, ignore_errors=True)
    work.mkdir(parents=True)
    for f in ("Align.tla", "Align_proofs.tla"):
        shutil.copy(SPECS / f, work / f)
    # tlapm keeps the fingerprints of proved obligations in the work directory: a re-run only retries
    # what failed (an SMT timeout on a loaded machine is not a disproof)
    m = None
    for attempt in range(3):
        r = sh(["tlapm", "--threads", "4", "Align_proofs.tla"], timeout=1500, cwd=work)
        out = r.out + r.err
        if r.timed_out:
            raise ToolError("tlapm timed out on Align_proofs.tla")
        m = re.search(r"All (\d+) obligations? proved", out)
        if m and r.rc == 0:
            break
        log(f"C29: tlapm attempt {attempt + 1}: not all obligations proved, retrying the failed ones")
    if not m or r.rc != 0:
        raise ToolError("tlapm did not prove Align_proofs.tla:\n" + out[-3000:])
    cov["proof_attempts"] = attempt + 1
    n = int(m.group(1))
    cov["obligations"] = cov["discharged"] = n
    cov["proof_cached"] = False
    cov["proof_wall_s"] = round(r.wall, 1)
    stamp.write_text(f"{n} obligations proved by {ver}\n")
    shutil.rmtree(work, ignore_errors=True)


def model_check(ctx, cov):
    cfgs = [("mc/Align_quick.cfg", 600), ("mc/Align_dense.cfg", 600)]
    if not ctx.quick:
        cfgs.append(("mc/Align_thorough.cfg", 1500))

    def one(c):
        cfg, to = c
        return cfg, tlc.run_tlc("MCAlign", cfg, workers=4 if "thorough" in cfg else 2, timeout=to, coverage=False)

    with ThreadPoolExecutor(max_workers=3) as ex:
        results = list(ex.map(one, cfgs))
        broken = ex.submit(lambda: tlc.run_tlc("MCAlign", "mc/Align_broken.cfg", workers=1, timeout=300,
                                               coverage=False)).result()
    states = trans = 0
    records = []
    runs = []
    for cfg, r in results:
        runs.append({"cfg": cfg, **r.summary(), "records": len(r.records)})
        if not r.ok:
            raise ToolError(f"Align model check failed ({cfg}): {r.violated} {r.error_text}\n{r.trace_text[:2000]}{r.out[-1500:]}")
        if len(r.records) != r.distinct:
            raise ToolError(f"{cfg}: {r.distinct} states but {len(r.records)} REPLAY records")
        states += r.distinct
        trans += r.generated
        records += [x for x in r.records if x["kind"] != "pre"]
    if broken.ok or broken.violated != "QfCorrect":
        raise ToolError("broken align_up variant was NOT rejected by TLC: invariants are vacuous")
    runs.append({"cfg": "mc/Align_broken.cfg", "expected_violation": broken.violated})
    cov["states"], cov["transitions"], cov["tlc_runs"] = states, trans, runs
    return records


def is_up(a, v, u):
    return u % a == 0 and u >= v and u - v < a


def is_down(a, v, d):
    return d % a == 0 and d <= v and v - d < a


def is_modulo(a, r, v, up, m):
    return m >= up and m % a == r % a and m - up < a


def boundary_values(a):
    vals = {0, 1, 2, a - 1, a, a + 1, 2 * a - 1, 2 * a, 3 * a + 1}
    for p in (16, 31, 32, 33, 47, 48, 62, 63):
        for d in (-a - 1, -a, -1, 0, 1, a - 1, a, a + 1):
            vals.add((1 << p) + d)
    for d in range(0, 4):
        vals.add(M64 - 1 - d)
        vals.add(M64 - a - d)
        vals.add(M64 - a + d)
        vals.add(M64 - 2 * a - d)
    return sorted(x for x in vals if 0 <= x < M64)


def run(ctx):
    cov = {"samples": []}
    rng = random.Random(ctx.seed)
    check_proofs(ctx, cov)
    records = model_check(ctx, cov)
    log(f"C29: {len(records)} TLC cases; proofs: {cov.get('discharged')} obligations (cached={cov.get('proof_cached')})")

    def violation(key, text, meta):
        ctx.verdict.report(key, text, lambda: save_replay(PROP, key.replace("/", "_").replace(":", "_"), meta=meta))

    # ---- (a) replay of every TLC case: equality with the model's result
    reqs, expect = [], []
    seen = set()
    for rec in records:
        if rec["kind"] == "arith":
            k, v, r = rec["k"], rec["v"], rec["r"]
            for op, want in (("up", rec["up"]), ("down", rec["down"])):
                if (op, k, v) in seen:
                    continue
                seen.add((op, k, v))
                reqs.append({"op": op, "exp": k, "v": v})
                expect.append(("r", want, rec))
            reqs.append({"op": "modulo", "exp": k, "ref": r, "v": v})
            expect.append(("r", rec["mod"], rec))
        else:
            reqs.append({"op": "new", "raw": rec["raw"]})
            expect.append(("new", (rec["valid"], rec["exp"]), rec))
    # Alignment::value for every exponent
    for k in range(17):
        reqs.append({"op": "value", "exp": k})
        expect.append(("r", 1 << k, {"kind": "value", "k": k}))
    res = run_conf("align", reqs, timeout=600)
    replayed = 0
    for q, (kind, want, rec), got in zip(reqs, expect, res):
        replayed += 1
        if "panic" in got:
            violation(f"{q['op']}:panic-in-domain", f"{q} panicked: {got['panic']}", {"request": q, "model": rec, "got": got})
            continue
        if kind == "r":
            if got.get("r") != want:
                violation(f"{q['op']}:wrong-result", f"{q}: real={got.get('r')} model={want}",
                          {"request": q, "model": rec, "got": got, "replay": "echo '<request>' | wildconf align"})
        else:
            valid, exp = want
            if got.get("ok") != valid or (valid and got.get("exp") != exp):
                violation("new:accept-mismatch", f"Alignment::new({q['raw']}): real={got} model valid={valid} exp={exp}",
                          {"request": q, "model": rec, "got": got})
    cov["samples"] += [{"tlc_case": records[i], } for i in (0, len(records) // 2, len(records) - 1)]

    # ---- (b) Alignment::new beyond TLC's integers: 2^31..2^63 and neighbours, must all be rejected
    #      (NoLargeValid: no valid alignment exceeds 65536; checked by TLC as an ASSUME)
    raws = sorted({(1 << j) + d for j in range(31, 64) for d in (-1, 0, 1)} | {M64 - 1})
    res = run_conf("align", [{"op": "new", "raw": x} for x in raws])
    for x, got in zip(raws, res):
        replayed += 1
        if got.get("ok") is not False:
            violation("new:accept-mismatch", f"Alignment::new({x:#x}) accepted: {got}", {"raw": x, "got": got})

    # ---- (c) 64-bit boundary values against the proved characterisation
    reqs, meta = [], []
    unrep_boundary = 0
    for k in range(17):
        a = 1 << k
        vals = boundary_values(a)
        refs = [0, 1, a - 1, a + 1, (1 << 63) + 5, M64 - 1, rng.getrandbits(64)]
        for v in vals:
            reqs.append({"op": "down", "exp": k, "v": v})
            meta.append(("down", a, v, 0))
            up_math = -(-v // a) * a
            if up_math < M64:
                reqs.append({"op": "up", "exp": k, "v": v})
                meta.append(("up", a, v, 0))
            for r in refs:
                r %= M64
                if up_math + (r % a) < M64:
                    reqs.append({"op": "modulo", "exp": k, "ref": r, "v": v})
                    meta.append(("modulo", a, v, r))
                else:
                    unrep_boundary += 1
    res = run_conf("align", reqs, timeout=600)
    boundary = 0
    for q, (op, a, v, r), got in zip(reqs, meta, res):
        boundary += 1
        if "panic" in got:
            violation(f"{op}:panic-in-domain", f"{q} panicked although the result is representable: {got['panic']}",
                      {"request": q, "got": got})
            continue
        x = got["r"]
        up_math = -(-v // a) * a
        ok = {"up": lambda: is_up(a, v, x), "down": lambda: is_down(a, v, x),
              "modulo": lambda: is_modulo(a, r, v, up_math, x)}[op]()
        if not ok:
            violation(f"{op}:wrong-result", f"{q}: real={x} violates the characterisation (a={a})",
                      {"request": q, "got": got})
    cov["samples"].append({"boundary_case": reqs[len(reqs) // 3], "result": res[len(reqs) // 3]})

    # ---- (d) seeded random 64-bit (v, r) per alignment, evaluated in wildconf, failures re-verified here
    n = 100_000 if ctx.quick else 1_000_000
    res = run_conf("align", [{"op": "sweep", "exp": k, "n": n, "seed": ctx.seed * 1000 + k} for k in range(17)],
                   timeout=900)
    random_eval = unrep = 0
    for k, got in enumerate(res):
        if "panic" in got:
            raise ToolError(f"sweep panicked outside a guarded call: {got}")
        random_eval += got["evaluated"]
        unrep += got["unrepresentable"]
        for f in got["failures"]:
            a, v, r, x = 1 << k, f["v"], f["ref"], f["got"]
            up_math = -(-v // a) * a
            if f.get("panic") is not None:
                violation(f"{f['what']}:panic-in-domain", f"sweep: {f}", {"failure": f})
                continue
            ok = {"up": lambda: is_up(a, v, x), "down": lambda: is_down(a, v, x),
                  "modulo": lambda: is_modulo(a, r, v, up_math, x)}[f["what"]]()
            if ok:
                raise ToolError(f"wildconf reported a failure that python does not confirm: {f}")
            violation(f"{f['what']}:wrong-result", f"sweep: exp={k} {f}", {"failure": f})
    cov["traces_validated_against_impl"] = replayed
    cov["boundary_cases_64bit"] = boundary
    cov["random_evaluations_64bit"] = random_eval
    cov["unrepresentable_inputs_skipped"] = unrep + unrep_boundary
    cov["samples"] = trim_samples(cov["samples"], 5, 600)
    return {
        "level": "model_checking",
        "coverage": cov,
        "assumptions": [
            "Align.tla is a faithful transcription of alignment.rs (bound by replay: every TLC-enumerated case must give the identical result in the real function)",
            "inputs whose exact result exceeds 2^64-1 are outside the property (no 64-bit answer exists); they are counted, not judged",
            "TLAPS proves the 17 concrete instances (general non-linear statement not provable with the SMT backends)",
        ],
    }

