"""C30 - Constructor and destructor order matches GNU ld.

1. TLC, exhaustive over bounded scenarios (specs/InitOrder.tla, MCInitOrder.tla): <= 3 objects x <= 3
   entries in .preinit_array / .init_array[.N] / .fini_array[.N] / .ctors[.N] / .dtors[.N] with
   N in {0, 1, 100, 101, 65534, 65535, ..}, entries sharing a section, section types that do not
   match the name (.init_array* as SHT_PROGBITS, .ctors/.dtors as SHT_INIT/FINI_ARRAY), archive
   members with all extraction layouts.  The operational transcription of wild's rule (file order, init_fini_priority,
   get_or_create_init_fini_secondary, the stable sort of the secondaries, reversal of .ctors/.dtors
   contents) is compared with the declarative GNU ld rule `Order`:  Conforms (the intended rule =
   Order), DevsLocal (the three recorded deviations of the pinned tree only matter inside their
   declaratively defined classes).  A config in which the pinned transcription is claimed to conform
   everywhere must be violated, and so must a variant that decides the reversal by section TYPE
   instead of NAME (anti-vacuity).
2. Replay: a seeded sample of the terminal states is printed as REPLAY records (scenario, Order, the
   prediction of every deviation variant).  Each becomes real assembly -> objects/archive, linked by
   GNU ld (the property's reference) and by wild; the arrays are read back from both outputs with the
   independent ELF reader and both programs are executed (a freestanding _start walks
   __preinit_array_start.., __init_array_start.., and __fini_array_end.. backwards; every constructor
   logs its id).   spec Order != GNU ld  -> tool error (the spec must equal GNU ld);
   wild != GNU ld -> violation; the key is the recorded deviation(s) whose variant predicts exactly
   what wild emitted, or `order-mismatch:..` if no variant does.
3. Binding demonstration: a corrupted expectation and a corrupted output must both be reported.
"""
import json
import os
import random
import shutil
import struct
from concurrent.futures import ThreadPoolExecutor
from pathlib import Path

from vlib import initorder as io
from vlib import tlc
from vlib.common import ToolError, build_wild, log, save_replay, scratch, trim_samples
from vlib.elf import Elf

PROP = "C30"
META = {
    "ready": True,
    "level": "model_checking",
    "technique": "TLA+ spec of GNU ld's constructor-order rule and an operational transcription of wild's rule compared exhaustively by TLC on bounded scenarios; TLC-enumerated scenarios replayed into real wild and real GNU ld links whose arrays are read back and executed",
    "level_text": "TLC explores every scenario with <=3 objects x <=3 entries (<=3-4 in total) over the five input arrays and the priority suffixes {none,0,1,100,101,65534,65535,..}, plus all archive layouts of <=3 members, and checks that the transcription of wild's ordering rule equals the declarative GNU ld rule outside three recorded deviation classes; a seeded sample of those scenarios (with the spec's predicted order) is linked with wild and with GNU ld 2.40, the arrays are read from both outputs and both programs are run: spec = GNU ld is enforced on every case, and wild must equal it.",
    "level_note": "Only the model is exhaustive; the real linker is exercised on a seeded sample of the TLC-enumerated scenarios (x86-64, static non-PIE, 8-byte aligned entries, freestanding start-up code instead of glibc). Trusted base: TLC, GNU ld 2.40 as the reference, the ELF reader, the assembler.",
    "engine": "tlc",
}
EXPECTED_ACTIONS = ["Load", "ResolveObj", "SortSecondaries", "Emit"]
DEV_KEYS = {
    "maxmerge": "explicit-priority-65535-merged-with-unprioritised",
    "tieinput": "ctors-vs-init_array-equal-priority-input-order",
    "arorder": "archive-members-in-archive-order-not-extraction-order",
}
DEV_ORDER = ["maxmerge", "tieinput", "arorder"]


# ---------------------------------------------------------------------------------------------
# TLC


def model_check(ctx, cov):
    if ctx.quick:
        cfgs = [("mc/InitOrder_quick.cfg", 6, 900, 32)]
    else:
        cfgs = [("mc/InitOrder_thorough.cfg", 3, 2400, 128), ("mc/InitOrder_thorough_b.cfg", 3, 2400, 128)]
    dev_mod = os.environ.get("VERIF_C30_MOD")      # development aid: thinner sample
    env_for = lambda mod: {"C30_MOD": dev_mod or str(mod), "C30_SEED": str(ctx.seed % 1000003)}  # noqa: E731

    def one(c):
        cfg, workers, to, mod = c
        return c, tlc.run_tlc("MCInitOrder", cfg, workers=workers, timeout=to, env=env_for(mod),
                              jvm_opts=["-XX:ParallelGCThreads=2"])

    def refuted(c):
        cfg, inv = c
        return c, tlc.run_tlc("MCInitOrder", cfg, workers=1, timeout=900, coverage=False, env=env_for(1),
                              jvm_opts=["-XX:ParallelGCThreads=2"])

    # anti-vacuity runs (must be refuted by TLC): "the pinned transcription conforms everywhere", and a
    # transcription that decides the .ctors/.dtors reversal by section type instead of section name
    anti = [("mc/InitOrder_deviates.cfg", "PinnedConformsEverywhere"), ("mc/InitOrder_bytype.cfg", "Conforms")]
    with ThreadPoolExecutor(max_workers=len(cfgs) + len(anti)) as ex:
        fut_anti = [ex.submit(refuted, c) for c in anti]
        results = list(ex.map(one, cfgs))
        anti_results = [f.result() for f in fut_anti]
    records, runs = [], []
    states = trans = 0
    for (cfg, _w, to, mod), r in results:
        runs.append({"cfg": cfg, "sample": f"1/{mod}", "records": len(r.records), **r.summary()})
        if r.timed_out:
            raise ToolError(f"TLC timed out on {cfg} after {to}s ({r.distinct} states)")
        if not r.ok:
            # declarative rule != operational transcription inside the spec: a statement about the
            # model, not (yet) about wild
            raise ToolError(f"InitOrder model check failed ({cfg}): {r.violated} {r.error_text}\n{r.trace_text[:3000]}")
        missing = tlc.zero_coverage_actions(r, EXPECTED_ACTIONS)
        if missing:
            raise ToolError(f"vacuous model run {cfg}: actions never taken: {missing}")
        states += r.distinct
        trans += r.generated
        records += r.records
    for (cfg, inv), r in anti_results:
        if r.ok or r.violated != inv:
            raise ToolError(f"anti-vacuity run {cfg} was not rejected as expected: ok={r.ok} violated={r.violated} {r.error_text}")
        runs.append({"cfg": cfg, "expected_violation": r.violated, "states_to_find": r.distinct})
    cov["states"] = states
    cov["transitions"] = trans
    cov["tlc_runs"] = runs
    if not records:
        raise ToolError("TLC produced no REPLAY records")
    return records


# ---------------------------------------------------------------------------------------------
# replay of one record


def names(seq):
    return [io.fname(o, e) for o, e in seq]


def predicted(rec):
    """[(frozenset(devs), {array: names})] for all variants incl. the conforming one, smallest first."""
    out = [(frozenset(), {a: names(rec["expect"].get(a, [])) for a in io.OUT_ARRAYS})]
    for v in rec.get("variants", []):
        out.append((frozenset(v["devs"]), {a: names(v["out"].get(a, [])) for a in io.OUT_ARRAYS}))
    out.sort(key=lambda x: (len(x[0]), sorted(DEV_ORDER.index(d) for d in x[0])))
    return out


def sec_label(e):
    n = io.section_name(e["a"], e["p"])
    return n if io.entry_type(e) == io.NATIVE_T[e["a"]] else f"{n}@{io.entry_type(e)}"


def scn_signature(rec):
    secs = sorted({sec_label(e) for ob in rec["objs"] for e in ob["entries"]})
    lay = "ar" if any(ob["member"] for ob in rec["objs"]) else "plain"
    return lay + ":" + ",".join(secs)


def wild_options(rec, rng):
    """Options that must not influence the order (mostly few threads: 16 idle threads per link make the
    replay several times slower on a busy machine)."""
    extra, env = [], {}
    t = rng.choice([1, 2, 2, 2, 4, 4, 8, None])
    if t is not None:
        extra.append(f"--threads={t}")
    if rng.random() < 0.75:
        extra.append("--no-fork")
    if rng.random() < 0.3:
        env["WILD_FILES_PER_GROUP"] = "1"
    return extra, env


def replay_one(rec, d, cache, opts, mutate=None):
    """Build, link with both linkers, observe.  Returns a result dict; raises ToolError if the
    reference side (GNU ld / spec / glue) is not as it must be."""
    d.mkdir(parents=True, exist_ok=True)
    info = {}
    inputs = io.emit(rec, d, cache=cache, info=info)
    extra, env = opts
    res = {"inputs": [str(p) for p in inputs], "wild_extra": extra, "wild_env": env}
    # what the objects really contain (read back): array-named sections typed PROGBITS with >= 2 entries,
    # and .ctors/.dtors typed INIT_ARRAY/FINI_ARRAY with >= 2 entries
    secs = [x for p in info["objects"].values() for x in io.input_section_types(p)]
    res["progbits_array_multi"] = sum(1 for n, t, k in secs if not n.startswith((".ctors", ".dtors")) and t == 1 and k >= 2)
    res["array_typed_legacy_multi"] = sum(1 for n, t, k in secs if n.startswith((".ctors", ".dtors")) and t != 1 and k >= 2)
    res["retyped"] = {f"o{o}": io.retypes(ob) for o, ob in enumerate(rec["objs"], 1) if io.retypes(ob)}
    exp = predicted(rec)[0][1]
    if mutate == "expectation":            # binding demonstration: corrupt the oracle side
        arr = max(io.OUT_ARRAYS, key=lambda a: len(exp[a]))
        exp = dict(exp)
        exp[arr] = exp[arr][1:] + exp[arr][:1]
    # reference: GNU ld
    g = io.link_gnu(inputs, d / "out.gnu")
    if g.rc != 0 or g.timed_out:
        raise ToolError(f"GNU ld failed on a generated scenario {json.dumps(rec['objs'])}: {g}")
    garr, _gb, _gl = io.read_arrays(d / "out.gnu")
    if mutate != "expectation" and garr != exp:
        raise ToolError("spec Order != GNU ld (the spec must be fixed): "
                        f"scenario={json.dumps(rec['objs'])} spec={exp} gnu_ld={garr}")
    gex, gerr = io.execute_bytes(d / "out.gnu", rec)
    if gex is None:
        raise ToolError(f"program linked by GNU ld did not run: {gerr} scenario={json.dumps(rec['objs'])}")
    if gex != {"preinit": garr["preinit"], "init": garr["init"], "fini": garr["fini"][::-1]}:
        raise ToolError(f"start-up glue does not run the arrays as laid out (GNU ld output): arrays={garr} run={gex}")
    res["expect"] = exp
    # wild
    w = io.link_wild(inputs, d / "out.wild", extra, env)
    res["wild_rc"], res["wild_class"], res["wild_err"] = w.rc, w.klass(), w.err[-600:]
    if w.rc != 0 or w.timed_out:
        return res
    if mutate == "output":                 # binding demonstration: corrupt the observation
        corrupt_output(d / "out.wild")
    try:
        warr, wb, wl = io.read_arrays(d / "out.wild")
    except Exception as e:  # noqa
        res["wild_unreadable"] = repr(e)
        return res
    res["wild_arrays"], res["wild_bounds"], res["wild_leftover_sections"] = warr, wb, wl
    wex, werr = io.execute_bytes(d / "out.wild", rec)
    res["wild_run"], res["wild_run_err"] = wex, werr
    return res


def corrupt_output(path):
    """Swap the first two slots of the longest array in a linked output (or zero a slot)."""
    e = Elf(path)
    best = None
    for n in io.OUT_SECTION.values():
        s = e.section(n)
        if s and (best is None or s["size"] > best["size"]):
            best = s
    data = bytearray(Path(path).read_bytes())
    off = best["offset"]
    if best["size"] >= 16:
        a, b = data[off:off + 8], data[off + 8:off + 16]
        if a == b:
            raise ToolError("cannot corrupt: equal slots")
        data[off:off + 8], data[off + 8:off + 16] = b, a
    else:
        v = struct.unpack_from("<Q", data, off)[0]
        struct.pack_into("<Q", data, off, v + 5)       # points into the middle of a function
    Path(path).write_bytes(bytes(data))


def judge(rec, res, report, tag):
    """Compare wild's observed behaviour with GNU ld's (= spec).  `report(key, text)` on a difference.
    Returns a classification string."""
    exp = res["expect"]
    sig = scn_signature(rec)
    if res.get("wild_rc") != 0:
        report(f"wild-link-failed:{res.get('wild_class')}:{sig}",
               f"wild failed ({res.get('wild_class')}) on a program GNU ld links; no constructor arrays emitted: "
               f"{res.get('wild_err', '')[-300:]!r} scenario={json.dumps(rec['objs'])}", tag)
        return "link-failed"
    if "wild_arrays" not in res:
        report(f"wild-output-unreadable:{sig}", f"{res.get('wild_unreadable')}", tag)
        return "unreadable"
    warr = res["wild_arrays"]
    verdict = "conform"
    if warr != exp:
        match = next((devs for devs, out in predicted(rec) if out == warr), None)
        diff = [a for a in io.OUT_ARRAYS if warr[a] != exp[a]]
        if match:
            verdict = "known-deviation:" + "+".join(sorted(match, key=DEV_ORDER.index))
            for dname in sorted(match, key=DEV_ORDER.index):
                report(DEV_KEYS[dname],
                       f"arrays {diff} differ from GNU ld exactly as deviation '{dname}' of InitOrder.tla predicts: "
                       f"wild={ {a: warr[a] for a in diff} } gnu_ld={ {a: exp[a] for a in diff} } "
                       f"scenario={json.dumps(rec['objs'])}", tag)
        else:
            verdict = "mismatch"
            report(f"order-mismatch:{'+'.join(diff)}:{sig}",
                   f"arrays {diff} emitted by wild differ from GNU ld (and from every recorded deviation): "
                   f"wild={ {a: warr[a] for a in diff} } gnu_ld={ {a: exp[a] for a in diff} } "
                   f"scenario={json.dumps(rec['objs'])}", tag)
    # what actually runs must be what lies in the arrays (fini backwards)
    run = res.get("wild_run")
    want_run = {"preinit": warr["preinit"], "init": warr["init"], "fini": warr["fini"][::-1]}
    if run is None:
        report(f"wild-output-does-not-run:{sig}",
               f"program linked by wild did not run to completion ({res.get('wild_run_err')}); GNU ld's does. "
               f"scenario={json.dumps(rec['objs'])}", tag)
        verdict += "+norun"
    elif run != want_run:
        diff = [a for a in io.OUT_ARRAYS if run[a] != want_run[a]]
        report(f"executed-order-differs-from-array:{'+'.join(diff)}:{sig}",
               f"constructors executed {run} but the arrays hold {warr} (start/end symbols or section bounds wrong: "
               f"{res.get('wild_bounds')}) scenario={json.dumps(rec['objs'])}", tag)
        verdict += "+runs-differently"
    return verdict


def make_replay_dir(rec, res, case_dir, name, note):
    """Self-contained replay: sources, objects, outputs, command lines, observed/expected."""
    srcs = io.sources(rec)
    files = {f"src/{k}.s": v for k, v in srcs.items()}
    files["scenario.json"] = json.dumps(rec, indent=1)
    files["retyped_sections.json"] = json.dumps(res.get("retyped", {}), indent=1)   # sh_type patched after `as`
    meta = {"property": PROP, "note": note, "scenario": rec["objs"],
            "how": "./check C30 --replay <this dir> re-assembles src/*.s, links with GNU ld and wild and compares",
            "inputs_in_link_order": [Path(p).name for p in res.get("inputs", [])],
            "wild_cmd": ["wild", *[Path(p).name for p in res.get("inputs", [])], "-o", "out.wild", *res.get("wild_extra", [])],
            "gnu_cmd": ["ld", *[Path(p).name for p in res.get("inputs", [])], "-o", "out.gnu"],
            "env": res.get("wild_env", {}),
            "expected(GNU ld = spec Order)": res.get("expect"),
            "observed(wild arrays)": res.get("wild_arrays"),
            "observed(wild executed; fini runs backwards)": res.get("wild_run"),
            "wild_rc": res.get("wild_rc"), "wild_err": res.get("wild_err")}
    dst = save_replay(PROP, name, src_dir=case_dir, files=files, meta=meta)
    for p in res.get("inputs", []):
        p = Path(p)
        if p.exists() and not (dst / p.name).exists():
            shutil.copy(p, dst / p.name)
    return dst


# ---------------------------------------------------------------------------------------------


def run(ctx):
    cov = {"samples": []}
    rng = random.Random(ctx.seed)
    records = model_check(ctx, cov)
    build_wild()
    # the sample must contain, for every recorded deviation, a scenario in which only that deviation
    # is active and the model says the pinned tree deviates (so the classes are not vacuous)
    for dname in DEV_ORDER:
        if not any(r["classes"] == [dname] and r["pinned_deviates"] for r in records):
            raise ToolError(f"sample holds no scenario isolating deviation '{dname}'")
    records.sort(key=lambda r: json.dumps(r, sort_keys=True))     # TLC workers print in any order
    log(f"C30: {len(records)} REPLAY records from TLC")
    opts = [wild_options(r, rng) for r in records]
    counts = {}
    with scratch("c30") as d:
        cache = d / "objcache"
        cache.mkdir()

        def job(i):
            return replay_one(records[i], d / f"c{i}", cache, opts[i])

        with ThreadPoolExecutor(max_workers=8) as ex:
            results = list(ex.map(job, range(len(records))))
        saved = {}          # key -> first replay dir (at most 2 fresh replay dirs per key)

        for i, (rec, res) in enumerate(zip(records, results)):
            def report(key, text, tag, rec=rec, res=res, i=i):
                def maker():
                    n, first = saved.get(key, (0, None))
                    if n >= 2:
                        return first
                    p = make_replay_dir(rec, res, d / f"c{i}", f"{tag}-{i}", text)
                    saved[key] = (n + 1, first or p)
                    return p
                ctx.verdict.report(key, text, maker)
            v = judge(rec, res, report, "case")
            counts[v] = counts.get(v, 0) + 1
            if len(cov["samples"]) < 4 and (i % 97 == 0 or v != "conform"):
                cov["samples"].append({"objs": [[sec_label(e) for e in ob["entries"]] +
                                                ([f"member<-{ob['pulledby']}"] if ob["member"] else [])
                                                for ob in rec["objs"]],
                                       "spec_order=gnu_ld": res["expect"], "wild": res.get("wild_arrays"),
                                       "wild_executed": res.get("wild_run"), "verdict": v,
                                       "wild_options": res["wild_extra"] + [f"{k}={x}" for k, x in res["wild_env"].items()]})
        # anti-vacuity of the section-type dimension: objects whose .init_array*/.fini_array* input
        # sections really are SHT_PROGBITS and hold >= 2 entries must have been linked
        n_pb = sum(1 for r in results if r.get("progbits_array_multi"))
        n_conv = sum(1 for r in results if r.get("array_typed_legacy_multi"))
        cov["cases_with_progbits_typed_array_section_of_2+_entries"] = n_pb
        cov["cases_with_array_typed_ctors_dtors_section_of_2+_entries"] = n_conv
        if n_pb < 9 or n_conv < 4:      # the always-sampled scenarios alone give 9 and 4
            raise ToolError(f"too few replayed cases with mistyped multi-entry sections: progbits-array={n_pb} array-legacy={n_conv}")
        # binding demonstration: corrupted oracle / corrupted observation must be reported
        demo = []
        base = next((i for i, (rec, res) in enumerate(zip(records, results))
                     if res.get("wild_arrays") == res["expect"] and
                     max(len(set(res["expect"][a])) for a in io.OUT_ARRAYS) >= 2), None)
        if base is None:
            raise ToolError("no conforming multi-entry case for the binding demonstration")
        for mut in ("expectation", "output"):
            got = []
            res = replay_one(records[base], d / f"demo-{mut}", cache, opts[base], mutate=mut)
            judge(records[base], res, lambda key, text, tag: got.append(key), "demo")
            demo.append({"mutation": f"corrupt-{mut}", "reported": got[:2]})
            if not got:
                raise ToolError(f"binding demonstration failed: corrupted {mut} was accepted")
        cov["binding_demo"] = demo
    cov["traces_validated_against_impl"] = len(records)
    cov["replay_verdicts"] = counts
    cov["reference"] = "GNU ld 2.40 linked and ran every replayed scenario; spec Order == GNU ld arrays on all of them"
    cov["samples"] = trim_samples(cov["samples"], 4, 1500)
    return {
        "level": "model_checking",
        "coverage": cov,
        "assumptions": [
            "GNU ld 2.40 with its default linker script is the reference (checked on every replayed scenario against the spec)",
            "the real linker is exercised on a seeded sample of the TLC-enumerated scenarios; only the model is exhaustive",
            "x86-64 static non-PIE links, 8-byte aligned one-pointer entries, priorities with canonical decimal suffixes 0..65535",
            "freestanding start-up code walks the arrays as glibc does (preinit, init forwards; fini backwards)",
        ],
    }


def replay(ctx, path):
    """./check C30 --replay <dir>: rebuild the scenario of a saved replay and judge it again."""
    rec = json.loads((path / "scenario.json").read_text())
    meta = json.loads((path / "replay.json").read_text()) if (path / "replay.json").exists() else {}
    build_wild()
    extra = [a for a in meta.get("wild_cmd", []) if a.startswith(("--threads", "--no-fork"))]
    with scratch("c30r") as d:
        res = replay_one(rec, d / "case", None, (extra, meta.get("env", {})))
        judge(rec, res, lambda key, text, tag: ctx.verdict.report(key, text, lambda: path), "replay")
        print(json.dumps({"expected": res["expect"], "wild": res.get("wild_arrays"), "wild_executed": res.get("wild_run")}))
    return 1 if ctx.verdict.failed else 0
