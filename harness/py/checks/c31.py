"""C31 - Symbol tables describe the final resolution.

1. TLC (specs/SymTabs.tla) enumerates every option configuration (output kind exe/pie/shared x
   export option none/--export-dynamic/--export-dynamic-symbol/--export-dynamic-symbol-list/
   --dynamic-list x --exclude-libs none/ALL/<archives by name> x version script none/local list/`local: *`
   x strip option) over a fixed program that contains a definition for every combination of
   (file kind, binding, visibility, listed-for-export, version-script-local, referenced by a shared
   library).  It checks the transcription of wild's export logic against the declarative rule
   (ExpectedDynsym) for every symbol, modulo the exactly characterised deviation classes, and
   prints a REPLAY record per configuration with the expected .dynsym membership and the allowed
   .symtab binding/visibility of every symbol.
2. Replay: the program is generated (GNU as, GNU ld-built helper library, archive, version scripts,
   dynamic lists) and every configuration is linked with the real wild and GNU ld 2.40.  The rule
   must equal GNU ld (else the spec is wrong: tool error).  wild's .dynsym must contain exactly
   the expected definitions of the universe (with binding, visibility, type, size, and the
   identity bytes of the right definition at st_value) and the referenced imports; .symtab must
   contain every retained global definition exactly once with the right value/size/type and an
   allowed binding/visibility; duplicate definitions (weak/strong, weak/weak, common/common)
   appear once and describe the selected definition.
3. Structure (mode O): vlib/symobs.check_symtab_structure on every output produced here and on
   samples of as-needed and version-script links (locals before globals, sh_info, no duplicate
   global definitions, st_shndx valid and value inside the section, .dynsym[0] null).
"""
import random

from vlib import symgen, symobs, tlc
from vlib.common import ToolError, build_wild, save_replay, scratch, trim_samples
from vlib.elf import Elf

PROP = "C31"
META = {
    "ready": True,
    "level": "model_checking",
    "technique": "TLA+ spec of the export rule (.dynsym membership, allowed .symtab forms) and of wild's export logic, all option configurations enumerated by TLC over a symbol universe covering every binding x visibility x file kind x listing combination; every configuration replayed into the real wild and GNU ld and both symbol tables compared; structural observer on all outputs",
    "level_text": "TLC enumerates all 153 option configurations (output kind x export option x --exclude-libs x version script x strip) over a universe of 144 definitions (4 file kinds: two objects, a regular-archive member, a thin-archive member x GLOBAL/WEAK x 4 visibilities x export-listed x version-script-local x referenced-by-DSO) and checks the transcription of wild's export logic against the declarative rule symbol by symbol; every configuration is linked with the real wild and with GNU ld 2.40 (the rule must equal GNU ld), .dynsym membership and attributes, .symtab once-ness, value (identity bytes), size, type, binding and visibility are compared, and the structural invariants (locals first, sh_info, no duplicate globals, values inside sections, null entry) are checked on every output.",
    "level_note": "x86-64 only; garbage collection is switched off (--no-gc-sections) so that every definition is retained; TLS, IFUNC and copy-relocated symbols are not in the universe; linker-defined symbols are not compared.",
    "engine": "tlc",
}
GC = ["-XX:ParallelGCThreads=4"]
KIND_ARGS = {"exe": [], "pie": ["-pie"], "shared": ["-shared"]}
STRIP_ARGS = {"none": [], "all": ["--strip-all"], "debug": ["--strip-debug"], "discard-all": ["--discard-all"]}
DUPS = ["dup_ws", "dup_sw", "dup_ww", "dup_cc"]
# visibility merging (SymTabs.tla MergedVis): defined GLOBAL DEFAULT in the second object, referenced from the first
# with the given visibility through a weak (w) or strong (s) undefined reference
VM = {"vm_wh": ("weak", "hidden"), "vm_sh": ("strong", "hidden"), "vm_wp": ("weak", "protected"), "vm_sp": ("strong", "protected")}
IMPORTS = {"imp_f": ("GLOBAL", "FUNC"), "imp_w": ("WEAK", "FUNC"), "imp_d": ("GLOBAL", "OBJECT")}


def sname(x):
    return f"{x['file']}_{x['bind'][0]}{x['vis'][0]}{x['e']}{x['v']}{x['r']}"


def stype(x):
    return "OBJECT" if (x["e"] + x["v"] + x["r"] + (x["bind"] == "WEAK")) % 2 else "FUNC"


def model_check(ctx, cov):
    r, rs, rb = symgen.tlc_parallel([
        (("SymTabs", "mc/SymTabs_quick.cfg"), dict(workers=4, timeout=900, jvm_opts=GC)),
        (("SymTabs", "mc/SymTabs_strict.cfg"), dict(workers=1, timeout=900, coverage=False, jvm_opts=GC)),
        (("SymTabs", "mc/SymTabs_broken.cfg"), dict(workers=1, timeout=900, coverage=False, jvm_opts=GC)),
    ])
    runs = [{"cfg": "SymTabs_quick.cfg", **r.summary()}]
    if not r.ok:
        raise ToolError(f"SymTabs model check failed: {r.violated} {r.error_text}\n{r.trace_text[:3000]}\n{r.out[-1500:]}")
    missing = tlc.zero_coverage_actions(r, ["Activate", "Requests"])
    if missing:
        raise ToolError(f"vacuous model run: actions never taken: {missing}")
    for rx, cfgname, inv in ((rs, "mc/SymTabs_strict.cfg", "ConformsStrictly"), (rb, "mc/SymTabs_broken.cfg", "BrokenRule")):
        if rx.ok or rx.violated != inv:
            raise ToolError(f"anti-vacuity run {cfgname} did not report {inv}: ok={rx.ok} violated={rx.violated} {rx.error_text}")
        runs.append({"cfg": cfgname, "expected_violation": rx.violated, "states_to_find": rx.distinct})
    cov["states"], cov["transitions"], cov["tlc_runs"] = r.distinct, r.generated, runs
    return r.records


# ---------------------------------------------------------------------------------------------
# The program


def build_program(d, universe):
    by_file = {"m": [], "s": [], "a": [], "t": []}
    for x in universe:
        by_file[x["file"]].append(x)
    pull = next(sname(x) for x in by_file["a"] if x["bind"] == "GLOBAL" and x["vis"] == "DEFAULT" and x["e"] == 0 and x["v"] == 0)
    pull_t = next(sname(x) for x in by_file["t"] if x["bind"] == "GLOBAL" and x["vis"] == "DEFAULT" and x["e"] == 0 and x["v"] == 0)
    texts = {}
    main = [".text", ".globl _start", ".type _start,@function", "_start:",
            f"    call {pull}@PLT", f"    call {pull_t}@PLT", "    call imp_f@PLT", "    .weak imp_w", "    call imp_w@PLT",
            "    mov imp_d@GOTPCREL(%rip), %rax",
            "    mov dup_cc@GOTPCREL(%rip), %rax",       # unreferenced common symbols are not retained by wild
            *[ln for n, (b, v) in VM.items() for ln in
              ([f"    .weak {n}"] if b == "weak" else []) + [f"    .{v} {n}", f"    mov {n}@GOTPCREL(%rip), %rax"]],
            "    ret", ".size _start,.-_start"]
    texts["m"] = "\n".join(main) + "\n"
    texts["s"] = ""
    texts["a"] = ""
    texts["t"] = ""
    for f in "msat":
        for x in sorted(by_file[f], key=sname):
            texts[f] += symgen.define(sname(x), f, x["bind"], x["vis"], stype(x))
        texts[f] += symgen.define(f"{f}_local", f, "LOCAL", "DEFAULT", "FUNC")
    # names defined twice: the selected definition must appear exactly once
    texts["m"] += symgen.define("dup_ws", "m", "WEAK") + symgen.define("dup_sw", "m", "GLOBAL") + \
        symgen.define("dup_ww", "m", "WEAK") + ".comm dup_cc,8,8\n"
    texts["s"] += "".join(symgen.define(n, "s", "GLOBAL", "DEFAULT", "OBJECT") for n in VM)
    texts["s"] += symgen.define("dup_ws", "s", "GLOBAL") + symgen.define("dup_sw", "s", "WEAK") + \
        symgen.define("dup_ww", "s", "WEAK") + ".comm dup_cc,16,8\n"
    objs = {f: symgen.cached_obj(d, texts[f], stem={"m": "main", "s": "sec", "a": "arc", "t": "thin"}[f]) for f in "msat"}
    arc = d / "libarc.a"
    thin = d / "libthin.a"
    from vlib import asm
    asm.archive(arc, [objs["a"]])
    asm.archive(thin, [objs["t"]], thin=True)
    # helper library: defines the imports, references every r = 1 symbol
    lib = "".join(symgen.define(n, "libimp", "GLOBAL", "DEFAULT", t) for n, t in
                  (("imp_f", "FUNC"), ("imp_w", "FUNC"), ("imp_u", "FUNC"), ("imp_d", "OBJECT")))
    lib += ".data\nrefs:\n" + "".join(f"    .quad {sname(x)}\n" for x in universe if x["r"] == 1)
    so = symgen.shared_lib(d, "libimp.so", "libimp.so", lib)
    names = [sname(x) for x in universe]
    e_names = [sname(x) for x in universe if x["e"] == 1]
    v1 = [sname(x) for x in universe if x["v"] == 1]
    v0 = [sname(x) for x in universe if x["v"] == 0] + DUPS + ["_start"]
    (d / "export.list").write_text("{\n" + "".join(f"  {n};\n" for n in e_names) + "};\n")
    (d / "vs_locals.map").write_text("{ local:\n" + "".join(f"  {n};\n" for n in v1) + "};\n")
    (d / "vs_globstar.map").write_text("{ global:\n" + "".join(f"  {n};\n" for n in v0) + " local: *; };\n")
    return dict(objs=objs, arc=arc, thin=thin, so=so, names=names, e_names=e_names, texts=texts, dir=d)


def link_args(cfg, prog):
    d = prog["dir"]
    a = list(KIND_ARGS[cfg["kind"]]) + ["--no-gc-sections"]
    a += [prog["objs"]["m"], prog["objs"]["s"], prog["arc"], prog["thin"], prog["so"]]
    if cfg["exp"] == "all":
        a.append("--export-dynamic")
    elif cfg["exp"] == "sym":
        a += [f"--export-dynamic-symbol={n}" for n in prog["e_names"]]
    elif cfg["exp"] == "symlist":
        a.append(f"--export-dynamic-symbol-list={d / 'export.list'}")
    elif cfg["exp"] == "dynlist":
        a.append(f"--dynamic-list={d / 'export.list'}")
    if cfg["excl"] == "ALL":
        a += ["--exclude-libs", "ALL"]
    elif cfg["excl"] == "byname":
        a += ["--exclude-libs", "libarc.a:libthin.a"]
    if cfg["vs"] == "locals":
        a.append(f"--version-script={d / 'vs_locals.map'}")
    elif cfg["vs"] == "globstar":
        a.append(f"--version-script={d / 'vs_globstar.map'}")
    a += STRIP_ARGS[cfg["strip"]]
    return a


def cfg_name(cfg):
    return f"{cfg['kind']}.exp-{cfg['exp']}.excl-{cfg['excl']}.vs-{cfg['vs']}.strip-{cfg['strip']}"


# ---------------------------------------------------------------------------------------------
# Observation and comparison


def ident_at(e, rec, name, where):
    want = symgen.ident(name, where).encode()
    got = e.read_va(rec["value"], len(want))
    return got == want, got


def compare(e, rec, linker):
    """Yields (key, text) for every disagreement between an output and the REPLAY record."""
    dyn = symobs.table(e, dynamic=True)
    sym = symobs.table(e, dynamic=False) if e.section_of_type(2) is not None else None
    cfg = rec["cfg"]
    for s in rec["syms"]:
        x = s["sym"]
        n = sname(x)
        defs = [r for r in dyn.get(n, []) if r["defined"]]
        if s["exported"]:
            if len(defs) != 1:
                yield (f"dynsym:missing-export", s, f"'{n}' should be in .dynsym once, found {len(defs)} definitions")
            else:
                r = defs[0]
                ok_id, got = ident_at(e, r, n, x["file"])
                bad = []
                if r["bind"] != x["bind"]:
                    bad.append(f"bind {r['bind']} != {x['bind']}")
                if r["vis"] != x["vis"]:
                    bad.append(f"visibility {r['vis']} != {x['vis']}")
                if r["type"] != stype(x):
                    bad.append(f"type {r['type']} != {stype(x)}")
                if r["size"] != len(symgen.ident(n, x["file"])):
                    bad.append(f"size {r['size']}")
                if not ok_id:
                    bad.append(f"value {r['value']:#x} does not point at the definition (bytes {got!r})")
                if bad:
                    yield ("dynsym:attributes", s, f"'{n}' in .dynsym: " + ", ".join(bad))
        else:
            if defs:
                yield ("dynsym:unexpected-export", s, f"'{n}' ({x['bind']} {x['vis']} in file kind {x['file']}) must not be in .dynsym")
        if sym is not None:
            rs = [r for r in sym.get(n, []) if r["defined"]]
            if len(rs) != 1:
                yield ("symtab:not-once", s, f"'{n}' appears {len(rs)} times in .symtab")
                continue
            r = rs[0]
            ok_id, got = ident_at(e, r, n, x["file"])
            bad = []
            if r["bind"] not in s["bind_allowed"]:
                bad.append(f"bind {r['bind']} not in {s['bind_allowed']}")
            if r["bind"] != "LOCAL" and r["vis"] not in s["vis_allowed"]:
                bad.append(f"visibility {r['vis']} not in {s['vis_allowed']}")
            if r["type"] != stype(x):
                bad.append(f"type {r['type']} != {stype(x)}")
            if r["size"] != len(symgen.ident(n, x["file"])):
                bad.append(f"size {r['size']}")
            if not ok_id:
                bad.append(f"value {r['value']:#x} does not point at the definition (bytes {got!r})")
            if bad:
                yield ("symtab:attributes", s, f"'{n}' in .symtab: " + ", ".join(bad))
    # .symtab presence
    if rec["symtab_present"] and sym is None:
        yield ("symtab:absent", None, "no .symtab although the output is not stripped")
    if not rec["symtab_present"] and sym is not None:
        yield ("symtab:present-with-strip-all", None, ".symtab present although --strip-all was given")
    # duplicate definitions: once, describing the selected definition
    if sym is not None:
        for n, where, bind in (("dup_ws", "s", "GLOBAL"), ("dup_sw", "m", "GLOBAL"), ("dup_ww", "m", "WEAK")):
            rs = [r for r in sym.get(n, []) if r["defined"]]
            if len(rs) != 1:
                yield ("symtab:duplicate-definition-not-once", None, f"'{n}' appears {len(rs)} times in .symtab")
                continue
            ok_id, got = ident_at(e, rs[0], n, where)
            if not ok_id or (rs[0]["bind"] not in (bind, "LOCAL")):
                yield ("symtab:duplicate-definition-wrong-choice", None,
                       f"'{n}': bind {rs[0]['bind']} (selected {bind}), bytes at value {got!r}, expected the definition of '{where}'")
        rs = [r for r in sym.get("dup_cc", []) if r["defined"]]
        if len(rs) != 1 or rs[0]["size"] != 16 or rs[0]["type"] != "OBJECT":
            yield ("symtab:common-merge", None, f"common symbol dup_cc: {[(r['size'], r['type']) for r in rs]} (expected once, size 16)")
    # visibility merging: the most constraining visibility of all occurrences, whatever the binding of the reference
    for n, (_b, v) in VM.items():
        dd = [r for r in dyn.get(n, []) if r["defined"]]
        if v == "hidden" and dd:
            yield (f"dynsym:hidden-by-reference-exported:{_b}", None,
                   f"'{n}' is referenced with hidden visibility ({_b} reference) from another object: merged visibility is HIDDEN, but it is defined in .dynsym ({dd[0]['bind']} {dd[0]['vis']})")
        if v == "protected" and dd and dd[0]["vis"] != "PROTECTED":
            yield (f"dynsym:protected-by-reference-visibility:{_b}", None,
                   f"'{n}' is referenced with protected visibility ({_b} reference): its .dynsym entry must be PROTECTED, is {dd[0]['vis']}")
        if sym is not None:
            rs = [r for r in sym.get(n, []) if r["defined"]]
            if len(rs) == 1 and rs[0]["bind"] != "LOCAL" and rs[0]["vis"] != v.upper():
                yield (f"symtab:merged-visibility:{_b}-{v}", None,
                       f"'{n}' ({_b} {v} reference + default definition) is {rs[0]['bind']} {rs[0]['vis']} in .symtab; merged visibility is {v.upper()}")
    # imports
    for n, (bind, typ) in IMPORTS.items():
        rs = dyn.get(n, [])
        if len(rs) != 1 or rs[0]["defined"]:
            yield ("dynsym:import-missing", None, f"referenced import '{n}' should be an undefined .dynsym entry: {rs}")
        elif rs[0]["bind"] != bind:
            yield ("dynsym:import-binding", None, f"import '{n}' has binding {rs[0]['bind']}, the reference is {bind}")
    if dyn.get("imp_u"):
        yield ("dynsym:unreferenced-import", None, "unreferenced library symbol 'imp_u' is in .dynsym")


def extra_structure_outputs(seed, d):
    """Outputs of other link shapes (as-needed lines, version scripts) for the structural check."""
    outs = []
    try:
        from checks import c32
        outs += c32.sample_links(seed, 6, d)
    except Exception as ex:  # noqa
        raise ToolError(f"c32.sample_links failed: {ex}")
    rng = random.Random(seed)
    pool = d / "pool37"
    pool.mkdir(exist_ok=True)
    libs = [symgen.shared_lib(pool, f"libq{i}.so", f"libq{i}.so", symgen.define(f"q{i}", "lib") + symgen.define("qc", "lib"))
            for i in (1, 2)]
    for k in range(6):
        refs = rng.sample(["q1", "q2", "qc"], rng.randint(1, 3))
        txt = ".text\n.globl _start\n_start:\n" + "".join(f"    call {r}@PLT\n" for r in refs) + "    ret\n"
        if rng.random() < 0.5:
            txt += symgen.define("qc", "reg")
        o = symgen.cached_obj(pool, txt, stem="q")
        out = d / f"o37_{k}"
        args = rng.choice([[], ["-pie"], ["-shared"]]) + ["--as-needed", libs[0], o, "--no-as-needed", libs[1], "-o", out]
        r = symgen.link("wild", args)
        if r.rc == 0 and out.exists():
            outs.append((out, "as-needed link " + " ".join(str(a).split("/")[-1] for a in args)))
    return outs


def run(ctx):
    cov = {"samples": []}
    symgen.gnu_or_lld_available()
    records = model_check(ctx, cov)
    if len(records) < 100:
        raise ToolError(f"only {len(records)} REPLAY records")
    build_wild()
    records.sort(key=lambda r: cfg_name(r["cfg"]))
    universe = [s["sym"] for s in records[0]["syms"]]
    universe.sort(key=sname)
    stats = {"configurations": 0, "symbol_checks": 0, "known": {}, "structure_checked": 0}
    model_errors, wild_failed = [], []
    with scratch("c31") as d:
        prog = build_program(d, universe)
        jobs = [(k, rec, link_args(rec["cfg"], prog)) for k, rec in enumerate(records)]

        def job(j):
            k, rec, args = j
            res = {}
            for linker in ("wild", "ld"):
                out = d / f"out{k}.{linker}"
                a = list(args)
                if linker == "ld" and rec["cfg"]["kind"] != "shared":
                    pass
                r = symgen.link(linker, a + ["-o", out])
                res[linker] = (r.rc == 0 and not r.timed_out and out.exists(), out, r)
            return j, res

        results = symgen.run_jobs(job, jobs, workers=8)
        structure_inputs = []
        demo_done = None
        for (k, rec, args), res in results:
            w_ok, w_out, w_r = res["wild"]
            g_ok, g_out, g_r = res["ld"]
            name = cfg_name(rec["cfg"])
            if g_r.timed_out:
                stats["reference_timeouts"] = stats.get("reference_timeouts", 0) + 1
                continue
            if not g_ok:
                model_errors.append(f"GNU ld failed on configuration {name}: {g_r.err[-300:]!r}")
                continue
            ge = Elf(g_out)
            gd = [(key, text) for key, s, text in compare(ge, rec, "ld")]
            # GNU ld records weak imports etc. as the spec says; any disagreement means the rule is wrong
            if gd:
                model_errors.append(f"rule disagrees with GNU ld on {name}: {gd[:4]}")
                continue
            gp = symobs.check_symtab_structure(ge)
            if gp:
                model_errors.append(f"structural observer rejects GNU ld's output for {name}: {gp[:3]}")
                continue
            if w_r.timed_out:
                stats["wild_timeouts"] = stats.get("wild_timeouts", 0) + 1
                continue
            if not w_ok:
                wild_failed.append((name, w_r.err[-300:]))
                continue
            stats["configurations"] += 1
            we = Elf(w_out)
            structure_inputs.append((w_out, f"configuration {name}", args))
            short = [str(a).replace(str(d) + "/", "") for a in args]

            def replay_dir(tag):
                files = {p.name: p.read_bytes() for p in d.iterdir() if p.is_file() and
                         (p.suffix in (".s", ".o", ".a", ".so", ".map", ".list"))}
                files["out.wild"] = w_out.read_bytes()
                files["out.ld"] = g_out.read_bytes()
                return save_replay(PROP, tag, files=files, meta={"args": short + ["-o", "out"], "configuration": rec["cfg"]})
            seen_keys = set()
            for key, s, text in compare(we, rec, "wild"):
                stats["symbol_checks"] += 1
                full = key
                if s is not None and key in ("dynsym:unexpected-export", "dynsym:missing-export"):
                    # the model's classification of this symbol in this configuration
                    predicted = s["wild_op"] != s["exported"]
                    if predicted and s["dev"] in ("internal-visibility-exported", "exclude-libs-ignored-by-export-request",
                                                 "exclude-libs-by-name-misses-thin-archive"):
                        full = f"dynsym:{s['dev']}"
                        stats["known"][s["dev"]] = stats["known"].get(s["dev"], 0) + 1
                if (full, name) in seen_keys:
                    continue          # one report per (class, configuration); the rest is counted in stats
                seen_keys.add((full, name))
                ctx.verdict.report(full, f"[{name}] {text}", lambda: replay_dir(f"{name}.{full.replace(':', '-')}"))
            if len(cov["samples"]) < 3:
                dyn = symobs.table(we, dynamic=True)
                cov["samples"].append({"configuration": name, "args": short[:14],
                                       "dynsym_universe": sorted(n for n in dyn if n in prog["names"])[:12]})
            # binding demonstration (once): hide one exported symbol in a copy of an accepted output
            if demo_done is None and rec["cfg"]["kind"] == "shared" and rec["cfg"]["strip"] == "none":
                data = bytearray(w_out.read_bytes())
                dsec = we.section_of_type(11)
                victim = next((s for s in we.dynsym if s["name"] == "m_GD000"), None)
                if victim is not None:
                    off = dsec["offset"] + victim["index"] * 24 + 5          # st_other
                    data[off] = 2                                              # STV_HIDDEN
                    cp = d / "corrupt.out"
                    cp.write_bytes(bytes(data))
                    diffs = [key for key, s, text in compare(Elf(cp), rec, "wild") if s is not None and sname(s["sym"]) == "m_GD000"]
                    demo_done = {"mutation": "st_other of m_GD000 in .dynsym patched to HIDDEN", "detected": bool(diffs), "keys": diffs}
                    if not diffs:
                        raise ToolError("binding demonstration failed: patched visibility not noticed")
        if stats.get("reference_timeouts", 0) > 5:
            raise ToolError(f"{stats['reference_timeouts']} GNU ld links timed out (machine overloaded?)")
        if model_errors:
            raise ToolError(f"{len(model_errors)} disagreements between the spec's rule / observer and the real GNU ld "
                            f"(the spec is wrong, not wild):\n" + "\n".join(model_errors[:6]))
        if stats.get("wild_timeouts", 0) > max(3, len(results) // 20):
            raise ToolError(f"wild timed out on {stats['wild_timeouts']} links (cannot evaluate the property)")
        if wild_failed:
            raise ToolError(f"wild failed on {len(wild_failed)} configurations that GNU ld links: {wild_failed[:3]}")
        # ---- structural half on everything produced here and on other link shapes
        for out, what in extra_structure_outputs(ctx.seed, d):
            structure_inputs.append((out, what, None))
        for out, what, args in structure_inputs:
            stats["structure_checked"] += 1
            for p in symobs.check_symtab_structure(Elf(out)):
                ctx.verdict.report(f"structure:{p.key}", f"{p.text} [{what}]",
                                   lambda: save_replay(PROP, f"structure-{p.key}-{stats['structure_checked']}",
                                                       files={"out": out.read_bytes()}, meta={"what": what, "problem": repr(p)}))
        # structural observer must notice a broken sh_info (binding demonstration)
        if structure_inputs:
            out = structure_inputs[0][0]
            e = Elf(out)
            sec = e.section_of_type(2) or e.section_of_type(11)
            data = bytearray(out.read_bytes())
            import struct
            shoff = e.e_shoff + sec["index"] * e.e_shentsize + 44          # sh_info
            struct.pack_into("<I", data, shoff, sec["info"] + 1)
            cp = d / "corrupt2.out"
            cp.write_bytes(bytes(data))
            probs = symobs.check_symtab_structure(Elf(cp))
            if not probs:
                raise ToolError("binding demonstration failed: sh_info+1 not noticed by check_symtab_structure")
            cov["structure_demo"] = {"mutation": "sh_info + 1", "detected": [p.key for p in probs][:3]}
        cov["binding_demo"] = demo_done
    cov["traces_validated_against_impl"] = stats["configurations"]
    cov["replay_stats"] = stats
    cov["samples"] = trim_samples(cov["samples"], 3, 900)
    return {
        "level": "model_checking",
        "coverage": cov,
        "assumptions": [
            "GNU ld 2.40 is the practical reference for the export rule; the rule is validated against it on every configuration",
            "--no-gc-sections: every definition is retained; linker-defined symbols and the order of symbols beyond locals-before-globals are not compared",
            "hidden/internal/demoted definitions may appear in .symtab either with their input binding and visibility or as LOCAL (GNU ld does both, depending on the options)",
        ],
    }
