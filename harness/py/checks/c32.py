"""C32 - Symbol versions follow the version script.

1. TLC (specs/VersionScript.tla, MCVersionScript.tla) enumerates every version script in the bound
   (<= 3 nodes, <= 2 patterns per global:/local: list, exact names, `?`/`*` globs and the lone `*`,
   named and anonymous scripts, parent nodes) and 4 symbol names over {a,b}; for each symbol it
   evaluates GNU ld's assignment (stated declaratively) and the transcription of wild's
   find_match, checks that they agree except in the exactly characterised deviation classes, and
   prints REPLAY records with the expected observable result (exported? which version node?).
2. Replay: a seeded sample of the scripts is written out, a shared object defining the 4 symbols
   (plus a reference to a versioned symbol of a GNU ld-built helper library) is linked with the
   real wild and with GNU ld 2.40.  The spec's rule is validated against the real GNU ld on every
   script (a disagreement is a tool error); wild's .dynsym/.gnu.version/.gnu.version_d must show the
   assignment of the rule.
3. Observation validation: the version tables of every output of wild are projected to records
   and checked by TLC against VersionTables.tla (dense indexes from 1, base flag, vd_hash/vna_hash
   = ELF hash of the name, aux chains, parents name a definition, .gnu.version entries in range,
   .gnu.version_r files are DT_NEEDED libraries ...).  The same predicates must accept GNU ld's
   outputs, and a corrupted observation must be rejected.
"""
import json
import random
import re
import struct
from pathlib import Path

from vlib import symgen, symobs, tlc
from vlib.common import CACHE, SPECS, ToolError, build_wild, log, save_replay, scratch, trim_samples
from vlib.elf import Elf

PROP = "C32"
META = {
    "ready": True,
    "level": "model_checking",
    "technique": "TLA+ spec of GNU ld's version-script matching precedence and of wild's find_match, enumerated exhaustively by TLC over small scripts; enumerated scripts replayed into the real wild and GNU ld; version tables of the outputs validated by TLC against a TLA+ consistency predicate",
    "level_text": "TLC enumerates all version scripts with up to 3 nodes and up to 2 patterns per global/local list over 6 patterns (exact names, ?-globs, *-globs, lone *) x 4 symbol names and compares GNU ld's precedence rule with the transcription of wild's matcher; a seeded sample of the scripts (hundreds quick, thousands thorough) is linked for real with wild and GNU ld 2.40: the rule must equal GNU ld on every script and wild's exported set and per-symbol version node must equal the rule; the .gnu.version/.gnu.version_d/.gnu.version_r tables of every wild output are checked by TLC for internal consistency (indexes, hashes, chains, ranges, DT_NEEDED).",
    "level_note": "extern \"C++\" blocks, quoted/escaped patterns, character classes and explicit sym@VER assignments are not enumerated; the reference is GNU ld 2.40 (lld differs from GNU ld on one of the recorded classes).",
    "engine": "tlc",
}
GC = ["-XX:ParallelGCThreads=4"]
NAMES = ["a", "b", "ab", "ba"]


def seeded_cfg(name, seed):
    src = (SPECS / "mc" / name).read_text()
    src = re.sub(r"Seed = \d+", f"Seed = {seed % 1000}", src)
    d = CACHE / "tlc" / "cfg"
    d.mkdir(parents=True, exist_ok=True)
    p = d / f"{Path(name).stem}.{seed}.cfg"
    p.write_text(src)
    return p


def model_check(ctx, cov):
    cfg = "VersionScript_quick.cfg" if ctx.quick else "VersionScript_thorough.cfg"
    r, rs, rb = symgen.tlc_parallel([
        (("MCVersionScript", seeded_cfg(cfg, ctx.seed)), dict(workers=6, timeout=900 if ctx.quick else 2400, jvm_opts=GC)),
        (("MCVersionScript", "mc/VersionScript_strict.cfg"), dict(workers=1, timeout=900, coverage=False, jvm_opts=GC)),
        (("MCVersionScript", "mc/VersionScript_broken.cfg"), dict(workers=1, timeout=900, coverage=False, jvm_opts=GC)),
    ])
    runs = [{"cfg": cfg, **r.summary()}]
    if r.timed_out and not ctx.quick and r.violated is None and len(r.records) > 500:
        log(f"{cfg}: TLC timed out with {r.distinct} distinct states (counted as partial); {len(r.records)} records")
    elif not r.ok:
        raise ToolError(f"VersionScript model check failed ({cfg}): {r.violated} {r.error_text}\n{r.trace_text[:3000]}\n{r.out[-1500:]}")
    if not r.timed_out and tlc.zero_coverage_actions(r, ["Assign"]):
        raise ToolError("vacuous model run: Assign never taken")
    for rx, cfgname, inv in ((rs, "mc/VersionScript_strict.cfg", "Strict"), (rb, "mc/VersionScript_broken.cfg", "BrokenRule")):
        if rx.ok or rx.violated != inv:
            raise ToolError(f"anti-vacuity run {cfgname} did not report {inv}: ok={rx.ok} violated={rx.violated} {rx.error_text}")
        runs.append({"cfg": cfgname, "expected_violation": rx.violated, "states_to_find": rx.distinct})
    cov["states"], cov["transitions"], cov["tlc_runs"] = r.distinct, r.generated, runs
    return r.records


# ---------------------------------------------------------------------------------------------


def script_text(rec):
    def lst(ps):
        return " ".join("".join(p) + ";" for p in sorted(ps, key=lambda p: "".join(p)))
    out = []
    for i, n in enumerate(rec["nodes"], start=1):
        body = ""
        if n["g"]:
            body += " global: " + lst(n["g"])
        if n["l"]:
            body += " local: " + lst(n["l"])
        head = "" if rec["anon"] else f"V{i} "
        tail = f" V{n['parent']}" if n["parent"] else ""
        out.append(f"{head}{{{body} }}{tail};")
    return "\n".join(out) + "\n"


def object_text():
    s = "".join(symgen.define(n, "obj") for n in NAMES)
    s += ".text\n.type user,@function\nuser:\n    call imp@PLT\n    ret\n"
    return s


def helper_lib(pool):
    vs = pool / "libver.map"
    vs.write_text("LIBV_1 { global: imp; local: *; };\n")
    return symgen.shared_lib(pool, "libver.so", "libver.so", symgen.define("imp", "libver"),
                             extra=["--version-script", vs])


def observe(path):
    """name -> ('local',) | ('global', version name or None, hidden bit)  for the 4 names; plus tables."""
    e = Elf(path)
    vd = {x["ndx"]: (x["names"][0] if x["names"] else "?") for x in e.verdefs()}
    res = {}
    for name, defined, v, hidden in symobs.dynsym_versions(e):
        if name in NAMES and defined:
            ver = None
            if v is not None and v >= 2:
                ver = vd.get(v, f"<undefined index {v}>")
            elif v == 0:
                ver = "<VER_NDX_LOCAL>"
            res.setdefault(name, []).append(("global", ver, bool(hidden)))
    for n in NAMES:
        res.setdefault(n, [("local",)])
    return e, res


def verdef_nodes(e):
    """[[name, parent...], ...] of the non-base version definitions, in index order."""
    return [x["names"] for x in sorted(e.verdefs(), key=lambda x: x["ndx"]) if not (x["flags"] & 1)]


def expected_verdefs(rec):
    return [[f"V{i}" for i in chain] for chain in rec["verdefs"]]


def expected_of(rec):
    exp = {}
    for s in rec["syms"]:
        name = "".join(s["name"])
        if not s["exported"]:
            exp[name] = [("local",)]
        else:
            exp[name] = [("global", f"V{s['node']}" if s["node"] else None, False)]
    return exp


def validate_tables(d, observations, label):
    """TLC evaluates VersionTables!TableProblems on every observation. Returns {id: [problems]}."""
    if not observations:
        return {}, 0
    p = d / f"obs_{label}.ndjson"
    p.write_text("\n".join(json.dumps(o) for o in observations) + "\n")
    r = tlc.run_tlc("VersionScriptObs", "mc/VersionScriptObs.cfg", workers=1, timeout=900, coverage=False,
                    env={"OBS": str(p)}, jvm_opts=GC + ["-Xss64m"], name=f"VersionScriptObs.{label}")
    m = re.search(r'<<"OBS-CHECKED", (\d+)>>', r.out)
    if not m or int(m.group(1)) != len(observations) or not r.ok:
        raise ToolError(f"observation validation did not complete ({label}): {r.error_text}\n{r.out[-2000:]}")
    bad = {}
    for mm in re.finditer(r'<<"OBS-BAD", (\d+), \{(.*?)\}>>', r.out):
        bad[int(mm.group(1))] = sorted(x.strip().strip('"') for x in mm.group(2).split(","))
    return bad, r.distinct


def sample_links(ctx_seed, n, d):
    """Used by C31's structural check: n outputs of wild from version-script links."""
    # (scripts are generated from a fixed small list here; C31 only needs outputs)
    pool = d / "pool32"
    pool.mkdir(exist_ok=True)
    lib = helper_lib(pool)
    obj = symgen.cached_obj(pool, object_text(), stem="vs")
    rng = random.Random(ctx_seed)
    pats = ["a", "ab", "a*", "?b", "*b", "*"]
    outs = []
    for k in range(n):
        g, l_ = rng.sample(pats, 2)
        sc = d / f"s32_{k}.map"
        sc.write_text(f"V1 {{ global: {g}; }};\nV2 {{ local: {l_}; }} V1;\n")
        out = d / f"o32_{k}.so"
        r = symgen.link("wild", ["-shared", "-soname", "libt.so", "--version-script", sc, obj, lib, "-o", out])
        if r.rc == 0 and out.exists():
            outs.append((out, f"version-script link {sc.read_text()!r}"))
    return outs


def run(ctx):
    cov = {"samples": []}
    rng = random.Random(ctx.seed)
    symgen.gnu_or_lld_available()
    records = model_check(ctx, cov)
    if len(records) < 50:
        raise ToolError(f"only {len(records)} REPLAY records")
    build_wild()
    records.sort(key=lambda r: (r["idx"], json.dumps(r["nodes"], sort_keys=True)))
    budget = 400 if ctx.quick else 3000
    if len(records) > budget:
        records = rng.sample(records, budget)
    stats = {"scripts": 0, "symbols_compared": 0, "agree": 0, "known_dev": {}, "ld_rejected": 0}
    model_errors, wild_failed = [], []
    with scratch("c32") as d:
        pool = d / "pool"
        pool.mkdir()
        lib = helper_lib(pool)
        obj = symgen.cached_obj(pool, object_text(), stem="vs")
        jobs = []
        for k, rec in enumerate(records):
            sc = d / f"s{k}.map"
            sc.write_text(script_text(rec))
            jobs.append((k, rec, sc))

        def job(j):
            k, rec, sc = j
            res = {}
            for linker in ("wild", "ld"):
                out = d / f"out{k}.{linker}.so"
                args = ["-shared", "-soname", "libt.so", "--version-script", sc, obj, lib, "-o", out]
                r = symgen.link(linker, args)
                res[linker] = (r.rc == 0 and not r.timed_out and out.exists(), out, r)
            return j, res

        results = symgen.run_jobs(job, jobs, workers=8)
        obs_wild, obs_ld, by_id = [], [], {}
        for (k, rec, sc), res in results:
            w_ok, w_out, w_r = res["wild"]
            g_ok, g_out, g_r = res["ld"]
            exp = expected_of(rec)
            text = script_text(rec)
            if g_r.timed_out:
                stats["reference_timeouts"] = stats.get("reference_timeouts", 0) + 1
                continue
            if not g_ok:
                # GNU ld rejects the script (should not happen for well-formed ones): the spec's
                # well-formedness condition is wrong
                model_errors.append(f"GNU ld rejected an enumerated script: {text!r}: {g_r.err[-200:]!r}")
                stats["ld_rejected"] += 1
                continue
            ge, gobs = observe(g_out)
            if gobs != exp:
                model_errors.append(f"spec rule {exp} but GNU ld produced {gobs} for script {text!r}")
                continue
            if verdef_nodes(ge) != expected_verdefs(rec):
                model_errors.append(f"spec expects version definitions {expected_verdefs(rec)} but GNU ld wrote {verdef_nodes(ge)} for {text!r}")
                continue
            obs_ld.append(symobs.version_observation(ge, k))
            if w_r.timed_out:
                stats["wild_timeouts"] = stats.get("wild_timeouts", 0) + 1
                continue
            if not w_ok:
                wild_failed.append((text, w_r.err[-300:]))
                continue
            stats["scripts"] += 1
            we, wobs = observe(w_out)
            obs_wild.append(symobs.version_observation(we, k))
            by_id[k] = (rec, sc, w_out, text)

            def replay_dir(name):
                return save_replay(PROP, name, files={"v.map": text, "vs.s": object_text(), "libver.so": lib.read_bytes(),
                                                      "vs.o": obj.read_bytes(), "out.wild.so": w_out.read_bytes(),
                                                      "out.ld.so": g_out.read_bytes()},
                                   meta={"args": ["-shared", "-soname", "libt.so", "--version-script", "v.map", "vs.o",
                                                  "libver.so", "-o", "out.so"],
                                         "expected (rule = GNU ld)": {n: list(map(list, v)) for n, v in exp.items()},
                                         "observed wild": {n: list(map(list, v)) for n, v in wobs.items()},
                                         "model": rec["syms"]})
            if verdef_nodes(we) != expected_verdefs(rec):
                ctx.verdict.report(
                    "verdef:nodes-or-parents",
                    f"version definitions of wild {verdef_nodes(we)}, script (and GNU ld) {expected_verdefs(rec)}; script: {text.strip()!r}",
                    lambda: replay_dir(f"verdef-{rec['idx']}"))
            for s in rec["syms"]:
                name = "".join(s["name"])
                stats["symbols_compared"] += 1
                if wobs[name] == exp[name]:
                    stats["agree"] += 1
                    continue
                dev = s["dev"]
                predicted = ("local",) if s["wild"]["cls"] == "local" else \
                    ("global", f"V{s['wild']['node']}" if s["wild"]["cls"] == "global" and not rec["anon"] else None, False)
                if dev in ("qmark-glob-tier-before-star-glob", "local-glob-beats-global-glob") and wobs[name] == [predicted]:
                    key = f"precedence:{dev}"
                    stats["known_dev"][dev] = stats["known_dev"].get(dev, 0) + 1
                else:
                    what = "exported-but-script-local" if exp[name] == [("local",)] else \
                        ("not-exported" if wobs[name] == [("local",)] else "wrong-version-node")
                    key = f"assignment:{what}"
                ctx.verdict.report(
                    key,
                    f"symbol '{name}': wild {wobs[name]}, GNU ld and the rule {exp[name]}; script: {text.strip()!r}",
                    lambda: replay_dir(f"script-{rec['idx']}-{name}"))
            if len(cov["samples"]) < 4:
                cov["samples"].append({"script": text.strip(), "expected": {n: list(v[0]) for n, v in exp.items()},
                                       "wild": {n: list(v[0]) for n, v in wobs.items()}})
        if model_errors:
            raise ToolError(f"{len(model_errors)} disagreements between the spec's rule and the real GNU ld "
                            f"(the spec is wrong, not wild):\n" + "\n".join(model_errors[:8]))
        if stats.get("wild_timeouts", 0) > max(3, len(results) // 20):
            raise ToolError(f"wild timed out on {stats['wild_timeouts']} links (cannot evaluate the property)")
        if wild_failed:
            raise ToolError(f"wild failed on {len(wild_failed)} scripts that GNU ld accepts: {wild_failed[:3]}")
        # ---- version tables: one TLC run checks (a) every wild output, (b) GNU ld outputs as a sanity
        # check of the predicates (ids + 1000000), (c) a deliberately corrupted copy of an accepted
        # wild output (id 9999999: one bit of vd_hash of the 2nd verdef flipped) that must be rejected
        LD_BASE, CORRUPT_ID = 1000000, 9999999
        batch = list(obs_wild)
        for o in obs_ld[:300]:
            batch.append(dict(o, id=o["id"] + LD_BASE))
        demo = None
        for k, (rec, sc, w_out, text) in by_id.items():
            e = Elf(w_out)
            sec = e.section_of_type(0x6ffffffd)
            if sec is None or len(e.verdefs()) < 2:
                continue
            data = bytearray(w_out.read_bytes())
            nxt = struct.unpack_from("<I", data, sec["offset"] + 16)[0]
            off = sec["offset"] + nxt + 8          # vd_hash of the second entry
            data[off] ^= 0x40
            corrupt = d / "corrupt.so"
            corrupt.write_bytes(bytes(data))
            batch.append(symobs.version_observation(Elf(corrupt), CORRUPT_ID))
            demo = {"mutation": f"flip one bit of vd_hash in wild's output for script #{rec['idx']}", "rejected": False}
            break
        bad, obs_states = validate_tables(d, batch, "all")
        bad_ld = {k: v for k, v in bad.items() if LD_BASE <= k < CORRUPT_ID}
        bad_w = {k: v for k, v in bad.items() if k < LD_BASE}
        if bad_ld:
            raise ToolError(f"VersionTables predicates reject GNU ld's own outputs (predicate wrong): {list(bad_ld.items())[:3]}")
        if demo is not None:
            demo["rejected"] = CORRUPT_ID in bad
            demo["problems"] = bad.get(CORRUPT_ID)
            if CORRUPT_ID not in bad:
                raise ToolError("binding demonstration failed: corrupted vd_hash accepted by VersionTables")
        for k, probs in sorted(bad_w.items()):
            rec, sc, w_out, text = by_id[k]
            for pr in probs:
                ctx.verdict.report(
                    f"tables:{pr}", f"version tables of wild's output inconsistent ({pr}) for script {text.strip()!r}",
                    lambda: save_replay(PROP, f"tables-{rec['idx']}-{pr}",
                                        files={"v.map": text, "vs.o": obj.read_bytes(), "libver.so": lib.read_bytes(),
                                               "out.wild.so": w_out.read_bytes()},
                                        meta={"args": ["-shared", "-soname", "libt.so", "--version-script", "v.map", "vs.o",
                                                       "libver.so", "-o", "out.so"], "problems": probs}))
        cov["binding_demo"] = demo
        cov["tables_validated"] = {"wild_outputs": len(obs_wild), "gnu_ld_outputs": min(len(obs_ld), 300), "rejected": len(bad_w)}
        cov["states"] += obs_states
    cov["traces_validated_against_impl"] = stats["scripts"]
    cov["replay_stats"] = stats
    cov["samples"] = trim_samples(cov["samples"], 4, 900)
    return {
        "level": "model_checking",
        "coverage": cov,
        "assumptions": [
            "GNU ld 2.40 is the reference; its rule as stated in the spec is validated against the real ld on every replayed script",
            "symbols are default-visibility global functions of one object; patterns without character classes, quoting or extern \"C++\"",
            "replay is a seeded sample of the TLC-enumerated scripts",
        ],
    }
