"""C33 - --wrap redirects references exactly as GNU ld does.

1. TLC: SymRes.tla with --wrap=s over files that define/reference s, __wrap_s, __real_s (objects,
   archive members, a shared object defining s): the declarative WrapRule (an UNDEFINED reference to
   s is a reference to __wrap_s, an undefined reference to __real_s is a reference to s; symbols a
   file defines itself are untouched) against the operational model of
   apply_wrapped_symbol_overrides (name-table overrides) followed by resolution.
2. Replay (mode R): every configuration is linked by wild and by GNU ld (the property's reference)
   with --wrap=s; bindings (identity words), loaded members and error class are compared.
"""
from vlib import symres

PROP = "C33"
META = {
    "ready": True,
    "level": "model_checking",
    "technique": "TLA+ spec (declarative GNU ld WrapRule vs operational model of apply_wrapped_symbol_overrides + resolution) checked by TLC; every enumerated configuration replayed into the real linker with GNU ld as reference",
    "level_text": "TLC enumerates all assignments of {defines s, defines __wrap_s, references s / __real_s / __wrap_s (incl. from the defining object, weak references)} to two files (quick) and three files (thorough) of kinds object / archive member / shared object with --wrap=s; each is linked by wild and GNU ld and the binding of every reference, the loaded members and the error class are compared.",
    "level_note": "Bounds: one wrapped name, <= 3 files, data symbols, x86-64 non-PIE. Configurations where GNU ld itself disagrees with the rule because of its order-sensitive archive scan are not judged (C03 covers loading).",
    "engine": "tlc",
}
# deviations this property owns (the others are recorded under the property they belong to)
OWN = {"quirks": {"wrapNoDef"}, "loading": False}
ASPECTS = ("error", "loaded", "bind")


def run(ctx):
    if ctx.quick:
        plan = [("mc/SymRes_c33_quick.cfg", 900, 16)]
    else:
        plan = [("mc/SymRes_c33_quick.cfg", 900, 1), ("mc/SymRes_c33_triple.cfg", 2400, 4)]
    cov = symres.run_plan(ctx, PROP, plan, ASPECTS, "ld", skip_load_divergent=OWN)
    cov.pop("_pool", None)
    return {
        "level": "model_checking",
        "coverage": cov,
        "assumptions": [
            "GNU ld 2.40 is the reference; a case is held against wild only when GNU ld's own result equals the rule's prediction",
            "bindings are read from output bytes (identity words)",
        ],
    }
