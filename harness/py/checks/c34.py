"""C34 - linker-diff is quiet on equal binaries and catches broken relocations.

1. TLC (specs/Diff.tla): the oracle Report(a, b) = {site : symbolic target differs}; checked to be exact
   and layout independent for every (site kind x original class x redirection x pair of layouts); a
   byte-wise oracle and an oracle that rounds GOT addresses down to their cell are shown to be wrong
   (anti-vacuity).  TLC exports the 64 cases with the verdict (incl. GOT-load displacements shifted by
   -7..+8 bytes: an address inside a GOT cell designates no symbol).
2. Binding: generated programs (functions and data in their own sections, spread over two objects; sites:
   call rel32, RIP-relative lea, RIP-relative load, GOT slot, absolute data pointer) are linked by GNU ld
   (reference) and by wild (WILD_WRITE_LAYOUT=1).
   quiet:  linker-diff(wild vs itself), (wild vs byte-identical copy), must report no problem.
   detect: for each exported case one matching site of the wild output is patched so that it designates
           the redirected target (the new field value is computed from the symbol table and the input
           object's relocation record, independently of linker-diff); linker-diff (patched wild output vs
           GNU ld's output) must report a problem.  Only counted when the unpatched pair was quiet.
"""
import random
import shutil
import struct
from concurrent.futures import ThreadPoolExecutor

from vlib import asm, tlc
from vlib.common import ToolError, build_linker_diff, build_wild, log, run_wild, save_replay, scratch, sh, trim_samples
from vlib.elf import Elf

PROP = "C34"
META = {
    "ready": True,
    "level": "exploration",
    "technique": "TLA+ oracle (symbolic-target comparison, TLC-checked exact and layout independent) and a TLC-enumerated corruption grammar, replayed into the real linker-diff on generated programs linked by GNU ld and wild with exactly one relocated site patched",
    "level_text": "TLC enumerates site kind (call rel32, RIP-relative lea, RIP-relative load, GOT slot, absolute data pointer) x class of the original target x redirection (none, other function, other datum, same symbol+8; for GOT-indirect loads: the displacement shifted by -7..-1 and +1..+8 bytes, i.e. into the middle of a GOT cell or the neighbouring cell) and states the expected verdict; each case is applied to several generated x86-64 programs: the wild output (with its layout file) is compared by the real linker-diff with itself and a byte-identical copy (must be quiet), and, with exactly one site patched to designate the redirected target, with GNU ld's output of the same program (must report) - counted only when the unpatched pair was quiet.",
    "level_note": "Thin use of TLA+: the specification is a two-line oracle plus the corruption enumerator; the strength of the check is the systematic single-site corruption of real binaries. x86-64 static non-PIE executables only; relaxed/TLS/PLT/jump-table sites and other architectures are not covered.",
    "engine": "tlc",
}

R_64, R_PC32, R_PLT32, R_GOTPCREL = 1, 2, 4, 9


def gen_program(rng, d, idx):
    """Two objects. Every function/datum lives in its own section and is 16+ bytes long.
    Returns (objs, info) where info lists functions and data."""
    nf, nd = rng.randint(3, 5), rng.randint(3, 4)
    funcs = [f"f{i}_{idx}" for i in range(nf)]
    datas = [f"d{i}_{idx}" for i in range(nd)]
    texts = {0: [], 1: []}
    for i, f in enumerate(funcs):
        o = 0 if i == 0 else rng.randrange(2)
        t = [f'.section .text.{f},"ax",@progbits', f".globl {f}", f".type {f},@function", f"{f}:"]
        if i == 0:
            t += [".globl _start", "_start:"]
        others = [g for g in funcs if g != f] or funcs
        t.append(f"    call {rng.choice(others)}")
        t.append(f"    lea {rng.choice(datas)}(%rip), %rax")
        t.append(f"    lea {rng.choice(others)}(%rip), %rdx")
        t.append(f"    mov {rng.choice(datas)}(%rip), %rbx")
        # push through the GOT: not relaxable, so both linkers keep a real GOT slot
        t.append(f"    pushq {rng.choice(datas)}@GOTPCREL(%rip)")
        t.append("    pop %rcx")
        t.append(f"    pushq {rng.choice(others)}@GOTPCREL(%rip)")
        t.append("    pop %rsi")
        if i == 0:
            t.append(asm.EXIT_X86)
        else:
            t.append("    ret")
        t += ["    .fill 16, 1, 0x90", f".size {f}, .-{f}"]
        texts[o] += t
    for i, dn in enumerate(datas):
        o = rng.randrange(2)
        tgt = rng.choice(funcs) if i % 2 == 0 else rng.choice([x for x in datas if x != dn])
        t = [f'.section .data.{dn},"aw",@progbits', ".balign 8", f".globl {dn}", f".type {dn},@object", f"{dn}:",
             f"    .quad {tgt}", f"    .quad {0x1111111111111111 * (i + 1)}", f".size {dn}, 16"]
        texts[o] += t
    objs = []
    for o in (0, 1):
        p = d / f"p{idx}_{o}.s"
        p.write_text("\n".join(texts[o]) + "\n")
        objs.append(asm.assemble(p, extra=["-mrelax-relocations=no"]))
    return objs, {"funcs": funcs, "datas": datas}


def sites_of(objs):
    """Relocated sites from the input objects' own relocation records:
    dicts(kind, holder symbol, offset in holder section, target symbol, target class)."""
    out = []
    for o in objs:
        e = Elf(o)
        syms = e.symtab
        for rs in e.sections:
            if rs["type"] != 4:      # SHT_RELA
                continue
            tgt_sec = e.sections[rs["info"]]
            name = tgt_sec["name"]
            if not (name.startswith(".text.") or name.startswith(".data.")):
                continue
            holder = name.split(".", 2)[2]
            data = e.section_data(tgt_sec)
            for r in e.relas(rs):
                s = syms[r["sym"]]
                tclass = "function" if s["type"] == 2 else "datum" if s["type"] == 1 else None
                if tclass is None:
                    continue
                off = r["offset"]
                kind = None
                if r["type"] == R_PLT32 and data[off - 1] == 0xE8:
                    kind = "call"
                elif r["type"] == R_PC32 and data[off - 2] == 0x8D:
                    kind = "lea"
                elif r["type"] == R_PC32 and data[off - 2] == 0x8B:
                    kind = "load"
                elif r["type"] == R_GOTPCREL and data[off - 2:off] == b"\xff\x35":
                    kind = "gotslot"
                elif r["type"] == R_64 and name.startswith(".data."):
                    kind = "absptr"
                if kind:
                    out.append({"kind": kind, "holder": holder, "off": off, "target": s["name"], "tclass": tclass,
                                "addend": r["addend"]})
    return out


def patch(binary_bytes, elf, site, new_target_va):
    """Return patched bytes: the site now designates new_target_va."""
    b = bytearray(binary_bytes)
    holder = elf.symbol(site["holder"])
    p = holder["value"] + site["off"]
    fo = elf.vaddr_to_off(p)
    if site["kind"] in ("call", "lea", "load"):
        struct.pack_into("<i", b, fo, new_target_va + site["addend"] - p)
    elif site["kind"] == "absptr":
        struct.pack_into("<Q", b, fo, new_target_va)
    elif site["kind"] == "gotload":
        # the instruction now designates the address `shift` bytes away from its GOT cell
        disp = struct.unpack_from("<i", b, fo)[0]
        struct.pack_into("<i", b, fo, disp + new_target_va)
    elif site["kind"] == "gotslot":
        disp = struct.unpack_from("<i", b, fo)[0]
        slot = p - site["addend"] + disp
        so = elf.vaddr_to_off(slot)
        struct.pack_into("<Q", b, so, new_target_va)
    return bytes(b)


def new_target(case, site, info, elf, rng):
    t = site["target"]
    if case["kind"] == "gotload":
        # for a GOT-load site the "new target" is the byte shift applied to the displacement
        return case["shift"], (f"GOT cell of {t} {case['shift']:+d} bytes" if case["shift"] else "unchanged")
    if case["redir"] == "other-function":
        c = [f for f in info["funcs"] if f != t and elf.symbol(f)]
        return (elf.symbol(rng.choice(c))["value"], "other function") if c else (None, "")
    if case["redir"] == "other-datum":
        c = [x for x in info["datas"] if x != t and elf.symbol(x)]
        return (elf.symbol(rng.choice(c))["value"], "other datum") if c else (None, "")
    if case["redir"] == "same+8":
        return elf.symbol(t)["value"] + 8, f"{t}+8"
    return elf.symbol(t)["value"], "unchanged"


def ldiff(tool, ref, file, cwd):
    r = sh([tool, "--colour", "never", "--wild-defaults", "--ref", ref, file], cwd=cwd, timeout=120)
    if r.timed_out or r.rc not in (0, 1) or (r.rc == 0 and "No differences" not in r.out):
        return "error", r
    return ("quiet" if r.rc == 0 else "problem"), r


def run(ctx):
    cov = {"samples": []}
    rng = random.Random(ctx.seed)
    r = tlc.run_tlc("Diff", "mc/Diff_quick.cfg", workers=2, timeout=300, coverage=False)
    if not r.ok:
        raise ToolError(f"Diff model check failed: {r.violated} {r.error_text}\n{r.trace_text[:1500]}")
    cases = r.records
    if len(cases) != 64:
        raise ToolError(f"expected 64 exported cases, got {len(cases)}")
    gr = tlc.run_tlc("Diff", "mc/Diff_gotround.cfg", workers=2, timeout=300, coverage=False)
    if gr.ok or gr.violated != "RoundedOracleExact":
        raise ToolError("anti-vacuity: the oracle that rounds GOT addresses down to their cell was not rejected by TLC")
    bw = tlc.run_tlc("Diff", "mc/Diff_bytewise.cfg", workers=2, timeout=300, coverage=False)
    if bw.ok or bw.violated != "BytewiseQuiet":
        raise ToolError("anti-vacuity: the byte-wise oracle was not rejected by TLC")
    cov["states"], cov["transitions"] = r.distinct, r.generated
    cov["tlc_runs"] = [{"cfg": "mc/Diff_quick.cfg", **r.summary()},
                       {"cfg": "mc/Diff_bytewise.cfg", "expected_violation": bw.violated},
                       {"cfg": "mc/Diff_gotround.cfg", "expected_violation": gr.violated}]
    wild = build_wild()
    tool = build_linker_diff()
    n_prog = 4 if ctx.quick else 30
    evaluations = 0
    quiet_checks = 0
    detect = {"detected": 0, "not_assessable": 0}
    with scratch("c34") as d:
        progs = []
        for i in range(n_prog):
            sub = d / f"prog{i}"
            sub.mkdir()
            objs, info = gen_program(rng, sub, i)
            names = [o.name for o in objs]
            asm.gnu_ld(names + ["-o", "ref"], cwd=sub, check=True)
            rw = run_wild(names + ["-o", "out"], cwd=sub, env={"WILD_WRITE_LAYOUT": "1"}, timeout=60)
            if rw.rc != 0 or not (sub / "out.layout").exists():
                raise ToolError(f"generated program does not link with wild: {rw}")
            progs.append((sub, objs, info))

        def quiet_job(p):
            sub, objs, info = p
            res = []
            shutil.copy(sub / "out", sub / "copy")
            shutil.copy(sub / "out.layout", sub / "copy.layout")
            for ref, f, what in (("out", "out", "itself"), ("copy", "out", "byte-identical copy (as reference)"),
                                 ("out", "copy", "byte-identical copy (as file under test)")):
                st, rr = ldiff(tool, ref, f, sub)
                res.append((what, st, rr))
            st, rr = ldiff(tool, "ref", "out", sub)
            res.append(("baseline", st, rr))
            return p, res

        with ThreadPoolExecutor(max_workers=8) as ex:
            qres = list(ex.map(quiet_job, progs))
        assessable = []
        for (sub, objs, info), res in qres:
            for what, st, rr in res:
                if what == "baseline":
                    if st == "quiet":
                        assessable.append((sub, objs, info))
                    else:
                        log(f"note: baseline wild-vs-ld of {sub.name} is not quiet ({st}); its corruptions are not assessable")
                    continue
                quiet_checks += 1
                evaluations += 1
                if st != "quiet":
                    ctx.verdict.report(
                        f"false-alarm:{what.split(' (')[0].replace(' ', '-')}",
                        f"linker-diff reports a problem comparing a wild output with {what}: {rr.out[-300:]!r} {rr.err[-200:]!r}",
                        lambda sub=sub, what=what: save_replay(PROP, f"quiet-{sub.name}", sub, meta={
                            "cmd": "linker-diff --wild-defaults --ref out out  (and with copy)", "what": what}))
        if not assessable:
            raise ToolError("no generated program has a quiet wild-vs-GNU-ld baseline: nothing is assessable")

        jobs = []
        for sub, objs, info in assessable:
            elf = Elf(sub / "out")
            # sections that were garbage collected have no site in the output
            sites = [s for s in sites_of(objs) if elf.symbol(s["holder"]) and elf.symbol(s["target"])]
            raw = (sub / "out").read_bytes()
            for ci, case in enumerate(cases):
                skind = "gotslot" if case["kind"] == "gotload" else case["kind"]      # same instruction, other corruption
                cands = [dict(s, kind=case["kind"]) for s in sites if s["kind"] == skind and s["tclass"] == case["orig"]]
                if not cands:
                    detect["not_assessable"] += 1
                    continue
                site = rng.choice(cands)
                va, desc = new_target(case, site, info, elf, rng)
                if va is None:
                    detect["not_assessable"] += 1
                    continue
                jobs.append((sub, ci, case, site, va, desc, patch(raw, elf, site, va)))
        if not jobs:
            raise ToolError("no corruption case could be applied")

        def det_job(j):
            sub, ci, case, site, va, desc, data = j
            name = f"mut{ci}"
            (sub / name).write_bytes(data)
            shutil.copy(sub / "out.layout", sub / f"{name}.layout")
            st, rr = ldiff(tool, "ref", name, sub)
            return j, st, rr

        with ThreadPoolExecutor(max_workers=8) as ex:
            dres = list(ex.map(det_job, jobs))
        by_case = {}
        for (sub, ci, case, site, va, desc, data), st, rr in dres:
            evaluations += 1
            expect = "problem" if case["expect_problem"] else "quiet"
            ck = f"{case['kind']}:{case['orig']}:{case['redir']}"
            by_case.setdefault(ck, {"ok": 0, "bad": 0})
            if st == expect:
                by_case[ck]["ok"] += 1
                if case["expect_problem"]:
                    detect["detected"] += 1
            else:
                by_case[ck]["bad"] += 1
                meta = {"cmd": f"linker-diff --wild-defaults --ref ref mut{ci}", "case": case, "site": site,
                        "new_target": f"{desc} @ {va:#x}" if case["kind"] != "gotload" else desc, "expected": expect, "observed": st,
                        "stdout": rr.out[-1500:], "stderr": rr.err[-500:]}
                if st == "error":
                    key = f"error:{ck}"
                    text = f"linker-diff failed (rc={rr.rc}) on a binary with one redirected {case['kind']} site"
                elif case["expect_problem"]:
                    key = f"undetected:{ck}"
                    text = (f"{case['kind']} site in {site['holder']}+{site['off']:#x} (-> {site['target']}) redirected to "
                            f"{desc}: linker-diff reports no problem")
                else:
                    key = f"false-alarm:rewritten-same-value:{case['kind']}"
                    text = "rewriting a site with its own value makes linker-diff report a problem"
                ctx.verdict.report(key, f"{sub.name}: {text}",
                                   lambda sub=sub, ci=ci, meta=meta: save_replay(PROP, f"{sub.name}-mut{ci}", sub, meta=meta))
            if len(cov["samples"]) < 6 and case["redir"] != "none" and len(cov["samples"]) % 2 == (0 if st == expect else 1) or \
                    (len(cov["samples"]) < 3):
                cov["samples"].append({"program": sub.name, "case": case, "site": site,
                                       "new_target": f"{desc} @ {va:#x}" if case["kind"] != "gotload" else desc,
                                       "linker_diff": st, "report_head": rr.out[:300]})

        # binding demonstration: flip the expectation of one case -> the comparison must notice
        (sub, ci, case, site, va, desc, data), st, rr = next(x for x in dres if x[0][2]["redir"] != "none" and x[1] == "problem")
        if st == "quiet":
            raise ToolError("binding demo failed")
        cov["binding_demo"] = {"flipped_expectation_would_be_reported": st != "quiet"}
    cov["evaluations"] = evaluations
    cov["distinct_nontrivial"] = sum(1 for k, v in by_case.items() if not k.endswith(":none") and (v["ok"] + v["bad"]) > 0)
    cov["rule"] = ("evaluations = linker-diff runs (3 quiet comparisons per program + one per applied corruption case); "
                   "non-trivial = distinct (site kind, original class, redirection != none) cases applied to at least one "
                   "real binary whose unpatched wild-vs-GNU-ld comparison was quiet")
    cov["programs"] = n_prog
    cov["programs_assessable"] = len(assessable)
    cov["quiet_comparisons"] = quiet_checks
    cov["corruptions"] = detect
    cov["by_case"] = by_case
    cov["traces_validated_against_impl"] = evaluations
    cov["samples"] = trim_samples(cov["samples"], 6, 900)
    return {
        "level": "exploration",
        "coverage": cov,
        "assumptions": [
            "GNU ld 2.40's output of the same objects is the reference binary (as in wild's own test-suite)",
            "the patched field value is computed from the output's symbol table and the input object's relocation record",
        ],
    }
