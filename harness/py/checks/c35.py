"""C35 - Jobserver tokens are conserved.

Lifecycle.tla: ThreadsBounded (threads <= held + 1) and TokensConserved (after every process of the
link has exited the jobserver pipe holds what it held before, for success / error / panic, fork and
no-fork).  Replay: a real jobserver pipe preloaded with n tokens is handed to wild through
MAKEFLAGS=--jobserver-auth=R,W; the link is paused at a phase boundary to count the worker's threads,
then runs to the outcome the scenario prescribes; afterwards the bytes in the pipe are counted.
"""
import random

from vlib import lifecycle as lc

PROP = "C35"
META = {
    "ready": True,
    "level": "fault_enumeration",
    "technique": "TLA+ life-cycle model with jobserver tokens checked by TLC (TokensConserved, ThreadsBounded); enumerated outcomes replayed against a real jobserver pipe, counting tokens and threads",
    "level_text": "token counts {0,1,3,7} x {success, error and panic at every phase boundary} x fork/no-fork are replayed with a real pipe-based jobserver; after all processes of the link exit the pipe must hold exactly the initial number of tokens, and while paused at a phase boundary the worker process may have at most tokens+1 pool threads (+ the waiting main thread).",
    "level_note": "Threads are counted as OS threads of the worker process at a pause point: a pool of k threads shows as k+1 (the main thread blocks in rayon while the pool works), so the bound checked is tokens+2 OS threads; SIGKILL outcomes are excluded by the property's quantifier.",
    "engine": "tlc",
}


def select(s):
    return (not s["symlink"] and s["holder"] == "none" and s["changeAt"] == "none" and s["prior"] == "absent" and not s["shared"]
            and s["wopt"] == "default" and s["mmapOut"] and s["multi"]
            and (s["faultAt"] == "none" or s["faultKind"] in ("error", "panic")))


def run(ctx):
    cov = {}
    rng = random.Random(ctx.seed)
    tok = {}

    def kwargs(scn):
        n = rng.choice([0, 1, 3, 7])
        # pausing and faulting at the same point would never reach the pause; measure threads on
        # fault-free and late-fault runs only
        measure = scn["faultAt"] in ("none", "verified", "finished", "pre_inform", "post_inform")
        tok[lc.scn_key(scn)] = n
        # ThreadsBounded is an invariant of every state of the running worker: sample it at the end of the link proper and,
        # for forked fault-free links, after the parent was informed (the worker then only tears down - still a process
        # with a thread pool, still bound by the tokens it HOLDS at that moment)
        at = "post_inform" if (scn["fork"] and scn["faultAt"] == "none") else "written"
        return {"tokens": n, "measure_threads": measure, "measure_at": at}

    def judge(scn, adm, obs):
        out = []
        n = tok[lc.scn_key(scn)]
        if obs["tokens_left"] != n:
            out.append((f"tokens-not-conserved:{'fork' if scn['fork'] else 'nofork'}:{scn['faultKind'] if scn['faultAt'] != 'none' else 'success'}",
                        f"jobserver had {n} tokens before and {obs['tokens_left']} after the link"))
        if obs["nthreads"] is not None and obs["nthreads"] > n + 2:
            out.append((f"too-many-threads", f"{obs['nthreads']} OS threads with {n} tokens acquired (bound {n + 2})"))
        if obs["nthreads"] is not None and obs.get("tokens_at_pause") is not None:
            held = n - obs["tokens_at_pause"]
            if obs["nthreads"] > held + 2:
                out.append((f"threads-exceed-held-tokens:{obs['measured_at']}",
                            f"at '{obs['measured_at']}' the worker has {obs['nthreads']} OS threads while holding {held} of {n} tokens (bound {held + 2})"))
        return out

    # the scenarios' --threads flag would override the jobserver: strip it via a Workspace subclass
    orig = lc.Workspace.base_args

    def base_args(self, scn, out):
        return [a for a in orig(self, scn, out) if not a.startswith("--threads=")]
    lc.Workspace.base_args = base_args
    try:
        lc.replay(ctx, PROP, select, judge, n_quick=100, n_thorough=600, run_kwargs=kwargs, cov=cov, workers=4)
    finally:
        lc.Workspace.base_args = orig
    cov = lc.generic_cov(cov)
    return {"level": "fault_enumeration", "coverage": cov,
            "assumptions": ["pipe-style jobserver (--jobserver-auth=R,W)", "thread bound checked as tokens+2 OS threads (see level_note)"]}
