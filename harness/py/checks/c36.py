"""C36 - Stack and GNU property notes are merged as in GNU ld.

1. TLC (specs/Notes.tla, MCNotes.tla): for every scenario of the bounded spaces (<= 3 inputs x
   {.note.GNU-stack absent, non-executable, executable} x sequences of -z execstack/noexecstack x
   input kinds {object, extracted / not extracted archive member, shared object} x property types of
   every class incl. the class range boundaries x all 2-bit pr_data values, duplicates, two/three
   types at once) the step-by-step transcription of wild's rules is checked against the declarative
   GNU ld rule; the three known deviation classes are characterised exactly.  Deliberately corrupted
   transcriptions (AND->OR, missing note not treated as 0, -z noexecstack ignored, AND range one
   short, exec flag from the last input only) must be rejected (anti-vacuity).
2. Replay: every terminal state is a REPLAY record (scenario + GNU prediction + wild prediction).  A
   stratified, seeded selection is turned into real assembly inputs with hand-written notes and linked
   by the real wild and by the real GNU ld (static executable, and -shared / -pie for a portion).
   Three-way vote: spec != GNU ld => ToolError; wild != (spec = GNU ld) => VIOLATION.
3. AArch64 (BTI/PAC, GNU_PROPERTY_AARCH64_FEATURE_1_AND): objects by clang, reference ld.lld.
"""
import json
import os
import random
import re
import shutil
from concurrent.futures import ThreadPoolExecutor
from pathlib import Path

from vlib import notes, tlc
from vlib.common import ToolError, build_wild, log, run_wild, save_replay, scratch, sh, trim_samples

PROP = "C36"
META = {
    "ready": True,
    "level": "model_checking",
    "technique": "TLA+ decision model (GNU ld's PT_GNU_STACK and GNU-property merge rules vs a step-by-step transcription of wild's) exhaustively checked by TLC over bounded scenario spaces; TLC-enumerated scenarios replayed into the real wild and the real GNU ld 2.40 (three-way vote spec / GNU ld / wild)",
    "level_text": "For all link commands with <= 3 inputs (objects, archive members extracted or not, shared objects), every combination of .note.GNU-stack states and -z execstack/noexecstack sequences, and x86 / generic GNU property types of the AND, OR and OR-AND classes (incl. the class range boundaries, 2-bit values, absent notes, duplicates, several types at once) TLC shows that wild's merge procedure as transcribed yields GNU ld's result outside three exactly characterised deviation classes; a seeded stratified selection of these scenarios (all of the small ones in the thorough tier) is linked by the real wild and the real GNU ld and the observed PT_GNU_STACK flags and PT_GNU_PROPERTY contents must agree with the spec and with each other.",
    "level_note": "The model is exhaustive only within the bounds (3 inputs, 2 bits, <= 3 types); implementation runs are the replayed scenarios, not all of them in the quick tier; GNU ld's default for a missing .note.GNU-stack is a configure-time choice (installed ld: missing => executable once another input has the section) and is pinned by running it; AArch64 uses ld.lld as the only available reference; trusted base: TLC, GNU as/ld 2.40, the harness's ELF reader.",
    "engine": "tlc",
}

EXPECTED_ACTIONS = ["ResolveDecline", "ResolveOk", "MergeUnclassified", "MergeFirst", "MergeAnd", "MergeOr",
                    "NextFile", "Finish"]
MUTATIONS = ["and_as_or", "missing_note_not_zero", "noexecstack_ignored", "and_range_short", "exec_from_last_input"]
EXEC_MSG = "requires executable stack, but -z execstack is not specified"
UNCLASS_RE = re.compile(r"unclassified property type (\d+)")
BITMAPS = [(0, 1), (0, 1), (0, 31), (1, 30)]
# registered runs: 8 TLC workers / 8 parallel links; lower while developing next to other agents
TLC_WORKERS = int(os.environ.get("VERIF_C36_TLC_WORKERS", "8"))
JOBS = int(os.environ.get("VERIF_C36_JOBS", "8"))


# ---------------------------------------------------------------------------------------------
# TLC


def start_small_runs(ctx, ex):
    """The small TLC runs (liveness, deliberately corrupted transcriptions, AArch64 space) run in the
    background while the main space is checked and replayed."""
    def small(job):
        cfgname, kind = job
        rr = tlc.run_tlc("MCNotes", cfgname, workers=1, timeout=900, coverage=False,
                         name=f"c36.{Path(cfgname).stem}.{ctx.seed}")
        return cfgname, kind, rr

    rs = random.Random(ctx.seed)
    muts = MUTATIONS if not ctx.quick else [rs.choice(MUTATIONS[:3]), rs.choice(MUTATIONS[3:])]
    jobs = [("mc/Notes_live.cfg", "live")] + [(f"mc/Notes_mut_{m}.cfg", "mutant") for m in muts]
    return [ex.submit(small, j) for j in jobs]


def collect_small_runs(futs, cov):
    for f in futs:
        cfgname, kind, rr = f.result()
        if rr.timed_out:
            raise ToolError(f"TLC timed out on {cfgname}")
        if kind == "mutant":
            if rr.ok or not rr.violated:
                raise ToolError(f"corrupted transcription {cfgname} was NOT rejected by the invariants (vacuous): "
                                f"{rr.error_text}")
            cov["tlc_runs"].append({"cfg": cfgname, "expected_violation": rr.violated, "states_to_find": rr.distinct})
        else:
            if not rr.ok:
                raise ToolError(f"{cfgname}: {rr.violated} {rr.error_text}\n{rr.trace_text[:3000]}")
            cov["tlc_runs"].append({"cfg": cfgname, **rr.summary()})
            cov["states"] += rr.distinct
            cov["transitions"] += rr.generated


def model_check(ctx, cov):
    cfg = "mc/Notes_quick.cfg" if ctx.quick else "mc/Notes_thorough.cfg"
    to = 600 if ctx.quick else 1700
    r = tlc.run_tlc("MCNotes", cfg, workers=TLC_WORKERS, timeout=to, name=f"c36.main.{ctx.seed}")
    if r.timed_out:
        raise ToolError(f"TLC timed out on {cfg} after {to}s ({r.distinct} states)")
    if not r.ok:
        raise ToolError(f"Notes: the transcription of wild's rule and the GNU ld rule disagree outside the known "
                        f"deviation classes ({cfg}): {r.violated} {r.error_text}\n{r.trace_text[:4000]}")
    missing = tlc.zero_coverage_actions(r, EXPECTED_ACTIONS)
    if missing:
        raise ToolError(f"vacuous model run {cfg}: actions never taken: {missing}")
    if not r.records:
        raise ToolError("TLC printed no REPLAY records")
    cov["tlc_runs"] = [{"cfg": cfg, **r.summary(), "replay_records": len(r.records)}]
    cov["states"], cov["transitions"] = r.distinct, r.generated
    return r.records


# ---------------------------------------------------------------------------------------------
# Selecting and decorating records


def zmode(rec):
    return rec["z"][-1] if rec["z"] else "default"


def loaded(rec):
    return [i for i in rec["inputs"] if i["kind"] in ("obj", "member")]


def presence(inp, t):
    for p in inp["props"]:
        if (p["fam"], p["off"]) == (t["fam"], t["off"]):
            if len(p["vals"]) > 1:
                return "d"
            return "n" if p["vals"][0] else "z"
    return "a"


def stack_stratum(rec):
    ld = loaded(rec)
    unl_exec = any(i["stack"] == "exec" for i in rec["inputs"] if i["kind"] not in ("obj", "member"))
    return ("stack", tuple(i["kind"] for i in rec["inputs"]), tuple(rec["z"]),
            tuple(sorted(i["stack"] for i in ld)), unl_exec)


def prop_stratum(rec):
    ld = loaded(rec)
    if len(rec["types"]) == 1:
        t = rec["types"][0]
        unl = tuple(sorted(presence(i, t) for i in rec["inputs"] if i not in ld))
        return ("prop", (t["fam"], t["off"]), tuple(sorted(presence(i, t) for i in ld)), unl)
    summ = []
    for t in rec["types"]:
        pr = [presence(i, t) for i in ld]
        where = "all" if "a" not in pr else "none" if set(pr) == {"a"} else "some"
        summ.append((t["cls"], where, "nz" if "n" in pr or "d" in pr else "z"))
    return ("props", tuple(sorted(summ)))


def select(records, rng, budget):
    """Seeded selection that covers the stack strata and the property strata (separately, not their
    product) before filling up with random other records. Deterministic in (records, seed)."""
    recs = sorted(records, key=lambda r: json.dumps(r, sort_keys=True))
    rng.shuffle(recs)
    if budget >= len(recs):
        return recs
    chosen, rest, seen = [], [], set()
    for r in recs:
        ks = {stack_stratum(r), prop_stratum(r)}
        if not ks <= seen and len(chosen) < budget:
            seen |= ks
            chosen.append(r)
        else:
            rest.append(r)
    # fill: prefer scenarios that wild links (declined ones are covered by the stack strata already)
    rest.sort(key=lambda r: r["wild_declined"] != "no")
    chosen += rest[:max(0, budget - len(chosen))]
    return chosen


def strata(recs):
    return len({stack_stratum(r) for r in recs}), len({prop_stratum(r) for r in recs})


def decorate(rec, rng):
    nprops = max((sum(len(p["vals"]) for p in i["props"]) for i in rec["inputs"]), default=0)
    return {
        "bitmap": rng.choice(BITMAPS),
        "layout": rng.choice(["single", "split"]) if nprops > 1 else "single",
        "order": rng.choice(["asc", "desc"]) if nprops > 1 else "asc",
        "extra": rng.random() < 0.12,
        "modes": ["exe"] + ([rng.choice(["shared", "pie"])] if rng.random() < 0.25 else []),
    }


# ---------------------------------------------------------------------------------------------
# Building and linking one scenario


def input_texts(rec, deco, arch="x86_64"):
    calls = [k + 1 for k, i in enumerate(rec["inputs"]) if i["kind"] == "member"]
    return [notes.input_asm(k + 1, inp, first=(k == 0), calls=calls if k == 0 else (), deco=deco, arch=arch)
            for k, inp in enumerate(rec["inputs"])]


def build_all(cases, cache, ex):
    """Assemble every distinct input once (in parallel), then derive archives / shared objects."""
    todo = {}
    for c in cases:
        arch = c.get("arch", "x86_64")
        c["texts"] = input_texts(c["rec"], c["deco"], arch)
        for t, inp in zip(c["texts"], c["rec"]["inputs"]):
            todo.setdefault((arch, t), set()).add(inp["kind"])

    def one(item):
        (arch, text), kinds = item
        o = cache.obj(text, arch=arch)
        out = {"obj": o}
        if kinds & {"member", "lazy"}:
            out["member"] = out["lazy"] = cache.archive(o)
        if "dso" in kinds:
            out["dso"] = cache.dso(o)
        return (arch, text), out

    built = dict(ex.map(one, list(todo.items())))
    for c in cases:
        arch = c.get("arch", "x86_64")
        c["files"] = [built[(arch, t)][inp["kind"]] for t, inp in zip(c["texts"], c["rec"]["inputs"])]
    return len(built)


def link_args(rec, mode, files, out, arch="x86_64"):
    a = ["-m", "aarch64linux"] if arch == "aarch64" else []
    for z in rec["z"]:
        a += ["-z", z]
    if mode == "shared":
        a.append("-shared")
    elif mode == "pie":
        a.append("-pie")
    return a + [str(f) for f in files] + ["-o", str(out)]


def expected_props(rec, deco, key="gnu_props"):
    return sorted((notes.type_number(p["fam"], p["off"]), notes.map_bits(p["val"], deco["bitmap"])) for p in rec[key])


def filter_props(props, arch="x86_64"):
    """Keep the 4-byte properties of the AND / OR / OR-AND classes (what the property talks about)."""
    return sorted((t, v) for t, v in props if isinstance(v, int) and notes.class_of(t, arch) != "none")


def run_case(case):
    """Link one (record, mode) with the reference and with wild; returns the observations."""
    rec, deco, mode, files, d, name = case["rec"], case["deco"], case["mode"], case["files"], case["dir"], case["name"]
    arch = case.get("arch", "x86_64")
    out_ref, out_w = d / f"{name}.ref", d / f"{name}.wild"
    ref_args = link_args(rec, mode, files, out_ref, arch)
    if arch == "x86_64":
        ref_cmd = ["ld"] + ref_args
    else:
        ref_cmd = ["ld.lld"] + ref_args
    r = sh(ref_cmd, timeout=60)
    res = {"ref_cmd": ref_cmd, "ref_rc": r.rc, "ref_err": r.err[-600:]}
    if r.rc == 0 and not r.timed_out:
        res["ref"] = notes.observe(out_ref)
    w_args = link_args(rec, mode, files, out_w, arch)
    w = run_wild(w_args, timeout=60)
    res.update(wild_args=w_args, wild_rc=w.rc, wild_err=w.err[-600:], wild_klass=w.klass())
    if w.rc == 0 and not w.timed_out:
        try:
            res["wild"] = notes.observe(out_w)
        except Exception as e:  # noqa - an unreadable output is an observation about wild
            res["wild_unreadable"] = repr(e)
    if case.get("corrupt") and "wild" in res:
        # detection demonstration (env VERIF_C36_CORRUPT): falsify the observation of wild's output
        c = case["corrupt"]
        if c == "stack":
            res["wild"]["stack"] = "RWE" if res["wild"]["stack"] != "RWE" else "RW"
        elif c == "props" and res["wild"]["props_ph"]:
            t, v = res["wild"]["props_ph"][0]
            res["wild"]["props_ph"][0] = (t, v ^ (1 << case["deco"]["bitmap"][0]) if isinstance(v, int) else v)
    for p in (out_ref, out_w):
        p.unlink(missing_ok=True)
    return res


def stack_key(rec, ref_stack, wild_stack):
    st = "+".join(sorted(set(i["stack"] for i in loaded(rec))))
    return f"stack:z-{zmode(rec)}:{st}:gnu-{'exec' if ref_stack == 'RWE' else 'noexec'}-wild-{'exec' if 'E' in wild_stack else 'noexec'}"


def prop_key(rec, exp, got):
    ld = loaded(rec)
    parts = []
    for t in rec["types"]:
        ty = notes.type_number(t["fam"], t["off"])
        e = dict(exp).get(ty)
        g = dict(got).get(ty)
        if e == g:
            continue
        pres = "".join(sorted(presence(i, t) for i in ld))
        if "d" in pres and t["cls"] == "and":
            parts.append("and:duplicate-in-one-input")
        else:
            how = "dropped" if g is None else "spurious" if e is None else "value"
            parts.append(f"{t['cls']}:{pres}:{how}")
    if not parts:
        parts.append("extra-or-duplicate-entry")
    return "prop:" + ",".join(sorted(set(parts)))


def judge(ctx, case, res, stats):
    """Three-way vote for one linked case. Returns a short outcome string."""
    rec, deco, mode = case["rec"], case["deco"], case["mode"]
    arch = case.get("arch", "x86_64")
    name = case["name"]

    def replay_maker(tag, expected, observed):
        def mk():
            files = {}
            names = []
            for f in case["files"]:
                f = Path(f)
                files[f.name] = f.read_bytes()
                s = f.with_suffix(".s")
                if s.exists():
                    files[s.name] = s.read_bytes()
                names.append(f.name)
            meta = {"property": PROP, "case": name, "arch": arch, "mode": mode, "record": rec, "deco": deco,
                    "wild_args": link_args(rec, mode, names, "out.wild", arch),
                    "ref_cmd": [res["ref_cmd"][0]] + link_args(rec, mode, names, "out.ref", arch),
                    "env": {"WILD_VALIDATE_OUTPUT": "0"},
                    "expected": expected, "observed": observed,
                    "wild_rc": res["wild_rc"], "wild_stderr": res["wild_err"], "ref_stderr": res["ref_err"]}
            return save_replay(PROP, f"{tag}-{name}", files=files, meta=meta)
        return mk

    # --- reference vs spec
    if res["ref_rc"] != 0 or "ref" not in res:
        if arch != "x86_64":
            stats["a64_reference_failed"] += 1
            return "ref-failed"
        raise ToolError(f"GNU ld failed on a generated scenario {name}: {res['ref_cmd']} {res['ref_err']}")
    ref = res["ref"]
    exp_props = expected_props(rec, deco)
    ref_props = filter_props(ref["props_ph"], arch)
    if arch == "x86_64":
        if ref["stack"] != rec["gnu_stack"] or ref_props != exp_props:
            raise ToolError(f"spec != GNU ld on {name} mode={mode}: spec stack={rec['gnu_stack']} props={exp_props}; "
                            f"ld stack={ref['stack']} props={ref_props}; record={json.dumps(rec)} deco={deco}")
    else:
        if ref_props != exp_props:
            stats["a64_reference_disagrees"] += 1
            return "ref-disagrees"
    exp_exec = rec["gnu_stack"] == "RWE"
    stats["reference_agrees"] += 1
    # what is required of wild: GNU ld's note minus all-zero AND/OR-class entries (see Want in Notes.tla)
    exp_props = expected_props(rec, deco, "want_props")

    # --- wild
    drift = None
    if "wild" not in res:
        err = res["wild_err"]
        if res["wild_klass"] == "diagnostic" and EXEC_MSG in err:
            legit = any(i["stack"] == "exec" for i in loaded(rec)) and zmode(rec) != "execstack"
            if not legit:
                ctx.verdict.report(
                    f"declined-execstack-without-request:z-{zmode(rec)}",
                    f"wild rejects the link for an executable-stack request that no loaded input makes / that -z execstack covers: {name}",
                    replay_maker("decl", {"stack": rec["gnu_stack"], "props": exp_props}, {"stderr": err}))
                return "violation"
            stats["declined_execstack"] += 1
            if rec["wild_declined"] != "execstack":
                drift = "model predicted no decline"
            return "declined" if not drift else "drift:" + drift
        m = UNCLASS_RE.search(err)
        if res["wild_klass"] == "diagnostic" and m:
            ty = int(m.group(1))
            stats["declined_unclassified"] += 1
            ctx.verdict.report(
                f"prop:unclassified-type-{ty:#x}",
                f"wild fails the link ('unclassified property type') for a {notes.class_of(ty, arch)}-class property type "
                f"{ty:#x} that GNU ld merges: {name}",
                replay_maker("uncl", {"stack": rec["gnu_stack"], "props": exp_props}, {"stderr": err}))
            return "violation-or-known"
        ctx.verdict.report(
            f"link-failed:{res['wild_klass']}:" + re.sub(r"[^A-Za-z]+", "-", err.strip().splitlines()[-1] if err.strip() else "")[:60],
            f"wild produced no (readable) output where GNU ld links: {name} rc={res['wild_rc']} {err[-200:]!r} "
            f"{res.get('wild_unreadable', '')}",
            replay_maker("fail", {"stack": rec["gnu_stack"], "props": exp_props}, {"stderr": err}))
        return "violation"
    wild = res["wild"]
    bad = False
    w_exec = "E" in wild["stack"]
    if wild["stack"] == "none":
        w_exec = False
    if w_exec != exp_exec:
        bad = True
        ctx.verdict.report(
            stack_key(rec, ref["stack"], wild["stack"]),
            f"PT_GNU_STACK: GNU ld {ref['stack']} (= spec), wild {wild['stack']}: {name} mode={mode} z={rec['z']} "
            f"stacks={[i['stack'] + '/' + i['kind'] for i in rec['inputs']]}",
            replay_maker("stack", {"stack": rec["gnu_stack"]}, {"stack": wild["stack"]}))
    w_props = filter_props(wild["props_ph"], arch)
    if w_props != exp_props:
        bad = True
        ctx.verdict.report(
            prop_key(rec, exp_props, w_props),
            f"GNU property note: GNU ld {[(hex(t), v) for t, v in exp_props]} (= spec), wild "
            f"{[(hex(t), v) for t, v in w_props]}: {name} mode={mode} inputs={json.dumps(rec['inputs'])}",
            replay_maker("prop", {"props": exp_props}, {"props": w_props}))
    elif filter_props(wild["props_sec"], arch) != w_props or (w_props and not wild["has_pt_gnu_property"]):
        bad = True
        ctx.verdict.report(
            "prop:program-header-vs-section",
            f"wild's .note.gnu.property section and what PT_GNU_PROPERTY/PT_NOTE expose differ: {name} "
            f"sec={wild['props_sec']} ph={wild['props_ph']} PT_GNU_PROPERTY={wild['has_pt_gnu_property']}",
            replay_maker("phsec", {"props": exp_props}, {"ph": wild["props_ph"], "sec": wild["props_sec"]}))
    # --- the operational model against the real wild (is the transcription right?)
    if arch == "x86_64":
        if rec["wild_declined"] != "no":
            drift = f"model predicted decline ({rec['wild_declined']}) but wild linked"
        elif (rec["wild_stack"] == "RWE") != w_exec or expected_props(rec, deco, "wild_props") != w_props:
            drift = "model's wild-side prediction differs from wild"
    if drift:
        stats["model_drift"] += 1
        stats.setdefault("drift_examples", [])
        if len(stats["drift_examples"]) < 5:
            stats["drift_examples"].append({"case": name, "why": drift, "record": rec})
    if bad:
        return "violation-or-known"
    stats["wild_agrees"] += 1
    return "ok"


# ---------------------------------------------------------------------------------------------


def run(ctx):
    from collections import Counter
    cov = {"samples": []}
    rng = random.Random(ctx.seed)
    have_a64 = bool(shutil.which("clang") and shutil.which("ld.lld"))
    bg = ThreadPoolExecutor(max_workers=2)
    small = start_small_runs(ctx, bg)
    a64_fut = bg.submit(tlc.run_tlc, "MCNotes", "mc/Notes_a64.cfg", workers=1, timeout=900, coverage=False,
                        name=f"c36.a64.{ctx.seed}") if have_a64 else None
    records = model_check(ctx, cov)
    log(f"c36: TLC done at {ctx.elapsed():.0f}s, {len(records)} REPLAY records")
    build_wild()
    corrupt = os.environ.get("VERIF_C36_CORRUPT")  # detection demonstration only: "stack" | "props" | "spec"
    # number of REPLAY records linked by wild and GNU ld (VERIF_C36_BUDGET: time-boxed development runs only)
    budget = int(os.environ.get("VERIF_C36_BUDGET", "400" if ctx.quick else "5000"))
    chosen = select(records, rng, budget)
    if corrupt == "spec":
        # falsify one prediction of the spec: must be reported as a tool error (spec != GNU ld), never as a violation
        chosen[0] = dict(chosen[0], gnu_stack="RWE" if chosen[0]["gnu_stack"] != "RWE" else "RW")
    stats = Counter()
    strata_all = strata(records)
    strata_sel = strata(chosen)
    with scratch("c36") as d:
        cache = notes.InputCache(d / "in")
        cases = []
        for k, rec in enumerate(chosen):
            deco = decorate(rec, random.Random(f"{ctx.seed}:{k}"))
            for mode in deco["modes"]:
                cases.append({"rec": rec, "deco": deco, "mode": mode, "dir": d, "name": f"r{k}-{mode}",
                              "corrupt": corrupt if corrupt in ("stack", "props") and k % 97 == 3 else None})
        # AArch64: FEATURE_1_AND (BTI / PAC), reference ld.lld
        a64_cases = []
        if a64_fut is not None:
            ra = a64_fut.result()
            if not ra.ok:
                raise ToolError(f"Notes_a64: {ra.violated} {ra.error_text}")
            cov["tlc_runs"].append({"cfg": "mc/Notes_a64.cfg", **ra.summary(), "replay_records": len(ra.records)})
            cov["states"] += ra.distinct
            cov["transitions"] += ra.generated
            a64 = select(ra.records, random.Random(ctx.seed + 1), 40 if ctx.quick else len(ra.records))
            for k, rec in enumerate(a64):
                deco = decorate(rec, random.Random(f"a64:{ctx.seed}:{k}"))
                deco["extra"] = False
                a64_cases.append({"rec": rec, "deco": deco, "mode": "exe", "dir": d, "name": f"a{k}-exe",
                                  "arch": "aarch64"})
        all_cases = cases + a64_cases
        with ThreadPoolExecutor(max_workers=JOBS) as ex:
            nobj = build_all(all_cases, cache, ex)
            log(f"c36: {len(all_cases)} cases built at {ctx.elapsed():.0f}s ({nobj} distinct inputs)")
            results = list(ex.map(run_case, all_cases))
        log(f"c36: links done at {ctx.elapsed():.0f}s")
        outcomes = Counter()
        for case, res in zip(all_cases, results):
            o = judge(ctx, case, res, stats)
            outcomes[("a64:" if case.get("arch") == "aarch64" else "") + o.split(":")[0]] += 1
            if len(cov["samples"]) < 4 and o in ("ok", "declined") and (len(cov["samples"]) % 2 == 0) == (o == "ok"):
                cov["samples"].append({"case": case["name"], "z": case["rec"]["z"], "inputs": case["rec"]["inputs"],
                                       "spec_gnu": {"stack": case["rec"]["gnu_stack"], "props": case["rec"]["gnu_props"]},
                                       "ld": res.get("ref"), "wild": res.get("wild") or res["wild_err"][-120:],
                                       "outcome": o})
    collect_small_runs(small, cov)
    bg.shutdown()
    log(f"c36: background TLC runs collected at {ctx.elapsed():.0f}s")
    if stats["model_drift"] and not ctx.verdict.failed:
        raise ToolError(f"the transcription of wild in Notes.tla does not describe the real wild on {stats['model_drift']} "
                        f"replayed scenarios (wild agrees with GNU ld there): {json.dumps(stats.get('drift_examples'))[:3000]}")
    if stats["declined_execstack"] == 0:
        raise ToolError("no replayed scenario exercised the documented exec-stack rejection (selection is vacuous)")
    cov["traces_validated_against_impl"] = len(all_cases)
    cov["records_enumerated"] = len(records)
    cov["records_replayed"] = len(chosen)
    cov["strata_enumerated"] = {"stack": strata_all[0], "props": strata_all[1]}
    cov["strata_replayed"] = {"stack": strata_sel[0], "props": strata_sel[1]}
    cov["links"] = {"wild": len(all_cases), "reference": len(all_cases), "x86_64_cases": len(cases),
                    "aarch64_cases": len(a64_cases),
                    "modes": dict(Counter(c["mode"] for c in all_cases))}
    cov["outcomes"] = dict(outcomes)
    cov["stats"] = {k: v for k, v in stats.items() if k != "drift_examples"}
    cov["samples"] = trim_samples(cov["samples"], 4, 1500)
    return {
        "level": "model_checking",
        "coverage": cov,
        "assumptions": [
            "reference = the installed GNU ld 2.40 (x86-64 Linux, DEFAULT_LD_Z_EXECSTACK=1: a missing .note.GNU-stack implies an executable stack once another input has the section); every replayed scenario is linked by it and must agree with the spec",
            "an output without PT_GNU_STACK (GNU ld when no input has the section and no -z option is given) counts as 'not executable'",
            "a link that wild rejects with 'requires executable stack, but -z execstack is not specified' is counted as declined, not as a violation",
            "bounds: <= 3 inputs, 2-bit values mapped to varying bit positions, <= 3 property types per scenario; 4-byte properties only",
            "AArch64 (GNU_PROPERTY_AARCH64_FEATURE_1_AND): ld.lld 14 is the reference (no AArch64 GNU ld available); cases where lld disagrees with the spec are skipped",
        ],
    }


def replay(ctx, path):
    """Re-run wild on a saved replay directory and compare with the recorded expectation."""
    meta = json.loads((path / "replay.json").read_text())
    with scratch("c36r") as d:
        for f in path.iterdir():
            if f.name != "replay.json":
                shutil.copy(f, d / f.name)
        w = run_wild(meta["wild_args"], cwd=d, timeout=60)
        print(f"wild rc={w.rc} stderr={w.err[-300:]!r}")
        exp = meta["expected"]
        if w.rc != 0:
            print(f"expected {exp}; wild produced no output")
            return 1
        obs = notes.observe(d / "out.wild")
        print(f"expected {exp}; observed stack={obs['stack']} props={obs['props_ph']}")
        ok = True
        if "stack" in exp:
            ok &= (exp["stack"] == "RWE") == ("E" in obs["stack"] and obs["stack"] != "none")
        if "props" in exp:
            ok &= [list(x) for x in filter_props(obs["props_ph"], "aarch64" if meta.get("arch") == "aarch64" else "x86_64")] == [list(x) for x in exp["props"]]
        print("replay: " + ("no longer reproduces" if ok else "REPRODUCES"))
        return 0 if ok else 1
