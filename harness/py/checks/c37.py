"""C37 - DT_NEEDED lists exactly the required libraries.

1. TLC (specs/Needed.tla, MCNeeded.tla) enumerates link lines: (A) every sequence of up to K
   --as-needed/--no-as-needed/--push-state/--pop-state flags around two libraries (including
   unbalanced pops), (B) two libraries x main.o x a second object / archive member in every
   order, with strong/weak/no references to the libraries' own symbols, to a name defined by
   several files and to the name that pulls the archive member in, (C, thorough) three libraries.
   For every configuration it checks that wild's modifier stack computes the declarative modifier
   state, that the operational transcription of wild's loading rule yields the property's
   DT_NEEDED (order independent rule = lld) or GNU ld's (sequential scan) - or that the
   configuration lies in the exactly characterised deviation class - and prints REPLAY records.
2. Replay: a seeded sample of the records (thorough: a large sample) is turned into real inputs
   (GNU as objects, GNU ld-built helper libraries with sonames, archives), linked with wild, GNU ld
   and lld; DT_NEEDED is read with vlib/elf.py.  The spec's two reference rules are validated
   against the real GNU ld and lld (a disagreement is a tool error: the spec is wrong); wild must
   produce the property's sequence or, where GNU ld links the input, GNU ld's.
"""
import random
import re
from pathlib import Path

from vlib import symgen, tlc
from vlib.common import CACHE, SPECS, ToolError, build_wild, log, save_replay, scratch, trim_samples
from vlib.elf import Elf

PROP = "C37"
META = {
    "ready": True,
    "level": "model_checking",
    "technique": "TLA+ spec of the as-needed modifier stack and of DT_NEEDED selection (property rule, GNU ld's sequential rule, transcription of wild) enumerated exhaustively by TLC in small scope; enumerated link lines replayed into the real wild, GNU ld and lld and DT_NEEDED compared",
    "level_text": "TLC enumerates every link line in the bound (all flag sequences of up to 3/4 --as-needed/--no-as-needed/--whole-archive/--no-whole-archive/--push-state/--pop-state tokens around two libraries; two or three libraries x main.o x a second object or archive member in every command-line order x strong/weak/no references x a name defined by several files) and checks that wild's stack machine equals the declarative modifier state and that the transcription of wild's loading rule yields the property's DT_NEEDED or GNU ld's, except in one exactly characterised class. A seeded sample of the enumerated cases (hundreds in quick, thousands in thorough) is linked with the real wild, GNU ld 2.40 and lld 14 in three output kinds; both reference rules of the spec are validated against the real linkers and wild's DT_NEEDED must equal one of them.",
    "level_note": "Helper libraries have no undefined references, so the shared->shared activation rule of GNU ld is out of scope; one as-needed library per soname; bounds as stated; sampled replay in quick.",
    "engine": "tlc",
}
EXPECTED_ACTIONS = ["Parse", "LoadOne", "Finish"]
FLAG = {"as": "--as-needed", "noas": "--no-as-needed", "push": "--push-state", "pop": "--pop-state",
        "wa": "--whole-archive", "nowa": "--no-whole-archive"}
GC = ["-XX:ParallelGCThreads=4"]
KINDS = {"exe": [], "pie": ["-pie"], "shared": ["-shared", "-z", "defs"]}


def seeded_cfg(name, seed, stride=None):
    src = (SPECS / "mc" / name).read_text()
    src = re.sub(r"Seed = \d+", f"Seed = {seed % 1000}", src)
    if stride is not None:
        src = re.sub(r"Stride = \d+", f"Stride = {stride}", src)
    d = CACHE / "tlc" / "cfg"
    d.mkdir(parents=True, exist_ok=True)
    p = d / f"{Path(name).stem}.{seed}.cfg"
    p.write_text(src)
    return p


def model_check(ctx, cov):
    runs = []
    cfg = "Needed_quick.cfg" if ctx.quick else "Needed_thorough.cfg"
    # the main enumeration and the small auxiliary runs (liveness slice, two anti-vacuity runs) in parallel
    r, rl, rs, rb = symgen.tlc_parallel([
        (("MCNeeded", seeded_cfg(cfg, ctx.seed)), dict(workers=5, timeout=900 if ctx.quick else 2400, jvm_opts=GC)),
        (("MCNeeded", "mc/Needed_live.cfg"), dict(workers=1, timeout=900, coverage=False, jvm_opts=GC)),
        (("MCNeeded", "mc/Needed_strict.cfg"), dict(workers=1, timeout=900, coverage=False, jvm_opts=GC)),
        (("MCNeeded", "mc/Needed_broken.cfg"), dict(workers=1, timeout=900, coverage=False, jvm_opts=GC)),
    ])
    runs.append({"cfg": cfg, **r.summary()})
    if r.timed_out and not ctx.quick and r.violated is None and len(r.records) > 500:
        log(f"{cfg}: TLC timed out with {r.distinct} distinct states (counted as partial); {len(r.records)} records")
    elif not r.ok:
        raise ToolError(f"Needed model check failed ({cfg}): {r.violated} {r.error_text}\n{r.trace_text[:3000]}\n{r.out[-1500:]}")
    missing = [] if r.timed_out else tlc.zero_coverage_actions(r, EXPECTED_ACTIONS)
    if missing:
        raise ToolError(f"vacuous model run: actions never taken: {missing}")
    records = r.records
    states, trans = r.distinct, r.generated
    # termination (liveness) on a slice
    runs.append({"cfg": "Needed_live.cfg", **rl.summary()})
    if not rl.ok:
        raise ToolError(f"Needed liveness check failed: {rl.violated} {rl.error_text}\n{rl.trace_text[:2000]}")
    states += rl.distinct
    trans += rl.generated
    # anti-vacuity: (1) without the deviation class the conformance invariant must fail (the model
    # reproduces the recorded defect); (2) a wrong declarative rule must be refuted.
    for rx, cfgname, inv in ((rs, "mc/Needed_strict.cfg", "StrictConforms"), (rb, "mc/Needed_broken.cfg", "BrokenRuleHolds")):
        if rx.ok or rx.violated != inv:
            raise ToolError(f"anti-vacuity run {cfgname} did not report {inv}: ok={rx.ok} violated={rx.violated} {rx.error_text}")
        runs.append({"cfg": cfgname, "expected_violation": rx.violated, "states_to_find": rx.distinct})
    cov["states"], cov["transitions"], cov["tlc_runs"] = states, trans, runs
    return records


# ---------------------------------------------------------------------------------------------
# Real inputs


def lib_text(defs):
    return "".join(symgen.define(n, "lib") for n in sorted(defs))


def reg_text(f, is_main):
    t = [".text"]
    if is_main:
        t += [".globl _start", ".type _start,@function", "_start:"]
    else:
        t += [".type body,@function", "body:"]
    for n in sorted(f["strong"]):
        t.append(f"    call {n}@PLT")
    for n in sorted(f["weak"]):
        t += [f"    .weak {n}", f"    call {n}@PLT"]
    t.append("    ret")
    s = "\n".join(t) + "\n"
    for n in sorted(f["defs"]):
        s += symgen.define(n, "reg")
    return s


def script_segment(tokens):
    """(start, end) of the first run `file* (--as-needed file+ --no-as-needed file*)+` of the link line that
    starts where neither --as-needed nor --whole-archive is in force (token 0, the main object, stays on the
    command line). By the definition of input linker scripts such a run is the same link line as ONE script
    `INPUT ( f.. AS_NEEDED ( f.. ) f.. )`: the script inherits the command-line state (nothing in force),
    AS_NEEDED ( ... ) is --as-needed for exactly the files inside, and the state after the script is the state
    before it. Needed.tla's three rules therefore apply unchanged to the rendered line (the real GNU ld and lld
    are run on the rendered line too, so a wrong equivalence would surface as a spec-vs-reference disagreement)."""
    states, asn, wa, stack = [], False, False, []
    for tk in tokens:
        states.append((asn, wa))
        t = tk["t"]
        if t == "as":
            asn = True
        elif t == "noas":
            asn = False
        elif t == "wa":
            wa = True
        elif t == "nowa":
            wa = False
        elif t == "push":
            stack.append((asn, wa))
        elif t == "pop":
            if not stack:
                break
            asn, wa = stack.pop()
    n = len(states)
    for s0 in range(1, n):
        if states[s0] != (False, False):
            continue
        j = s0
        while j < n and tokens[j]["t"] == "file":
            j += 1
        groups, end = 0, None
        while j < n and tokens[j]["t"] == "as":
            k = j + 1
            while k < n and tokens[k]["t"] == "file":
                k += 1
            if k == j + 1 or k >= n or tokens[k]["t"] != "noas":
                break
            k += 1
            while k < n and tokens[k]["t"] == "file":
                k += 1
            groups, j, end = groups + 1, k, k
        if groups:
            return s0, end
    return None


def materialise(rec, pool, script=None):
    """Real files for a REPLAY record. Returns (args without output/kind flags, soname->file id). With `script`
    (a path) the first eligible run of the link line is rendered as an input linker script (script_segment)."""
    paths, sonames = {}, {}
    for i, f in enumerate(rec["files"], start=1):
        if f["kind"] == "lib":
            soname = f"libv{i}.so"
            tag = "-".join(sorted(f["defs"])) or "none"
            paths[i] = symgen.shared_lib(pool, f"libv{i}_{tag}.so", soname, lib_text(f["defs"]))
            sonames[soname] = i
        else:
            o = symgen.cached_obj(pool, reg_text(f, i == 1), stem="main" if i == 1 else "reg")
            paths[i] = symgen.cached_archive(pool, o) if f["kind"] == "member" else o
    args = []
    seg = script_segment(rec["tokens"]) if script is not None else None
    for pos, tk in enumerate(rec["tokens"]):
        if seg and seg[0] <= pos < seg[1]:
            if pos == seg[0]:
                part = rec["tokens"][seg[0]:seg[1]]
                items = ["AS_NEEDED (" if t["t"] == "as" else ")" if t["t"] == "noas" else str(paths[t["f"]]) for t in part]
                only_libs = all(rec["files"][t["f"] - 1]["kind"] == "lib" for t in part if t["t"] == "file")
                Path(script).write_text(f"/* GNU ld script */\n{'GROUP' if only_libs else 'INPUT'} ( {' '.join(items)} )\n")
                args.append(str(script))
            continue
        args.append(FLAG[tk["t"]] if tk["t"] != "file" else str(paths[tk["f"]]))
    rec["script"] = None if not seg else {"tokens": [seg[0], seg[1]], "text": Path(script).read_text(),
                                           "file_after_group": rec["tokens"][seg[1] - 1]["t"] == "file"}
    return args, sonames


def needed_ids(path, sonames):
    try:
        e = Elf(path)
    except Exception as ex:  # noqa
        return f"unreadable output: {ex}"
    out = []
    for n in e.needed:
        out.append(sonames.get(n, n))
    return out


def describe(rec):
    return {"idx": rec["idx"],
            "cmd": " ".join(FLAG[t["t"]] if t["t"] != "file" else f"F{t['f']}" for t in rec["tokens"]),
            "files": {f"F{i}": f"{f['kind']} defs={sorted(f['defs'])} strong={sorted(f['strong'])} weak={sorted(f['weak'])}"
                      for i, f in enumerate(rec["files"], start=1)},
            "final": rec["final"], "gnu": "fails" if rec["gnu_fails"] else rec["gnu"], "wild_op": rec["wild_op"]}


def classify(obs, rec):
    final = rec["final"]
    if not isinstance(obs, list):
        return "unreadable"
    extra = [x for x in obs if x not in final]
    missing = [x for x in final if x not in obs]
    if extra and not missing:
        return "extra-entry"
    if missing and not extra:
        return "missing-entry"
    if extra and missing:
        return "extra-and-missing"
    if len(obs) != len(set(map(str, obs))):
        return "duplicate-entry"
    return "order"


def run(ctx):
    cov = {"samples": []}
    rng = random.Random(ctx.seed)
    symgen.gnu_or_lld_available()
    records = model_check(ctx, cov)
    if len(records) < 50:
        raise ToolError(f"only {len(records)} REPLAY records")
    build_wild()
    records.sort(key=lambda r: (r["idx"], str(r["tokens"])))
    budget = 300 if ctx.quick else 2000
    # as-needed libraries inside --whole-archive regions are always replayed (a seeded subset of them)
    must = [r for r in records if r.get("must")]
    rest = [r for r in records if not r.get("must")]
    if not must:
        raise ToolError("no link line with an as-needed library inside a --whole-archive region was enumerated")
    must = rng.sample(must, min(len(must), 60 if ctx.quick else 400))
    if len(rest) > budget - len(must):
        rest = rng.sample(rest, budget - len(must))
    records = must + rest
    stats_must = len(must)
    model_errors, replayed, stale, wild_failed = [], 0, 0, []
    stats = {"conform_final": 0, "conform_gnu_only": 0, "known_dev": 0, "error_lines": 0, "kinds": {}}
    with scratch("c37") as d:
        pool = d / "pool"
        pool.mkdir()
        jobs = []
        for k, rec in enumerate(records):
            jobs.append((k, rec, rng.choice(list(KINDS))))

        def job(j):
            k, rec, kind = j
            # every second link line is rendered with an input linker script where it has an eligible run
            args, sonames = materialise(rec, pool, script=(d / f"libscr{k}.so") if k % 2 == 0 else None)
            j = (k, rec, args, sonames, kind)
            res = {}
            for linker in symgen.LINKERS:
                out = d / f"out{k}.{linker}"
                r = symgen.link(linker, KINDS[kind] + args + ["-o", out])
                ok = r.rc == 0 and not r.timed_out and out.exists()
                res[linker] = (ok, needed_ids(out, sonames) if ok else None, r)
            return j, res

        results = symgen.run_jobs(job, jobs, workers=8)
        for (k, rec, args, sonames, kind), res in results:
            w_ok, w_needed, w_r = res["wild"]
            g_ok, g_needed, g_r = res["ld"]
            l_ok, l_needed, l_r = res["lld"]
            stats["kinds"][kind] = stats["kinds"].get(kind, 0) + 1

            def replay_dir(name):
                # a self-contained copy: inputs are in the pool; copy the ones this case uses
                files = {}
                for a in args:
                    p = Path(a)
                    if p.exists():
                        files[f"in/{p.name}"] = p.read_bytes()
                        s = p.with_suffix(".s")
                meta = {"args": KINDS[kind] + [("in/" + Path(a).name) if Path(a).exists() else a for a in args] + ["-o", "out"],
                        "case": describe(rec), "kind": kind, "linker_script": rec.get("script"), "observed": {"wild": w_needed, "ld": g_needed if g_ok else "failed",
                                                                            "lld": l_needed if l_ok else "failed"},
                        "expected": {"property_rule": rec["final"], "gnu_ld_rule": None if rec["gnu_fails"] else rec["gnu"]},
                        "sonames": sonames, "wild_stderr": w_r.err[-800:]}
                return save_replay(PROP, name, files=files, meta=meta)

            if g_r.timed_out or l_r.timed_out:
                stats["reference_timeouts"] = stats.get("reference_timeouts", 0) + 1
                continue
            if rec["outcome"] == "error":
                stats["error_lines"] += 1
                if g_ok or l_ok:
                    model_errors.append(f"unbalanced --pop-state accepted by ld={g_ok} lld={l_ok}: {describe(rec)['cmd']}")
                replayed += 1
                continue
            # validate the spec's two reference rules against the real reference linkers
            if rec["gnu_fails"]:
                if g_ok:
                    model_errors.append(f"spec says GNU ld fails, real ld linked with {g_needed}: {describe(rec)}")
            else:
                if not g_ok:
                    model_errors.append(f"spec says GNU ld gives {rec['gnu']}, real ld failed ({g_r.err[-200:]!r}): {describe(rec)}")
                elif g_needed != rec["gnu"]:
                    model_errors.append(f"spec says GNU ld gives {rec['gnu']}, real ld gave {g_needed}: {describe(rec)}")
            if not l_ok:
                model_errors.append(f"spec says the link is valid, lld failed ({l_r.err[-200:]!r}): {describe(rec)}")
            elif l_needed != rec["final"]:
                model_errors.append(f"spec's property rule gives {rec['final']}, lld gave {l_needed}: {describe(rec)}")
            if model_errors:
                continue
            if w_r.timed_out:
                stats["wild_timeouts"] = stats.get("wild_timeouts", 0) + 1
                continue
            if not w_ok:
                wild_failed.append((describe(rec), w_r.err[-300:]))
                continue
            replayed += 1
            if w_needed != rec["wild_op"]:
                stale += 1
            accepted = [rec["final"]] + ([] if rec["gnu_fails"] else [rec["gnu"]])
            if w_needed in accepted:
                if w_needed == rec["final"]:
                    stats["conform_final"] += 1
                else:
                    stats["conform_gnu_only"] += 1
                if len(cov["samples"]) < 4:
                    cov["samples"].append({**describe(rec), "kind": kind, "wild": w_needed})
                continue
            if rec["dev"] and w_needed == rec["wild_op"]:
                key = "asneeded-lib-first-definer-overridden-by-regular-definition"
                stats["known_dev"] += 1
            else:
                key = "dt-needed:" + classify(w_needed, rec)
            ctx.verdict.report(
                key,
                f"DT_NEEDED of wild = {w_needed}; property rule (= lld) {rec['final']}; GNU ld "
                f"{'fails' if rec['gnu_fails'] else rec['gnu']}; link line: {describe(rec)['cmd']} ({kind})",
                lambda: replay_dir(f"case-{rec['idx']}-{kind}"))
        if stats.get("reference_timeouts", 0) > max(3, len(results) // 20):
            raise ToolError(f"{stats['reference_timeouts']} reference links timed out (machine overloaded?)")
        if model_errors:
            raise ToolError(f"{len(model_errors)} disagreements between the spec's reference rules and the real "
                            f"GNU ld / lld (the spec is wrong, not wild):\n" + "\n".join(model_errors[:8]))
        if stats.get("wild_timeouts", 0) > max(3, len(results) // 20):
            raise ToolError(f"wild timed out on {stats['wild_timeouts']} links (cannot evaluate the property)")
        if wild_failed:
            raise ToolError(f"wild failed on {len(wild_failed)} link lines that GNU ld/lld and the spec accept "
                            f"(cannot evaluate the property): {wild_failed[:3]}")
        # binding demonstration: a corrupted observation (one DT_NEEDED string patched in an output
        # of wild) must be noticed by the comparison
        demo = None
        for (k, rec, args, sonames, kind), res in results:
            w_ok, w_needed, _ = res["wild"]
            if w_ok and isinstance(w_needed, list) and w_needed and rec["outcome"] == "done":
                out = d / f"out{k}.wild"
                data = bytearray(out.read_bytes())
                name = next(s for s, i in sonames.items() if i == w_needed[0]).encode()
                pos = data.find(name + b"\0")
                if pos < 0:
                    continue
                data[pos + 4] = ord("X")
                out.write_bytes(bytes(data))
                mutated = needed_ids(out, sonames)
                demo = {"case": rec["idx"], "before": w_needed, "after_patch": mutated, "detected": mutated != w_needed}
                if mutated == w_needed:
                    raise ToolError("binding demonstration failed: patched DT_NEEDED string not observed")
                break
        cov["binding_demo"] = demo
    scripted = [rec for (k, rec, *_), _ in results if rec.get("script")]
    stats["link_lines_rendered_with_input_linker_script"] = len(scripted)
    stats["of_which_a_file_follows_the_AS_NEEDED_group"] = sum(1 for r in scripted if r["script"]["file_after_group"])
    if stats["of_which_a_file_follows_the_AS_NEEDED_group"] < 5:
        raise ToolError(f"vacuous population: only {len(scripted)} link lines rendered with an input linker script, "
                        f"{stats['of_which_a_file_follows_the_AS_NEEDED_group']} with a file after the AS_NEEDED group")
    cov["traces_validated_against_impl"] = replayed
    stats["asneeded_in_whole_archive_cases"] = stats_must
    cov["replay_stats"] = stats
    cov["operational_model_stale"] = stale
    cov["reference_links"] = {"gnu_ld": len(results), "lld": len(results)}
    cov["samples"] = trim_samples(cov["samples"], 4, 900)
    if stale:
        log(f"note: wild's DT_NEEDED differs from the operational transcription in {stale} cases")
    return {
        "level": "model_checking",
        "coverage": cov,
        "assumptions": [
            "helper shared libraries have no undefined references (GNU ld's shared->shared activation rule is not exercised)",
            "the property text is read as the order-independent rule (validated against lld on every case); GNU ld's order-dependent result is accepted as well wherever GNU ld links the input (validated against ld 2.40 on every case)",
            "replay is a seeded sample of the TLC-enumerated configurations",
            "input linker scripts: every second replayed link line with a run `file* (--as-needed file+ --no-as-needed file*)+` outside --as-needed / --whole-archive regions is rendered as INPUT/GROUP ( .. AS_NEEDED ( .. ) .. ) - the same link line by definition of AS_NEEDED, checked against GNU ld and lld on the rendered line; scripts inside --as-needed or --whole-archive regions and nested scripts are not generated",
        ],
    }
