"""C38 - Every function and object has one address across modules.

1. TLC, exhaustive: specs/LoaderMM.tla - executable E (PIE / non-PIE) + libraries L1, L2, one shared
   function or object defined in one of them, each module referring to it by GOT load, pointer in
   data, or (E only) direct non-PIC reference; static-linker model (copy relocation exported from E,
   canonical PLT entry in E's dynsym) + loader model (lookup in scope order): OneAddress,
   InitialValueVisible, SharedStore hold for all 949 scenarios (incl. library objects with a weak
   alias name at the same address, each module using either name); the variants NoExportCopy,
   NoCanonicalPlt, LocalBindInLib, NoAliasExport must each be rejected.
2. Replay: every (thorough) / sampled (quick) scenario record is generated as three assembly modules;
   wild links all three (and, to isolate the executable side, E against GNU-ld-linked libraries);
   GNU ld links all three as oracle of the scenario.  The program is executed under the system ld.so:
   E compares the address every module sees, checks the initial value through every view and that a
   store through each view is read through all others (exit 0 / n, views on stdout).  The harness's
   loader model computes the same views statically at a second base set; the views are judged by
   TLC (LoaderObs!OneAddress).
"""
import json
import random
from concurrent.futures import ProcessPoolExecutor
from pathlib import Path

from vlib import allocprobe, mmgen as mm, relocrun as rr, tlc
from vlib.common import ToolError, build_wild, log, save_replay, scratch, trim_samples
from vlib.loader import LoaderError, limbs

PROP = "C38"
META = {
    "ready": True,
    "level": "model_checking",
    "technique": "TLA+ multi-module linker/loader model (copy relocations, canonical PLT, GOT) checked exhaustively by TLC, its scenarios replayed as real three-module programs linked by wild and executed under the system dynamic loader; statically observed views judged by the spec's OneAddress operator",
    "level_text": "All 949 scenarios {function, object, object with a weak alias name} x defining module x reference kind and name used per module (GOT, data pointer, direct non-PIC from the executable) x {PIE, non-PIE} are explored by TLC (OneAddress, InitialValueVisible, SharedStore; four broken variants rejected). Each sampled (quick) / every (thorough) scenario is linked by the real wild (all modules, and the executable against GNU-ld libraries), executed natively (address agreement, initial value, stores through every view), and statically observed at a second base set with the views judged by TLC.",
    "level_note": "One shared entity per program, three modules, x86-64, default symbol visibility; ifunc entities and symbol versioning are not covered. Trusted base: TLC, GNU as, system ld.so, the harness loader model (cross-checked against native execution).",
    "engine": "tlc",
}
CONFIGS = [("www", dict(E="wild", L1="wild", L2="wild")), ("wll", dict(E="wild", L1="ld", L2="ld")),
           ("lll", dict(E="ld", L1="ld", L2="ld"))]


def model(ctx, cov):
    r = tlc.run_tlc("MCLoaderMM", "mc/LoaderMM_correct.cfg", workers=4, timeout=600)
    if not r.ok:
        raise ToolError(f"LoaderMM model check failed: {r.violated} {r.error_text}\n{r.trace_text[:2500]}")
    miss = tlc.zero_coverage_actions(r, ["Load", "Store"])
    if miss:
        raise ToolError(f"vacuous LoaderMM run: {miss}")
    runs = [{"cfg": "mc/LoaderMM_correct.cfg", **r.summary(), "records": len(r.records)}]
    for v in ("NoExportCopy", "NoCanonicalPlt", "LocalBindInLib", "NoAliasExport"):
        rb = tlc.run_tlc("MCLoaderMM", f"mc/LoaderMM_{v}.cfg", workers=4, timeout=600, coverage=False)
        if rb.ok or not rb.violated:
            raise ToolError(f"broken variant {v} was not rejected by the LoaderMM invariants")
        runs.append({"cfg": f"mc/LoaderMM_{v}.cfg", "expected_violation": rb.violated})
    if len(r.records) < 300:
        raise ToolError(f"only {len(r.records)} scenario records")
    cov["states"], cov["transitions"], cov["tlc_runs"] = r.distinct, r.generated, runs
    return r.records


def work(args):
    rec, workdir = args
    res = {"rec": rec, "name": mm.scenario_name(rec), "cfg": {}}
    try:
        cd = Path(workdir) / res["name"]
        objs = mm.build(rec, cd)
        res["dir"] = str(cd)
        for tag, who in CONFIGS:
            ok, paths, logs = mm.link_all(rec, objs, cd / tag, who)
            sub = {"linked": ok, "logs": logs}
            if ok:
                rc, views = mm.run_native_raw(paths)
                rc2, views2 = mm.run_native_raw(paths)
                sub["native"] = [rc, rc2]
                sub["native_views"] = [views, views2]
                try:
                    o = mm.observe(rec, paths, 1)
                    sub["views"] = o["views"]
                    sub["ident"] = o["ident"]
                except LoaderError as e:
                    sub["loaderr"] = str(e)
            else:
                sub["alloc"] = any(allocprobe.is_alloc_failure(l["err"]) for l in logs.values() if l["rc"] != 0 and l["linker"] == "wild")
            res["cfg"][tag] = sub
    except ToolError as e:
        res["tool_error"] = str(e)
    except Exception:  # noqa
        import traceback
        res["tool_error"] = traceback.format_exc()[-1500:]
    return res


def run(ctx):
    cov = {"samples": []}
    rng = random.Random(ctx.seed)
    recs = model(ctx, cov)
    build_wild()
    for i, r in enumerate(recs):
        # the direct reference: R_X86_64_32 for functions (non-PIE only), alternating PC32 / 32 for objects
        if r["refE"] == "direct":
            r["direct"] = "abs32" if (r["kind"] == "func" or (not r["pie"] and i % 2 == 0)) else "pc32"
    if ctx.quick:
        hard = [r for r in recs if r["expectCopy"] or r["expectCanonicalPlt"]]
        rest = [r for r in recs if not (r["expectCopy"] or r["expectCanonicalPlt"])]
        # always: a library object with a weak alias, copy-relocated by the executable under the strong name
        # only, read / written by a library through the alias - PIE and non-PIE
        ali = [r for r in recs if r["alias"] and r["expectCopy"] and not r["aliasE"] and (r["aliasL1"] or r["aliasL2"])]
        must = []
        for pie in (False, True):
            a = [r for r in ali if r["pie"] == pie]
            must += rng.sample(a, min(4, len(a)))
        if len(must) < 8:
            raise ToolError("the LoaderMM model no longer emits the alias / copy-relocation scenarios")
        hard = [r for r in hard if r not in must]
        pick = must + rng.sample(hard, min(20, len(hard))) + rng.sample(rest, 24)
    else:
        pick = recs
    with scratch("c38") as d:
        with ProcessPoolExecutor(max_workers=8) as ex:
            results = list(ex.map(work, [(r, str(d / "w")) for r in pick], chunksize=2))
        errs = [r for r in results if "tool_error" in r]
        if errs:
            raise ToolError(f"{len(errs)} scenario(s) failed in the harness, first {errs[0]['name']}: {errs[0]['tool_error']}")
        views, owner = [], []
        for i, res in enumerate(results):
            for tag, _ in CONFIGS:
                sub = res["cfg"].get(tag, {})
                if "views" in sub:
                    vs = [sub["views"][m] for m in mm.MODS if m in sub["views"]]
                    views.append({"id": len(views), "entity": res["name"], "seen": [limbs(v) for v in vs]})
                    owner.append((i, tag))
        verdict = rr.tlc_judge(views=views, name="c38")
        bad = {b["id"] for b in verdict["views_bad"]}
        for k, v in enumerate(views):
            py = len({tuple(x) for x in v["seen"]}) > 1
            if py != (k in bad):
                raise ToolError(f"python and LoaderObs!OneAddress disagree on {v['entity']}")
        n_ok = n_bad = n_rej = 0
        for i, res in enumerate(results):
            rec = res["rec"]
            ora = res["cfg"]["lll"]
            ora_ok = ora["linked"] and ora["native"] == [0, 0] and (len(set(ora.get("views", {0: 0}).values())) == 1)
            if not ora_ok:
                # the scenario itself is not valid / not portable: GNU ld's program does not satisfy the property
                raise ToolError(f"GNU ld reference build of scenario {res['name']} does not satisfy OneAddress "
                                f"(linked={ora['linked']} native={ora.get('native')} views={ora.get('views')} {ora.get('loaderr')}): "
                                f"the scenario or the observer is wrong")
            for tag in ("www", "wll"):
                sub = res["cfg"][tag]
                if not sub["linked"]:
                    n_rej += 1
                    log(f"C38 note: wild rejects {res['name']} [{tag}]: " +
                        "; ".join(l["err"].strip()[-160:] for l in sub["logs"].values() if l["rc"] != 0))
                    continue
                why = []
                k = next((k for k, (ri, t) in enumerate(owner) if ri == i and t == tag), None)
                if k is not None and k in bad:
                    why.append("statically observed views differ: " + ", ".join(f"{m}=0x{v:x}" for m, v in sub["views"].items()))
                if "loaderr" in sub:
                    why.append("loader model: " + sub["loaderr"])
                if sub.get("ident") and not all(sub["ident"].values()):
                    why.append(f"a view does not designate the entity (initial value / function body): {sub['ident']}")
                if any(rc != 0 for rc in sub["native"]):
                    stage = {1: "addresses differ", 2: "initial value not visible through a view", 3: "store through one view not seen through another",
                             4: "call through a view does not reach the function"}.get(sub["native"][0], "crash")
                    why.append(f"native execution exit {sub['native']} ({stage}); views printed by the program: "
                               f"{[hex(v) for v in (sub['native_views'][0] or [])]}")
                if why:
                    n_bad += 1
                    mech = "copy" if rec["expectCopy"] else ("canonical-plt" if rec["expectCanonicalPlt"] else "symbolic")
                    key = f"{rec['kind']}:def{rec['def']}:{mech}:{'pie' if rec['pie'] else 'nopie'}:E{rec['refE']}{('-' + rec.get('direct', '')) if rec['refE'] == 'direct' else ''}:{tag}"
                    if rec.get("alias"):
                        key += ":alias" + "".join(m for m in mm.MODS if rec.get("alias" + m))
                    ctx.verdict.report(key, f"{res['name']} [{tag}]: " + "; ".join(why)[:700],
                                       lambda res=res: save_replay(PROP, res["name"], src_dir=res["dir"],
                                                                   meta={"rec": res["rec"], "cfg": res["cfg"]}))
                else:
                    n_ok += 1
                    if len(cov["samples"]) < 4:
                        cov["samples"].append({"scenario": res["name"], "linkers": tag, "views": {m: hex(v) for m, v in sub["views"].items()},
                                               "native_exit": sub["native"], "native_views": [hex(v) for v in sub["native_views"][0]]})
        # binding demonstration: a corrupted view must be rejected by the specification's operator
        if not views:
            raise ToolError("no views observed")
        good = next((v for k, v in enumerate(views) if len(v["seen"]) > 1 and k not in bad), None)
        if good is None:
            raise ToolError("no agreeing multi-module view available for the binding demonstration")
        m = json.loads(json.dumps(good))
        m["seen"][0][0] ^= 8
        vj = rr.tlc_judge(views=[dict(m, id=0)], name="c38demo")
        if not vj["views_bad"]:
            raise ToolError("binding demonstration failed: corrupted view accepted by OneAddress")
        cov["binding_demo"] = {"mutation": "one module's view shifted by 8", "rejected": True}
    cov["traces_validated_against_impl"] = len(results)
    cov["views_judged_by_tlc"] = len(views)
    cov["outcomes"] = {"ok": n_ok, "one_address_broken": n_bad, "rejected_by_wild": n_rej}
    cov["scenarios_enumerated"] = len(recs)
    cov["exhaustive"] = not ctx.quick
    if n_ok + n_bad < len(results) // 2:
        raise ToolError(f"only {n_ok + n_bad} (scenario, linker set) pairs were linked by wild out of {2 * len(results)}: vacuous")
    cov["samples"] = trim_samples(cov["samples"], 4, 700)
    return {"level": "model_checking", "coverage": cov,
            "assumptions": ["one shared entity per program, default visibility, three modules, x86-64",
                            "function addresses are taken directly only by R_X86_64_32 in a non-PIE executable (PC-relative references to functions are calls)",
                            "system ld.so (glibc 2.36) semantics for symbol lookup, COPY and canonical PLT entries"]}
