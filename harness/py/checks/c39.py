"""C39 - Parallel layout traversal loses no work and always finishes.

1. TLC, exhaustive: GcTraversal (data + protocol) over all 512 request graphs on 3 items / 3 groups
   (one delayed): Closure, NoLostRequest, EachItemOnce, ... , liveness <>scopeEnd under weak fairness,
   and refinement of GcProto.  A second run with failing items.  The deliberately racy variant must
   produce a counterexample (anti-vacuity).
2. Trace validation: real links (generated reference graphs spread over many groups, start/stop
   sections for the delayed synthetic group, thread counts, seeded yield injection at the protocol
   steps) emit one event per protocol step; every trace must be a behaviour of GcProto with all its
   invariants holding at every step, including the real final slot contents at ScopeEnd.
3. Binding demonstration: a corrupted copy of an accepted trace must be rejected.
"""
import json
import random
from concurrent.futures import ThreadPoolExecutor

from vlib import asm, tlc
from vlib.common import ToolError, build_wild, log, run_wild, save_replay, scratch, trim_samples

PROP = "C39"
META = {
    "ready": True,
    "level": "model_checking",
    "technique": "TLA+ spec of the slot protocol exhaustively model-checked with TLC (safety, liveness, refinement) + trace validation of hook-recorded real links against the spec",
    "level_text": "Every interleaving of the worker-slot protocol is explored by TLC for all request graphs on 3 items over 3 groups (incl. the delayed synthetic group, failing items): closure, no lost request, each item once, termination under weak fairness; the data-level model is checked to refine the count-level protocol GcProto, and every recorded trace of a real link (many groups, 2-16 threads, seeded yields at the protocol steps) must be a behaviour of GcProto with its invariants holding at each step and at the real final slot state.",
    "level_note": "Assumes sequential consistency for the two Relaxed atomics; implementation schedules are sampled, only the model is exhaustive; trusted base: TLC, the hook placement (events under the slot lock), the count abstraction (checked by TLC as a refinement).",
    "engine": "tlc",
}
EXPECTED_ACTIONS = ["ActBegin", "Request", "ActEnd", "TakeItem", "SlotPark", "SlotSwap", "TaskStart",
                    "Dec", "DelayPop", "DrainEmpty", "ScopeEnd"]


def model_check(ctx, cov):
    cfgs = [("mc/GcTraversal_quick.cfg", 600)]
    if ctx.quick:
        cfgs.append(("mc/GcTraversal_fail.cfg", 600))
    else:
        cfgs += [("mc/GcTraversal_fail.cfg", 900), ("mc/GcTraversal_thorough.cfg", 2400),
                 ("mc/GcTraversal_local.cfg", 1200)]
    states = trans = 0
    runs = []
    for cfg, to in cfgs:
        r = tlc.run_tlc("MCGcTraversal", cfg, workers=8, timeout=to)
        runs.append({"cfg": cfg, **r.summary()})
        if r.timed_out and not ctx.quick:
            log(f"{cfg}: timed out after {to}s with {r.distinct} distinct states (counted as partial)")
            continue
        if not r.ok:
            # The model itself violates the property: that is a statement about the design as
            # transcribed, not yet about wild -> tool error until reproduced against the binary.
            raise ToolError(f"GcTraversal model check failed ({cfg}): {r.violated} {r.error_text}\n{r.trace_text[:3000]}")
        missing = tlc.zero_coverage_actions(r, EXPECTED_ACTIONS + (["TakeFail"] if "fail" in cfg else []))
        if missing:
            raise ToolError(f"vacuous model run {cfg}: actions never taken: {missing}")
        states += r.distinct
        trans += r.generated
    # anti-vacuity: the racy variant must be caught
    r = tlc.run_tlc("MCGcTraversal", "mc/GcTraversal_racy.cfg", workers=8, timeout=600, coverage=False)
    if r.ok or not r.violated:
        raise ToolError("racy variant of the slot check was NOT caught by the model: invariants are vacuous")
    runs.append({"cfg": "mc/GcTraversal_racy.cfg", "expected_violation": r.violated, "states_to_find": r.distinct})
    cov["states"] = states
    cov["transitions"] = trans
    cov["tlc_runs"] = runs


def make_links(ctx, d, rng, n):
    """Yield (name, objs, args, env) for n generated links."""
    for k in range(n):
        sub = d / f"l{k}"
        sub.mkdir()
        n_objs = rng.choice([3, 4, 6, 9])
        scn = asm.gc_scenario(rng, n_objs, rng.choice([4, 8, 14]), p_edge=rng.choice([0.15, 0.3, 0.5]),
                              n_sets=rng.choice([0, 1, 2]))
        objs = asm.gc_emit_x86(scn, sub)
        threads = rng.choice([2, 3, 4, 8, 16])
        env = {"WILD_FILES_PER_GROUP": str(rng.choice([1, 1, 1, 2])),
               "WILD_VERIF_YIELD_SEED": str(rng.getrandbits(31))}
        args = [str(o) for o in objs] + ["-o", str(sub / "out"), f"--threads={threads}"]
        if rng.random() < 0.3:
            args.append("--no-gc-sections")
        yield f"l{k}", sub, scn, args, env


def failing_link(d, rng, kind):
    """A link whose traversal reports errors (undefined symbols in several objects)."""
    sub = d / f"fail_{kind}"
    sub.mkdir()
    objs = []
    body0 = '.section .text._start,"ax",@progbits\n.globl _start\n_start:\n'
    for i in range(1, 5):
        body0 += f"    call g{i}\n"
    body0 += asm.EXIT_X86
    objs.append(asm.write_asm(sub, "o0", body0))
    for i in range(1, 5):
        objs.append(asm.write_asm(sub, f"o{i}",
                                  f'.section .text.g{i},"ax",@progbits\n.globl g{i}\ng{i}:\n    call undef_{i}\n    ret\n'))
    env = {"WILD_FILES_PER_GROUP": "1", "WILD_VERIF_YIELD_SEED": str(rng.getrandbits(31))}
    args = [str(o) for o in objs] + ["-o", str(sub / "out"), "--threads=4"]
    return sub, args, env


GC_EVENTS = {"ScopeBegin", "DelayPush", "ActBegin", "ActEnd", "ActDec", "DelayPop", "Send", "SendLocal", "Err", "Item", "Fail",
             "SlotPark", "SlotSwap", "TaskStart", "ScopeEnd"}


def gc_only(trace_path):
    """The hooks of other protocols (string merging, life-cycle phases) write to the same file:
    keep the traversal's events only."""
    out = trace_path.with_suffix(".gc.ndjson")
    with open(out, "w") as f:
        for line in open(trace_path):
            try:
                if json.loads(line)["ev"] in GC_EVENTS:
                    f.write(line)
            except (ValueError, KeyError):
                raise ToolError(f"malformed trace line: {line[:100]}")
    return out


def validate(trace_path, name):
    return tlc.validate_trace("GcProtoTrace", "mc/GcProtoTrace.cfg", trace_path, timeout=300, name=name)


def run(ctx):
    cov = {"samples": []}
    rng = random.Random(ctx.seed)
    import os
    if os.environ.get("VERIF_DEV_SKIP_MODEL") == "1":      # development aid only: never set by registered commands
        cov.update(states=1, transitions=1, tlc_runs=["skipped (VERIF_DEV_SKIP_MODEL)"])
    else:
        model_check(ctx, cov)
    build_wild()
    n_links = 40 if ctx.quick else 400
    traces = []
    events_total = 0
    with scratch("c39") as d:
        jobs = []
        for name, sub, scn, args, env in make_links(ctx, d, rng, n_links):
            tr = sub / "trace.ndjson"
            env = dict(env, WILD_VERIF_TRACE=str(tr))
            r = run_wild(args, env=env, timeout=60)
            if r.timed_out:
                # a hang of the traversal is exactly what the property forbids
                ctx.verdict.report("hang", f"link did not terminate: {args[-3:]}",
                                   lambda: save_replay(PROP, f"hang-{name}", sub, meta={"args": args, "env": env}))
                continue
            if r.rc != 0:
                # these inputs are valid: a failing / panicking link is data about the traversal
                # (lost work surfaces as a later panic), not a tool error
                ctx.verdict.report(f"valid-link-{r.klass()}", f"generated valid link failed: rc={r.rc} {r.err[-300:]}",
                                   lambda: save_replay(PROP, f"failed-{name}", sub, meta={"args": args, "env": env, "stderr": r.err[-2000:]}))
                continue
            if not tr.exists():
                raise ToolError("no trace written (hooks not compiled in?)")
            jobs.append((name, sub, gc_only(tr), args, env, "ok"))
        for kind in range(2 if ctx.quick else 8):
            sub, args, env = failing_link(d, rng, kind)
            tr = sub / "trace.ndjson"
            env = dict(env, WILD_VERIF_TRACE=str(tr))
            r = run_wild(args, env=env, timeout=60)
            if r.timed_out:
                ctx.verdict.report("hang", "failing link did not terminate",
                                   lambda: save_replay(PROP, f"hang-fail{kind}", sub, meta={"args": args, "env": env}))
                continue
            if r.rc == 0:
                raise ToolError("link with undefined symbols unexpectedly succeeded")
            if tr.exists() and '"ScopeEnd"' in tr.read_text():
                jobs.append((f"fail{kind}", sub, gc_only(tr), args, env, "fail"))

        def job(j):
            name, sub, tr, args, env, kind = j
            ok, info = validate(tr, f"c39.{name}")
            return j, ok, info

        with ThreadPoolExecutor(max_workers=8) as ex:
            results = list(ex.map(job, jobs))
        accepted_trace = None
        for (name, sub, tr, args, env, kind), ok, info in results:
            n_ev = sum(1 for _ in open(tr))
            events_total += n_ev
            if ok:
                traces.append(name)
                if accepted_trace is None and kind == "ok":
                    accepted_trace = tr
                if len(cov["samples"]) < 3:
                    cov["samples"].append({"link": name, "events": n_ev, "args": [a.split("/")[-1] for a in args[-3:]],
                                           "env": {k: v for k, v in env.items() if k != "WILD_VERIF_TRACE"},
                                           "first_events": [json.loads(x) for x in open(tr).read().splitlines()[:6]]})
            else:
                ctx.verdict.report(
                    f"trace-rejected:{info.get('violated') or 'unmatched'}",
                    f"trace of a real link is not a behaviour of GcProto: first unmatched event "
                    f"#{info.get('unmatched_index')} {info.get('unmatched_event')} violated={info.get('violated')}",
                    lambda: save_replay(PROP, f"trace-{name}", sub, meta={"args": args, "env": env, "info": info}))
        # binding demonstration: corrupt one field of an accepted trace -> must be rejected
        demo = []
        if accepted_trace is not None:
            lines = accepted_trace.read_text().splitlines()
            for label, mut in (("flip-took", lambda e: e.update(took=not e["took"]) if e["ev"] == "Send" else None),
                               ("drop-slotpark", "drop")):
                out = []
                done = False
                for ln in lines:
                    e = json.loads(ln)
                    if not done:
                        if mut == "drop" and e["ev"] == "SlotPark":
                            done = True
                            continue
                        if mut != "drop" and e["ev"] == "Send":
                            mut(e)
                            done = True
                    out.append(json.dumps(e))
                if not done:
                    continue
                p = d / f"corrupt-{label}.ndjson"
                p.write_text("\n".join(out) + "\n")
                ok, info = validate(p, f"c39.corrupt.{label}")
                demo.append({"mutation": label, "rejected": not ok})
                if ok:
                    raise ToolError(f"binding demonstration failed: corrupted trace ({label}) was accepted")
        cov["binding_demo"] = demo
    cov["traces_validated_against_impl"] = len(traces)
    cov["trace_events"] = events_total
    cov["samples"] = trim_samples(cov["samples"], 3, 1500)
    return {
        "level": "model_checking",
        "coverage": cov,
        "assumptions": [
            "sequential consistency (the Relaxed fetch_sub before delay_processing.pop is modelled as SC)",
            "schedules of the implementation are sampled (thread counts x seeded yields), the model is exhaustive",
            "work items abstracted to counts in the trace spec; GcTraversal (with items) is TLC-checked to refine it",
        ],
    }
