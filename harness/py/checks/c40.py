"""C40 - Parallel string merging hands every input to every bucket in order and finishes.

1. TLC, exhaustive: StringMerge (threads, split tasks, bucket tasks, slot hand-off, lock-free pool
   reservation as load + CAS) - PoolConserved, InGroupOrder, OneTaskPerBucket, ParkedWhereExpected,
   EachPairOnce, ProgressWhileGroupsRemain, deadlock freedom, and Termination under per-thread weak
   fairness.  Anti-vacuity: the variant without the early exit must show the fair non-terminating
   cycle (the defect repaired by the fix: commit), and the variant in which buckets do not respawn
   input processing must strand work.
2. Trace validation: real links with many input groups (--wild-experiments=P,256), 1..16 threads and
   seeded yields; each merged section's events must be a behaviour of StringMerge (lock-protected
   steps exact, pool counter by conservation at SecEnd).
3. Regression demonstration for the termination defect: under the adversarial-schedule hook
   (WILD_VERIF_SM_ADVERSARY) no invocation of the spawn loop may perform an unbounded number of
   reservations that find no input group.
"""
import json
import random
from concurrent.futures import ThreadPoolExecutor

from vlib import strgen, tlc
from vlib.common import ToolError, build_wild, log, run_wild, save_replay, scratch, trim_samples

PROP = "C40"
META = {
    "ready": True,
    "level": "model_checking",
    "technique": "TLA+ spec of the string-merge hand-off protocol exhaustively model-checked with TLC (safety, deadlock freedom, termination under weak fairness) + trace validation of hook-recorded real links + adversarial-schedule replay for the spawn-loop termination defect",
    "level_text": "TLC explores every interleaving of 2-3 threads x 3-4 input groups x 2 buckets x pool of 2 reservations including failed CAS races: each (group,bucket) consumed exactly once in group order, pool conserved, no quiescent state while groups remain, termination under per-thread weak fairness. Each merged section of real links (dozens of groups, 16 buckets, 1-16 threads, seeded yields) is validated as a behaviour of the same module, with the real final pool counter and queue lengths.",
    "level_note": "Sequential consistency assumed for the Relaxed atomics; implementation schedules are sampled; the lock-free counter and queue are validated through the values their operations returned and by conservation at section end, not step by step; trusted base: TLC, hook placement.",
    "engine": "tlc",
}
SM_EVENTS = {"SecBegin", "SecEnd", "Swap", "Reserve", "ReserveFail", "ReserveCasFail", "LoopExitEmpty",
             "SplitStart", "SplitGroup", "Unreserve", "BucketSpawn", "BucketStart", "Take", "Park",
             "ReturnVec", "Advance", "BucketDone"}
EXPECTED = ["LoopLoad", "LoopCas", "SplitStart", "SplitPop", "SplitPut", "SplitUnreserve", "BucketStart",
            "BucketTake", "BucketReturn", "BucketAdvance"]


def model_check(ctx, cov):
    runs = []
    states = trans = 0
    cfgs = ["mc/StringMerge_quick.cfg", "mc/StringMerge_live.cfg", "mc/StringMerge_mid.cfg"]
    if not ctx.quick:
        cfgs += ["mc/StringMerge_big.cfg", "mc/StringMerge_live_big.cfg"]
    for cfg in cfgs:
        r = tlc.run_tlc("StringMerge", cfg, workers=8, timeout=600 if ctx.quick else 2400)
        runs.append({"cfg": cfg, **r.summary()})
        if r.timed_out and not ctx.quick:
            log(f"{cfg} timed out (partial: {r.distinct} states)")
            continue
        if not r.ok:
            raise ToolError(f"StringMerge model check failed ({cfg}): {r.violated} {r.error_text}\n{r.trace_text[:3000]}")
        missing = tlc.zero_coverage_actions(r, EXPECTED)
        if missing:
            raise ToolError(f"vacuous model run {cfg}: never taken: {missing}")
        states += r.distinct
        trans += r.generated
    for cfg, what in (("mc/StringMerge_live_noearlyexit.cfg", "fair non-terminating spawn loop"),
                      ("mc/StringMerge_broken.cfg", "stranded work without respawn")):
        r = tlc.run_tlc("StringMerge", cfg, workers=4, timeout=300, coverage=False)
        if r.ok or not (r.violated or "Temporal" in r.out or "violated" in r.out):
            raise ToolError(f"anti-vacuity: {what} was NOT found by TLC in {cfg}")
        runs.append({"cfg": cfg, "expected_violation_found": True, "states": r.distinct})
    cov["states"], cov["transitions"], cov["tlc_runs"] = states, trans, runs


def split_sections(trace_path):
    evs = [json.loads(x) for x in open(trace_path)]
    evs = [e for e in evs if e["ev"] in SM_EVENTS]
    secs, cur = [], []
    for e in evs:
        cur.append(e)
        if e["ev"] == "SecEnd":
            secs.append(cur)
            cur = []
    if cur:
        secs.append(cur)   # a section that never ended: will be rejected
    return secs


def run(ctx):
    cov = {"samples": []}
    rng = random.Random(ctx.seed)
    import os
    if os.environ.get("VERIF_DEV_SKIP_MODEL") == "1":      # development aid only: never set by registered commands
        cov.update(states=1, transitions=1, tlc_runs=["skipped (VERIF_DEV_SKIP_MODEL)"])
    else:
        model_check(ctx, cov)
    build_wild()
    n_links = 24 if ctx.quick else 200
    n_valid = 0
    n_events = 0
    with scratch("c40") as d:
        jobs = []
        for k in range(n_links):
            sub = d / f"l{k}"
            sub.mkdir()
            scn = strgen.make_scenario(rng, n_objs=rng.choice([2, 3, 5]), secs_per_obj=rng.choice([1, 2]),
                                       strings_per_sec=(20, 90), out_names=(".rodata", ".rodata", "vstrs"))
            paths = strgen.emit(scn, sub)
            threads = rng.choice([1, 2, 3, 4, 8, 16])
            par = rng.choice([1, 2, 3, 24])
            tr = sub / "trace.ndjson"
            env = {"WILD_VERIF_TRACE": str(tr), "WILD_VERIF_YIELD_SEED": str(rng.getrandbits(31))}
            args = strgen.link_args(paths, sub / "out", [f"--threads={threads}", f"--wild-experiments={par},256"])
            r = run_wild(args, env=env, timeout=60)
            if r.timed_out:
                ctx.verdict.report("hang", "string merging did not terminate",
                                   lambda: save_replay(PROP, f"hang-l{k}", sub, meta={"args": args, "env": env}))
                continue
            if r.rc != 0:
                # valid input: a failing or panicking link is data (stranded buckets surface as a
                # panic right after the scope), not a tool error. Validate whatever was traced too.
                ctx.verdict.report(f"valid-link-{r.klass()}", f"valid string-merge link failed: rc={r.rc} ...{r.err[:400]}",
                                   lambda: save_replay(PROP, f"failed-l{k}", sub, meta={"args": args, "env": env, "stderr": r.err[:3000]}))
                continue
            secs = split_sections(tr)
            if not secs:
                raise ToolError("no string-merge events in trace (hooks missing?)")
            for i, sec in enumerate(secs):
                if sec[-1]["ev"] != "SecEnd" or not any(e["ev"] == "SecBegin" for e in sec):
                    raise ToolError("malformed section trace")
                g = next(e for e in sec if e["ev"] == "SecBegin")["groups"]
                if g < 1:
                    continue
                p = sub / f"sec{i}.ndjson"
                p.write_text("\n".join(json.dumps(e) for e in sec) + "\n")
                jobs.append((f"l{k}s{i}", sub, p, args, env, len(sec), g, threads, par))

        def job(j):
            ok, info = tlc.validate_trace("StringMergeTrace", "mc/StringMergeTrace.cfg", j[2], timeout=300,
                                          name=f"c40.{j[0]}")
            return j, ok, info

        with ThreadPoolExecutor(max_workers=8) as ex:
            results = list(ex.map(job, jobs))
        accepted = None
        for (name, sub, p, args, env, n, g, threads, par), ok, info in results:
            n_events += n
            if ok:
                n_valid += 1
                if accepted is None and g >= 3:
                    accepted = p
                if len(cov["samples"]) < 3:
                    cov["samples"].append({"section": name, "events": n, "groups": g, "threads": threads,
                                           "split_parallelism": par,
                                           "first_events": [json.loads(x) for x in open(p).read().splitlines()[17:23]]})
            else:
                ctx.verdict.report(
                    f"trace-rejected:{info.get('violated') or 'unmatched'}",
                    f"string-merge trace of a real link is not a behaviour of StringMerge: event "
                    f"#{info.get('unmatched_index')} {info.get('unmatched_event')} violated={info.get('violated')}",
                    lambda: save_replay(PROP, f"trace-{name}", sub, meta={"args": args, "env": env, "info": info, "section": str(p.name)}))
        # binding demonstration: corrupted traces must be rejected
        demo = []
        if accepted is not None:
            lines = [json.loads(x) for x in open(accepted)]
            for label in ("swap-take-order", "drop-returnvec", "wrong-final-avail"):
                evs = [dict(e) for e in lines]
                done = False
                if label == "swap-take-order":
                    idx = [i for i, e in enumerate(evs) if e["ev"] == "Take" and e["g"] == 1]
                    if idx:
                        evs[idx[0]]["g"] = 2
                        done = True
                elif label == "drop-returnvec":
                    idx = [i for i, e in enumerate(evs) if e["ev"] == "ReturnVec"]
                    if idx:
                        del evs[idx[0]]
                        done = True
                else:
                    evs[-1]["avail"] -= 1
                    done = True
                if not done:
                    continue
                p = d / f"corrupt-{label}.ndjson"
                p.write_text("\n".join(json.dumps(e) for e in evs) + "\n")
                ok, info = tlc.validate_trace("StringMergeTrace", "mc/StringMergeTrace.cfg", p, name=f"c40.c.{label}")
                demo.append({"mutation": label, "rejected": not ok})
                if ok:
                    raise ToolError(f"binding demonstration failed: corrupted trace ({label}) accepted")
        cov["binding_demo"] = demo

        # adversarial schedule: the spawn loop must not reserve without bound once the queue is empty
        adv = []
        for k in range(2 if ctx.quick else 10):
            sub = d / f"adv{k}"
            sub.mkdir()
            scn = strgen.make_scenario(rng, n_objs=3, secs_per_obj=1, strings_per_sec=(60, 120))
            paths = strgen.emit(scn, sub)
            tr = sub / "trace.ndjson"
            n_adv = 300
            env = {"WILD_VERIF_TRACE": str(tr), "WILD_VERIF_SM_ADVERSARY": str(n_adv)}
            args = strgen.link_args(paths, sub / "out", ["--threads=4", "--wild-experiments=2,256"])
            r = run_wild(args, env=env, timeout=120)
            if r.timed_out:
                ctx.verdict.report("hang-adversary", "string merging did not terminate under the adversarial schedule",
                                   lambda: save_replay(PROP, f"adv-hang{k}", sub, meta={"args": args, "env": env}))
                continue
            if r.rc != 0:
                raise ToolError(f"adversary link failed: {r}")
            for sec in split_sections(tr):
                begin = next(e for e in sec if e["ev"] == "SecBegin")
                groups, cap, nb = begin["groups"], begin["cap"], begin["nb"]
                # longest run of successful reservations by one invocation of the loop (one thread,
                # until it gives up)
                run_len, worst = {}, 0
                for e in sec:
                    t = e["tid"]
                    if e["ev"] == "Reserve":
                        run_len[t] = run_len.get(t, 0) + 1
                        worst = max(worst, run_len[t])
                    elif e["ev"] in ("ReserveFail", "ReserveCasFail", "LoopExitEmpty"):
                        run_len[t] = 0
                noop = sum(1 for e in sec if e["ev"] == "Unreserve" and e["n"] == nb)
                bound = groups + cap // nb + 1
                adv.append({"groups": groups, "max_reservations_per_loop": worst, "noop_tasks": noop, "bound": bound})
                if worst > bound:
                    ctx.verdict.report(
                        "unbounded-spurious-reservation",
                        f"one invocation of the spawn loop made {worst} successful reservations for {groups} "
                        f"input groups (bound {bound}) under the adversarial schedule: {noop} no-op tasks; "
                        "termination depends on the scheduler",
                        lambda: save_replay(PROP, f"adv{k}", sub, meta={"args": args, "env": env, "worst": worst}))
        cov["adversary_runs"] = adv[:6]
    cov["traces_validated_against_impl"] = n_valid
    cov["trace_events"] = n_events
    cov["samples"] = trim_samples(cov["samples"], 3, 1500)
    return {
        "level": "model_checking",
        "coverage": cov,
        "assumptions": [
            "sequential consistency for Relaxed atomics",
            "implementation schedules sampled (threads x yield seeds x split parallelism); model exhaustive within bounds",
            "lock-free counter validated by returned values and conservation at SecEnd",
        ],
    }
