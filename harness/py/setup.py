"""MANIFEST.setup_cmd: build everything the checks need, offline."""
import sys
from pathlib import Path
sys.path.insert(0, str(Path(__file__).resolve().parent))
from vlib import common

common.build_wild()
print("wild (hooks on):", common.TARGET / "debug" / "wild")
if (common.VERIF / "harness" / "wildconf" / "Cargo.toml").exists():
    print("wildconf:", common.build_wildconf())
print("setup ok")
