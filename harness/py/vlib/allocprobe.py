"""C23 probe, usable from every check: did a wild run fail because the space reserved for a
generated section at layout time did not match what writing consumed?

wild reports that in three ways (libwild/src/elf_writer.rs `insufficient_allocation`,
`excessive_allocation`, `verify_resolution_allocation`, libwild/src/file_writer.rs):
    "Insufficient <part> allocation"                 (writer ran out of reserved entries)
    "Allocated too much space in <part>. N of M bytes remain"   (validate_empty)
    "Didn't allocate enough space in .plt.got" / "... allocation ..." / "Unexpected allocations"
"""
import re

_PATTERNS = [
    re.compile(r"Insufficient .* allocation"),
    re.compile(r"Allocated too much space"),
    re.compile(r"Didn't allocate enough space"),
    re.compile(r"[Uu]nexpected allocation"),
    re.compile(r"allocation", re.I),
]
_PART_RE = re.compile(r"Insufficient (\S+(?: \(\w+\))?) allocation|Allocated too much space in (\S+(?: \(\w+\))?)\.|"
                      r"Didn't allocate enough space in (\S+)")


def is_alloc_failure(stderr):
    """True if the diagnostic text of a failed wild run is a size-accounting failure."""
    if not stderr:
        return False
    # WILD_VERIFY_ALLOCATIONS hint is part of the message; it contains 'ALLOCATIONS' but only
    # ever accompanies a real accounting failure, so the generic pattern stays sound.
    return any(p.search(stderr) for p in _PATTERNS)


def alloc_failure_key(stderr):
    """A stable key: which direction and which part, e.g. 'insufficient:.rela.dyn(relative)'."""
    m = _PART_RE.search(stderr or "")
    if not m:
        return "alloc:other"
    if m.group(1):
        return "insufficient:" + m.group(1).replace(" ", "")
    if m.group(2):
        return "excess:" + m.group(2).replace(" ", "")
    return "insufficient:" + m.group(3)


def probe(result):
    """result: common.ShResult of a wild run. Returns None or the failure key."""
    if result.rc == 0 or result.timed_out:
        return None
    if is_alloc_failure(result.err):
        return alloc_failure_key(result.err)
    return None
