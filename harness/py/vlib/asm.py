"""Generating real linker inputs: assembly -> objects, archives, shared libraries (by GNU ld, so
helpers do not depend on the code under test)."""
import os
import random
from pathlib import Path

from .common import ToolError, sh


def assemble(path_s, path_o=None, arch="x86_64", extra=None):
    path_s = Path(path_s)
    path_o = Path(path_o) if path_o else path_s.with_suffix(".o")
    if arch == "x86_64":
        cmd = ["as", "--64", "-o", path_o, path_s] + (extra or [])
    elif arch == "aarch64":
        cmd = ["clang", "--target=aarch64-linux-gnu", "-c", "-o", path_o, path_s] + (extra or [])
    else:
        raise ToolError(f"arch {arch}")
    sh(cmd, timeout=60, check=True)
    return path_o


def write_asm(d, name, text, arch="x86_64"):
    p = Path(d) / f"{name}.s"
    p.write_text(text)
    return assemble(p, arch=arch)


def cc(path_c, path_o=None, flags=None, compiler="gcc"):
    path_c = Path(path_c)
    path_o = Path(path_o) if path_o else path_c.with_suffix(".o")
    sh([compiler, "-c", "-o", path_o, path_c] + (flags or []), timeout=120, check=True)
    return path_o


def archive(path_a, members, thin=False):
    path_a = Path(path_a)
    if path_a.exists():
        path_a.unlink()
    sh(["ar", "rcT" if thin else "rc", path_a] + [str(m) for m in members], timeout=60, check=True)
    return path_a


def gnu_ld(args, cwd=None, timeout=60, check=False):
    return sh(["ld"] + [str(a) for a in args], cwd=cwd, timeout=timeout, check=check)


def lld(args, cwd=None, timeout=60, check=False):
    return sh(["ld.lld"] + [str(a) for a in args], cwd=cwd, timeout=timeout, check=check)


def marker(name):
    """A unique byte string that identifies an input section in the output."""
    return f"<MK:{name}:KM>"


EXIT_X86 = """
    mov $60, %eax
    xor %edi, %edi
    syscall
"""


# ---------------------------------------------------------------------------------------------
# Reference-graph scenarios (C05, C39): functions in their own sections spread over objects.


def gc_scenario(rng, n_objs, n_funcs, p_edge=0.25, n_sets=1, p_set_member=0.3, p_set_ref=0.2,
                data_refs=True):
    """A scenario: functions f0.. in objects o0..; f0 is the entry (in o0).
    edges[f] = list of callee names; sets: C-identifier-named sections kept via __start_/__stop_.
    """
    funcs = [f"f{i}" for i in range(n_funcs)]
    obj_of = {f: (0 if i == 0 else rng.randrange(n_objs)) for i, f in enumerate(funcs)}
    edges = {f: [g for g in funcs if g != f and rng.random() < p_edge] for f in funcs}
    # data sections referenced by address from functions and pointing at functions
    datas = {}
    if data_refs:
        for i in range(max(1, n_funcs // 3)):
            d = f"d{i}"
            datas[d] = {"obj": rng.randrange(n_objs), "points_to": [g for g in funcs if rng.random() < 0.15]}
    data_edges = {f: [d for d in datas if rng.random() < 0.15] for f in funcs}
    sets = {}
    for s in range(n_sets):
        sname = f"vset{s}"
        members = [o for o in range(n_objs) if rng.random() < p_set_member]
        refs = [f for f in funcs if rng.random() < p_set_ref] if members else []
        sets[sname] = {"members": members, "referenced_by": refs,
                       "member_points_to": {o: [g for g in funcs if rng.random() < 0.2] for o in members}}
    return {"funcs": funcs, "obj_of": obj_of, "edges": edges, "datas": datas, "data_edges": data_edges,
            "sets": sets, "n_objs": n_objs, "entry": "f0", "none_relocs": rng.random() < 0.5}


def set_ref_mode(f, sname):
    """Which boundary symbols of the set function f references (deterministic in the names)."""
    return ("both", "start", "stop")[sum(map(ord, f + sname)) % 3]


def gc_reach(scn):
    """Declarative closure: names of functions / data / set-member sections that must be kept."""
    keep = set()
    work = [scn["entry"]]
    while work:
        n = work.pop()
        if n in keep:
            continue
        keep.add(n)
        if n in scn["edges"]:
            work += scn["edges"][n]
            work += scn["data_edges"].get(n, [])
            for sname, s in scn["sets"].items():
                if n in s["referenced_by"]:
                    for o in s["members"]:
                        work.append(f"{sname}@{o}")
        elif n in scn["datas"]:
            work += scn["datas"][n]["points_to"]
        elif "@" in n:
            sname, o = n.split("@")
            work += scn["sets"][sname]["member_points_to"][int(o)]
    return keep


def gc_all_nodes(scn):
    nodes = set(scn["funcs"]) | set(scn["datas"])
    for sname, s in scn["sets"].items():
        nodes |= {f"{sname}@{o}" for o in s["members"]}
    return nodes


def gc_emit_x86(scn, d):
    """Write and assemble the scenario's objects. Returns list of object paths (o0 first)."""
    d = Path(d)
    texts = {o: [] for o in range(scn["n_objs"])}
    for f in scn["funcs"]:
        o = scn["obj_of"][f]
        t = [f'.section .text.{f},"ax",@progbits', f".globl {f}", f".type {f},@function", f"{f}:"]
        if f == scn["entry"]:
            t += [".globl _start", "_start:"]
        for gi, g in enumerate(scn["edges"][f]):
            # every third edge is a dependency-only relocation (the documented idiom for keeping a
            # section alive without referencing it from code): it must count for GC like any other
            if scn.get("none_relocs") and (sum(map(ord, f + g)) % 3 == 0):
                t.append(f"    .reloc ., R_X86_64_NONE, {g}")
            else:
                t.append(f"    call {g}")
        for dn in scn["data_edges"].get(f, []):
            t.append(f"    lea {dn}(%rip), %rax")
        for sname, s in scn["sets"].items():
            if f in s["referenced_by"]:
                # either boundary symbol alone keeps every section of that name (code that walks a set
                # backwards from __stop_X, or only needs its start): a third of the references each
                mode = set_ref_mode(f, sname)
                if mode in ("both", "start"):
                    t.append(f"    lea __start_{sname}(%rip), %rax")
                if mode in ("both", "stop"):
                    t.append(f"    lea __stop_{sname}(%rip), %rcx")
        if f == scn["entry"]:
            t.append(EXIT_X86)
        else:
            t.append("    ret")
        t.append(f'    .ascii "{marker(f)}"')
        texts[o] += t
    for dn, dd in scn["datas"].items():
        t = [f'.section .data.{dn},"aw",@progbits', f".globl {dn}", f"{dn}:"]
        for g in dd["points_to"]:
            t.append(f"    .quad {g}")
        t.append(f'    .ascii "{marker(dn)}"')
        texts[dd["obj"]] += t
    for sname, s in scn["sets"].items():
        for o in s["members"]:
            t = [f'.section {sname},"aw",@progbits']
            for g in s["member_points_to"][o]:
                t.append(f"    .quad {g}")
            t.append(f'    .ascii "{marker(sname + "@" + str(o))}"')
            texts[o] += t
    objs = []
    for o in range(scn["n_objs"]):
        body = "\n".join(texts[o]) + "\n"
        objs.append(write_asm(d, f"o{o}", body))
    return objs


def kept_nodes(output_path, scn):
    data = Path(output_path).read_bytes()
    return {n for n in gc_all_nodes(scn) if marker(n).encode() in data}
