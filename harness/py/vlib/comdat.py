"""COMDAT section groups (C02, family `comdat`): turn a Comdat.tla REPLAY record into real inputs, link
them with wild / GNU ld / ld.lld, EXECUTE the result and project everything onto the spec's vocabulary.

Record vocabulary (specs/Comdat.tla, `ReplayRec`):
  files : [ {kind: obj|member, c: <content>} ... ]                      (command-line order)
          content  ref   caller only (non-weak references to f and fd, weak reference to h)
                   refh  caller only, the reference to h is non-weak too
                   g1s/g1w  COMDAT group, signature `f`, variant 1: .text.f (f, 16 bytes) + .data.fd (fd, 8 bytes);
                            all symbols STB_GLOBAL (s) / STB_WEAK (w, the C++ inline function case); + caller
                   g2s/g2w  COMDAT group, signature `f`, variant 2: .text.f (f, 32 bytes) + .data.fd (fd, 16 bytes)
                            + .text.h (h, 24 bytes: a member the other variant does not have); + caller
                   ngs/ngw  f and fd defined OUTSIDE any group (strong / weak); + caller
  expect / model (the rule / wild as transcribed in the spec):
          {error: none|duplicate|undefined, loaded: [file indexes], kept: file whose group is kept or 0,
           discarded: [files whose group is discarded], bind: {"<file>:<name>": "d<file>" | "zero"},
           leakGc / leakNoGc: ["<file>:<name>" definitions of losing groups whose bytes reach the output with
           --gc-sections / --no-gc-sections]  (the rule: always empty)}
  causes: quirks of the wild model that matter for this configuration; loadDiv / timeOrder: classes not judged

Observation (independent of the linker under test): {error, loaded, bind} from EXECUTING the program,
symtab {name: d<file> | zero} from .symtab (st_value -> marker byte and pattern there, st_size = size of that
variant), leak = byte patterns found in the output file that belong to a carrier other than the first loaded
one in command-line order (or to a file that is not loaded).

Every regular file i has, outside any group, a function call_i that calls f, reads the first byte of fd,
calls h if its address is not 0, and write(2)s a 16-byte record; _start (start.o) calls call_1..call_n through
weak references (so it never extracts a member) and exits.  Executing the program therefore tells which files
are loaded and which definition each file's references reached, whatever the linker did with its sections.
Every definition returns / starts with a marker byte (file * 16 + variant) and is followed by a unique ASCII
pattern so that bytes of a discarded variant can be searched for in the output file.
"""
import json
import os
import random
import re
import shutil
import struct
from concurrent.futures import ThreadPoolExecutor
from pathlib import Path

from . import elf as velf
from .common import ToolError, log, run_wild, save_replay, scratch, sh, trim_samples
from . import symres

NAMES = ("f", "fd", "h")
VARIANT = {"g1s": 1, "g1w": 1, "g2s": 2, "g2w": 2, "ngs": 3, "ngw": 3}
SIZES = {1: {"f": 16, "fd": 8}, 2: {"f": 32, "fd": 16, "h": 24}, 3: {"f": 40, "fd": 24}}


def is_group(c):
    return c[0] == "g"


def defines(c):
    return tuple(SIZES[VARIANT[c]]) if c in VARIANT else ()


def mark(fi, c):
    return fi * 16 + VARIANT[c]


def pattern(fi, c, name):
    return f"#{name}{fi}{c}"


def _func(name, mk, size, pat):
    body = [f"{name}:", f"    mov ${mk:#x}, %eax", "    ret", f'    .ascii "{pat}"']
    used = 6 + len(pat)
    if used > size:
        raise ToolError(f"pattern too long for {name}")
    body.append(f"    .fill {size - used}, 1, 0xcc")
    body.append(f".size {name}, {size}")
    return body


def _data(name, mk, size, pat):
    p = pat[:size - 1]
    return [f"{name}:", f"    .byte {mk:#x}", f'    .ascii "{p}"', f"    .fill {size - 1 - len(p)}, 1, 0x5a",
            f".size {name}, {size}"]


def file_asm(cfg, fi):
    f = cfg["files"][fi - 1]
    c = f["c"]
    out = []
    defs = defines(c)
    bindkw = ".weak" if c.endswith("w") and c in VARIANT else ".globl"
    for n in NAMES:
        if n in defs:
            out.append(f"{bindkw} {n}")
        elif n == "h" and c != "refh":
            out.append(".weak h")
        else:
            out.append(f".globl {n}")
    out += [f'.section .text.call_{fi},"ax",@progbits', f".globl call_{fi}", f".type call_{fi},@function", f"call_{fi}:",
            "    push %rbx", f"    lea rec_{fi}(%rip), %rbx",
            "    call f", "    mov %al, 8(%rbx)",
            "    movabs $fd, %rax", "    mov (%rax), %al", "    mov %al, 9(%rbx)",
            "    movabs $h, %rax", "    test %rax, %rax", "    jz 1f", "    call *%rax", "    mov %al, 10(%rbx)",
            "1:  mov $1, %eax", "    mov $1, %edi", "    mov %rbx, %rsi", "    mov $16, %edx", "    syscall",
            "    pop %rbx", "    ret",
            f'.section .data.rec_{fi},"aw",@progbits', f"rec_{fi}:", f'    .ascii "CDREC{fi}::"', "    .zero 8"]
    if c in VARIANT:
        v = VARIANT[c]
        mk = mark(fi, c)
        g = ',"axG",@progbits,f,comdat' if is_group(c) else ',"ax",@progbits'
        gd = ',"awG",@progbits,f,comdat' if is_group(c) else ',"aw",@progbits'
        out += [f".section .text.f{g}", ".type f,@function"] + _func("f", mk, SIZES[v]["f"], pattern(fi, c, "f"))
        out += [f".section .data.fd{gd}", ".type fd,@object"] + _data("fd", mk, SIZES[v]["fd"], pattern(fi, c, "fd"))
        if "h" in SIZES[v]:
            out += [f".section .text.h{g}", ".type h,@function"] + _func("h", mk, SIZES[v]["h"], pattern(fi, c, "h"))
    return "\n".join(out) + "\n"


def start_asm(n):
    out = ['.section .text._start,"ax",@progbits', ".globl _start", ".type _start,@function", "_start:"]
    for i in range(1, n + 1):
        out += [f".weak call_{i}", f"    movabs $call_{i}, %rax", "    test %rax, %rax", f"    jz 9{i}f", "    call *%rax", f"9{i}:"]
    out += ["    mov $60, %eax", "    xor %edi, %edi", "    syscall"]
    return "\n".join(out) + "\n"


_obj_cache = {}


def _object(text, path):
    """Assemble text into path; the few distinct texts (3 positions x 8 contents) are assembled once per process."""
    b = _obj_cache.get(text)
    if b is None:
        symres._assemble(text, path)
        _obj_cache[text] = Path(path).read_bytes()
    else:
        Path(path).write_bytes(b)


def emit(cfg, d, thin=False):
    d = Path(d)
    files = cfg["files"]
    (d / "start.s").write_text(start_asm(len(files)))
    _object(start_asm(len(files)), d / "start.o")
    line = ["start.o"]
    for fi, f in enumerate(files, 1):
        t = file_asm(cfg, fi)
        (d / f"f{fi}.s").write_text(t)
        _object(t, d / f"f{fi}.o")
        if f["kind"] == "obj":
            line.append(f"f{fi}.o")
        elif f["kind"] == "member":
            key = ("ar", t, thin)
            b = _obj_cache.get(key)
            if b is None:
                symres._ar(d, f"lib{fi}.a", [f"f{fi}.o"], thin)
                _obj_cache[key] = (d / f"lib{fi}.a").read_bytes()
            else:
                (d / f"lib{fi}.a").write_bytes(b)
            line.append(f"lib{fi}.a")
        else:
            raise ToolError(f"file kind {f['kind']}")
    return line


_DISCARDED = re.compile(r"discarded section|in a discarded", re.I)


def error_class(r):
    ec = symres.error_class(r)
    if ec == "other" and _DISCARDED.search(r.err + r.out):
        return "undefined"
    if ec == "duplicate" or ec == "undefined":
        # a run can print both kinds of diagnostics: duplicate first (as symres does)
        return ec
    return ec


def link(linker, line, d, out, gc, threads=None, env=None):
    args = list(line) + ["-o", out, "--gc-sections" if gc else "--no-gc-sections"]
    if linker == "wild":
        if threads:
            args.append(f"--threads={threads}")
        return run_wild(args, cwd=d, env=env, timeout=symres.WILD_TIMEOUT, wild=symres.private_wild())
    if linker == "ld":
        return sh(["ld", "-z", "noexecstack"] + args, cwd=d, timeout=300)
    if linker == "lld":
        return sh(["ld.lld"] + args, cwd=d, timeout=300)
    raise ToolError(linker)


def run_program(path):
    """stdout BYTES of the linked program (the records are binary), exit status."""
    import subprocess
    try:
        p = subprocess.run([str(path)], stdout=subprocess.PIPE, stderr=subprocess.PIPE, timeout=30,
                           stdin=subprocess.DEVNULL)
    except subprocess.TimeoutExpired:
        return None, "timeout"
    except OSError as e:
        return None, f"exec failed: {e}"
    return p.stdout, p.returncode


def _who(cfg, mk, name):
    """marker byte -> 'd<file>' if it is the marker of that file's definition of `name`."""
    if mk == 0:
        return "zero"
    fi, v = mk >> 4, mk & 15
    if 1 <= fi <= len(cfg["files"]):
        c = cfg["files"][fi - 1]["c"]
        if VARIANT.get(c) == v and name in defines(c):
            return f"d{fi}"
    return f"bad-marker:{mk:#x}"


def observe(path, cfg):
    """EXECUTE the program (which definition did every caller reach), read the symbol table (value, size and
    the bytes there) and search the file for the byte pattern of every definition."""
    files = cfg["files"]
    out, rc = run_program(path)
    if out is None or rc != 0 or len(out) % 16:
        return {"error": f"bad-output:program {rc} wrote {None if out is None else len(out)} bytes"}
    loaded, bind = [], {}
    for k in range(0, len(out), 16):
        rec = out[k:k + 16]
        if rec[:5] != b"CDREC" or rec[6:8] != b"::":
            return {"error": f"bad-output:record {rec!r}"}
        fi = rec[5] - 0x30
        if fi in loaded or not 1 <= fi <= len(files):
            return {"error": f"bad-output:record of file {fi}"}
        loaded.append(fi)
        for j, n in enumerate(NAMES):
            bind[f"{fi}:{n}"] = _who(cfg, rec[8 + j], n)
    e = velf.Elf(path)
    data = e.data
    symtab = {}
    for n in NAMES:
        ss = [s for s in e.symtab if s["name"] == n and s["bind"] != 0]
        defd = [s for s in ss if s["shndx"] != 0]
        if len(defd) > 1:
            symtab[n] = f"defined-{len(defd)}-times"
        elif not defd:
            symtab[n] = "zero"
        else:
            s = defd[0]
            b = e.read_va(s["value"], 2)
            if b is None:
                symtab[n] = f"wild-pointer:{s['value']:#x}"
                continue
            mk = b[0] if n == "fd" else (b[1] if b[0] == 0xB8 else 0xFF)
            w = _who(cfg, mk, n)
            if w.startswith("d"):
                c = files[int(w[1:]) - 1]["c"]
                want = SIZES[VARIANT[c]][n]
                off = 1 if n == "fd" else 6
                pat = pattern(int(w[1:]), c, n).encode()[:want - off]
                got = e.read_va(s["value"] + off, len(pat))
                if s["size"] != want:
                    w += f"-but-st_size-{s['size']}-not-{want}"
                elif got != pat:
                    w += "-but-other-bytes"
            symtab[n] = w
    carriers = [i for i in sorted(loaded) if is_group(files[i - 1]["c"])]
    first = carriers[0] if carriers else 0
    leak = []
    for fi, f in enumerate(files, 1):
        for n in defines(f["c"]):
            if pattern(fi, f["c"], n).encode() in data:
                if fi not in loaded or (is_group(f["c"]) and fi != first):
                    leak.append(f"{fi}:{n}")
    return {"loaded": sorted(loaded), "bind": bind, "symtab": symtab, "leak": sorted(leak)}


ASPECTS = ("error", "loaded", "bind", "symtab", "leak")


def norm(o, gc):
    """{error, loaded, bind, symtab, leak} from a spec outcome (rule / model) or an observation."""
    if o["error"] != "none":
        return {"error": o["error"], "loaded": [], "bind": {}, "symtab": {}, "leak": []}
    b = o.get("bind") or {}
    if isinstance(b, list):
        b = {}
    if "symtab" in o:
        st = o["symtab"]
        leak = o["leak"]
    else:
        # the symbol table names ONE definition per name: the one the references denote
        st = {}
        for n in NAMES:
            t = sorted({v for k, v in b.items() if k.split(":")[1] == n and v != "zero"})
            st[n] = "zero" if not t else (t[0] if len(t) == 1 else "ambiguous:" + ",".join(t))
        leak = o["leakGc"] if gc else o["leakNoGc"]
    return {"error": "none", "loaded": sorted(o["loaded"]), "bind": dict(sorted(b.items())), "symtab": st,
            "leak": sorted(leak)}


def same(a, b):
    return all(a[k] == b[k] for k in ASPECTS)


def differing(a, b):
    return [k for k in ASPECTS if a[k] != b[k]]


_PATCH = {"on": False}


def _patch_marker(path, cfg):
    """Demonstration only: make the first group definition of f in the output return another marker."""
    data = bytearray(Path(path).read_bytes())
    for fi, f in enumerate(cfg["files"], 1):
        if is_group(f["c"]):
            i = data.find(pattern(fi, f["c"], "f").encode())
            if i >= 6 and data[i - 6] == 0xB8:
                data[i - 5] ^= 0x40
                Path(path).write_bytes(bytes(data))
                return True
    return False


def run_case(cfg, d, gc, threads, env, patch_wild=False):
    line = emit(cfg, d, thin=cfg.get("thin", False))
    res = {}
    for lk in ("wild", "ld", "lld"):
        out = f"out.{lk}"
        kw = dict(threads=threads, env=env) if lk == "wild" else {}
        r = link(lk, line, d, out, gc, **kw)
        if r.timed_out:
            with symres._retry_lock:
                r = link(lk, line, d, out, gc, **kw)
        ec = error_class(r)
        o = {"error": ec, "rc": r.rc, "msg": (r.err + r.out)[-500:] if ec != "none" else ""}
        if ec == "none":
            if lk == "wild" and (patch_wild or _PATCH["on"]):
                _patch_marker(Path(d) / out, cfg)
            try:
                o.update(observe(Path(d) / out, cfg))
            except velf.ElfError as ex:
                o["error"] = f"bad-output:{ex}"
        res[lk] = o
    return res, line + ["--gc-sections" if gc else "--no-gc-sections"]


KEY_USED = "comdat-discarded-group-definition-used"
KEY_DUP = "comdat-discarded-group-definition-duplicate-error"
KEY_KEPT = "comdat-discarded-group-sections-kept"
KEY_WEAKZERO = "weak-ref-zero-when-name-owner-not-loaded"       # recorded earlier under C02 (SymRes quirk weakZero)


def symptom_key(rec, R, W, M):
    """Stable key of a mismatch between wild and the rule."""
    diff = differing(W, R)
    if not same(W, M):
        return "comdat-unexpected:" + "+".join(differing(W, M))
    causes = set(rec.get("causes") or [])
    if W["error"] == "duplicate" and R["error"] != "duplicate":
        return KEY_DUP
    if diff == ["leak"]:
        return KEY_KEPT
    if "noGroups" in causes:
        return KEY_USED
    if causes == {"weakZero"}:
        return KEY_WEAKZERO
    return "comdat-as-modelled-unclassified:" + "+".join(diff)


def replay_one(rec, d, idx, seed, gc=None, threads=None, demo=None):
    cfg = {"files": rec["files"]}
    rng = random.Random(seed * 1000003 + idx)
    cfg["thin"] = rng.random() < 0.25
    if gc is None:
        gc = rng.random() < 0.5
    if threads is None:
        threads = rng.choice([1, 2, 8])
    env = {"WILD_VERIF_YIELD_SEED": str(rng.getrandbits(31))} if rng.random() < 0.5 else {}
    # detection demonstration without rebuilding wild: VERIF_COMDAT_DEMO=patch-output:<n> changes, in wild's output of
    # every n-th replayed case, the marker the kept group's f returns before the program is executed and observed
    envdemo = os.environ.get("VERIF_COMDAT_DEMO", "")
    patch = demo == "patch" or (envdemo.startswith("patch-output:") and idx > 0 and idx % int(envdemo.split(":")[1]) == 0)
    res, line = run_case(cfg, d, gc, threads, env, patch_wild=patch)
    R, M = norm(rec["expect"], gc), norm(rec["model"], gc)
    bad = {}
    for k in ("wild", "ld", "lld"):
        if res[k]["error"] in ("crash", "hang", "other") or res[k]["error"].startswith("bad-output"):
            bad[k] = res[k]["error"]
    info = {"idx": idx, "line": line, "threads": threads, "env": env, "cfg": cfg, "gc": gc, "expect": R, "model": M,
            "flags": {k: rec.get(k) for k in ("causes", "loadDiv", "timeOrder")},
            "raw": {k: {kk: vv for kk, vv in v.items() if kk in ("rc", "msg", "error")} for k, v in res.items()}}
    if "wild" in bad:
        info["status"] = "wild-abnormal"
        return info
    if bad:
        info["status"] = "tool-failure"
        return info
    W, G, L = (norm(res[k], gc) for k in ("wild", "ld", "lld"))
    info.update(wild=W, ld=G, lld=L)
    support = same(G, R) or same(L, R)
    info["support"] = support
    unspecified = rec.get("loadDiv") or rec.get("timeOrder")
    if same(W, R):
        info["status"] = "ok" if support else ("unspecified" if unspecified else
                                               ("spec-vs-oracles" if same(G, L) else "ok-oracles-differ"))
        return info
    if differing(W, R) == ["leak"]:
        # Binding, error class and symbol table are as the rule says; only the BYTES of a discarded variant are still in
        # the file (wild drops losing member sections only through --gc-sections).  C02 is about which definition a
        # reference binds to, not about output size: observed and counted, never reported.
        info["status"] = "ok-discarded-bytes-kept"
        return info
    if not support:
        info["status"] = "unspecified" if unspecified else ("spec-vs-oracles" if same(G, L) else "undecided")
        return info
    if unspecified and same(W, M):
        # which files get loaded differs between wild and the sequential linkers (C03: shadowed-lazy-definition):
        # the consequence for the group contest is not reported a second time
        info["status"] = "attributed-elsewhere"
        return info
    info["status"] = "mismatch"
    info["key"] = symptom_key(rec, R, W, M)
    return info


# ---------------------------------------------------------------------------------------------
# The family: TLC enumeration + replay with the three-way vote.

def spec_of(rec):
    return " ".join(f"{f['kind'][0]}:{f['c']}" for f in rec["files"])


# Always replayed (both --gc-sections settings, threads 1, 2 and 8), whatever the seed.  What each group exposes:
CORE = {
    # the winner is the first carrier in FILE order, whatever the order in which threads get to the files
    "order": ["o:g1s o:g2w o:ref", "o:g2s o:g1s o:ref", "o:g2w o:g1w o:g2w", "o:ref o:g1w o:g2w", "o:g2s o:g2s o:g1s",
              "o:g1s o:g1s", "o:g2w m:g1s o:ref"],
    # symbols of a discarded group are not definitions (h exists only in the losing variant; weak first / strong later)
    "discarded-symbols": ["o:g1s o:g2w", "o:g1s o:g2s", "o:g1w o:g2s", "o:g1w o:g1s", "o:g1s o:refh o:g2s",
                          "o:g1w o:g2s o:ngs", "o:g1w o:g1s o:ngs"],
    # the whole losing group goes, not only its first section (fd / h of the loser, sizes of the winner)
    "whole-group": ["o:g1s o:g2w o:g2w", "o:g2w o:g1s", "o:g2s o:g2w"],
    # archive members that are not extracted do not take part; extracted ones do, at their command-line position
    "members": ["m:g2s o:g1s", "m:g1w o:g2s", "m:g2s m:g1s o:g2w", "o:ref m:g1s o:g2w", "o:ref m:g2w m:g1s",
                "o:g1s o:ref m:g2s", "o:refh m:g2s o:g1s"],
    # a definition outside any group meets a group definition
    "non-group": ["o:g1s o:ngs", "o:ngs o:g2s", "o:g1w o:ngs", "o:ngw o:g1s", "o:g1w o:ngw", "o:g1s o:g2s o:ngs",
                  "o:g2w o:ngs o:g1s"],
}


def tlc_family(cfg="mc/Comdat_quick.cfg", workers=4, timeout=900):
    from . import tlc
    r = tlc.run_tlc("MCComdat", cfg, workers=workers, timeout=timeout, coverage=False)
    if r.timed_out:
        raise ToolError(f"TLC timed out on {cfg}")
    if not r.ok:
        raise ToolError(f"Comdat model check failed ({cfg}): {r.violated} {r.error_text}\n{r.out[-3000:]}")
    if not r.records:
        raise ToolError(f"no REPLAY records from {cfg}")
    return r, r.records


def broken_must_fail(cfg, theorem="ThOrder fails"):
    from . import tlc
    r = tlc.run_tlc("MCComdat", cfg, workers=2, timeout=600, coverage=False)
    if r.ok or theorem not in r.out:
        raise ToolError(f"the deliberately wrong reading of the rule in {cfg} was NOT refuted: the theorems are vacuous")
    return {"cfg": cfg, "refuted_by": theorem.split()[0]}


def coverage_run(cfg="mc/Comdat_cover.cfg"):
    from . import tlc
    r = tlc.run_tlc("MCComdat", cfg, workers=2, timeout=600, coverage=True)
    if not r.ok:
        raise ToolError(f"coverage run failed: {r.violated} {r.error_text}")
    missing = tlc.zero_coverage_actions(r, ["Evaluate"])
    if missing:
        raise ToolError(f"vacuous model: actions never taken: {missing}")
    return {"cfg": cfg, **r.summary(), "action_coverage": {"Evaluate": r.coverage["Evaluate"][1]}}


def replay_items(ctx, prop, items, jobs=8, label=""):
    """items: [(idx, rec, gc, threads)].  Reports violations through ctx.verdict; returns stats."""
    stats = {"replayed": 0, "replays_ok": 0, "ok_oracles_differ": 0, "mismatch": {}, "undecided": 0, "unspecified": 0,
             "attributed_elsewhere": 0, "oracle_support": {"ld": 0, "lld": 0, "both": 0}, "samples": []}
    spec_bugs = []
    with scratch(f"{prop.lower()}-comdat{label}") as top:
        def job(item):
            idx, rec, gc, threads = item
            d = top / f"c{idx}"
            d.mkdir()
            try:
                info = replay_one(rec, d, idx, ctx.seed, gc=gc, threads=threads)
            except ToolError as e:
                info = {"status": "tool-failure", "idx": idx, "error": str(e)}
            info["dir"] = d
            return info

        with ThreadPoolExecutor(max_workers=jobs) as ex:
            for info in ex.map(job, items):
                stats["replayed"] += 1
                st = info["status"]
                d = info.pop("dir")
                if "ld" in info and "expect" in info:
                    g, l = same(info["ld"], info["expect"]), same(info["lld"], info["expect"])
                    if g and l:
                        stats["oracle_support"]["both"] += 1
                    elif g:
                        stats["oracle_support"]["ld"] += 1
                    elif l:
                        stats["oracle_support"]["lld"] += 1
                if st in ("ok", "ok-oracles-differ", "ok-discarded-bytes-kept"):
                    stats["replays_ok"] += 1
                    if st == "ok-discarded-bytes-kept":
                        stats["ok_discarded_bytes_kept"] = stats.get("ok_discarded_bytes_kept", 0) + 1
                    if st == "ok-oracles-differ":
                        stats["ok_oracles_differ"] += 1
                    if len(stats["samples"]) < 3 and len(info["cfg"]["files"]) > 1:
                        stats["samples"].append({"line": info["line"], "expect": info["expect"], "wild": info["wild"]})
                elif st in ("undecided", "unspecified", "attributed-elsewhere"):
                    stats[st.replace("-", "_")] += 1
                elif st == "spec-vs-oracles":
                    spec_bugs.append(info)
                elif st == "tool-failure":
                    raise ToolError(f"reference linker / generator failed on case {info.get('idx')}: {info}")
                elif st == "wild-abnormal":
                    r = info["raw"]["wild"]
                    key = f"comdat-abnormal:{r['error'].split(':')[0]}"
                    stats.setdefault("wild_abnormal", {})
                    stats["wild_abnormal"][r["error"]] = stats["wild_abnormal"].get(r["error"], 0) + 1
                    if info["expect"]["error"] == "none" or r["error"] == "hang":
                        ctx.verdict.report(key, f"wild ended abnormally ({r['error']}, rc={r['rc']}) on {' '.join(info['line'])}: {r['msg'][-200:]}",
                                           lambda: save_replay(prop, f"{key.replace(':', '-')}-{info['idx']}", d, meta=info))
                else:
                    key = info["key"]
                    stats["mismatch"][key] = stats["mismatch"].get(key, 0) + 1
                    diff = differing(info["wild"], info["expect"])
                    text = (f"{' '.join(info['line'])} [{spec_of(info['cfg'])}] threads={info['threads']}: the rule gives "
                            f"{json.dumps({k: info['expect'][k] for k in diff})} "
                            f"(ld {'agrees' if same(info['ld'], info['expect']) else 'differs'}, "
                            f"lld {'agrees' if same(info['lld'], info['expect']) else 'differs'}) "
                            f"but wild gives {json.dumps({k: info['wild'][k] for k in diff})}")
                    ctx.verdict.report(key, text,
                                       lambda: save_replay(prop, f"{key.replace(':', '-').replace('+', '_')}-{info['idx']}", d, meta=info))
                shutil.rmtree(d, ignore_errors=True)
    if spec_bugs:
        ex = spec_bugs[0]
        raise ToolError(f"{len(spec_bugs)} configuration(s) where GNU ld and lld agree with each other but not with the "
                        f"rule (spec bug), first: {json.dumps({k: ex.get(k) for k in ('line', 'expect', 'ld', 'lld', 'wild')})}")
    return stats


def binding_demo(ctx, prop, by_spec):
    """Anti-vacuity of the binding: a configuration wild gets right must be reported once the expectation (the
    kept group / the error class) or the observation (the marker the kept f returns, in wild's output) is corrupted."""
    import copy
    rec = by_spec["o:g2s o:g1s o:ref"]
    out = []
    with scratch(f"{prop.lower()}-comdat-demo") as top:
        def go(r, name, demo=None):
            d = top / name
            d.mkdir()
            return replay_one(r, d, 0, ctx.seed, gc=True, threads=2, demo=demo)
        base = go(rec, "base")
        if base["status"] != "ok":
            raise ToolError(f"comdat binding demonstration: base case not ok: {base['status']}")
        r1 = copy.deepcopy(rec)     # the second carrier wins
        r1["expect"]["bind"] = {k: ("d2" if v == "d1" and not k.endswith(":h") else "zero" if k.endswith(":h") else v)
                                for k, v in r1["expect"]["bind"].items()}
        r2 = copy.deepcopy(rec)
        r2["expect"] = dict(r2["expect"], error="duplicate", bind={})
        for label, info in (("flip-predicted-winner", go(r1, "m1")), ("flip-predicted-error", go(r2, "m2")),
                            ("patch-marker-in-output", go(rec, "m3", demo="patch"))):
            caught = info["status"] in ("mismatch", "undecided", "spec-vs-oracles") and not same(info["wild"], info["expect"])
            out.append({"mutation": label, "status": info["status"], "key": info.get("key"), "caught": caught})
            if not caught:
                raise ToolError(f"comdat binding demonstration failed: {label} was not noticed ({info['status']})")
    return out


def run_family(ctx, prop):
    """Returns the coverage fragment of the COMDAT family."""
    from .common import build_wild
    build_wild()
    symres.private_wild()
    with ThreadPoolExecutor(max_workers=4) as ex:
        fq = ex.submit(tlc_family, "mc/Comdat_quick.cfg", 4, 1200)
        fb1 = ex.submit(broken_must_fail, "mc/Comdat_broken_unloaded.cfg")
        fb2 = ex.submit(broken_must_fail, "mc/Comdat_broken_last.cfg")
        fc = ex.submit(coverage_run)
        r, recs = fq.result()
        runs = [fb1.result(), fb2.result(), fc.result()]
    by_spec = {spec_of(rec): rec for rec in recs}
    items, idx = [], 0
    core_n = 0
    for grp, specs in CORE.items():
        for s in specs:
            if s not in by_spec:
                raise ToolError(f"core configuration {s} was not enumerated by TLC")
            for gc, threads in ((False, 1), (True, 2), (False, 8)) + (() if ctx.quick else ((True, 8),)):
                items.append((idx, by_spec[s], gc, threads))
                idx += 1
                core_n += 1
    k = 48 if ctx.quick else 2       # thorough: half of the configurations per seed (all were replayed when the family was built)
    rng = random.Random(ctx.seed)
    for i, rec in enumerate(recs):
        if (i + ctx.seed) % k:
            continue
        if ctx.quick:
            items.append((idx, rec, None, None))
            idx += 1
        else:
            # every configuration once; --gc-sections alternates with the seed so that two seeds cover both settings
            # (the core above has both for every configuration it contains)
            items.append((idx, rec, (i // 2 + ctx.seed) % 2 == 0, rng.choice([1, 2, 8])))
            idx += 1
    log(f"mc/Comdat_quick.cfg: {r.distinct} states ({r.wall:.0f}s), {len(recs)} configurations, replaying "
        f"{len(items)} ({core_n} core)")
    st = replay_items(ctx, prop, items, jobs=8)
    states, trans = r.distinct, r.generated
    fam = {"cfg": "mc/Comdat_quick.cfg", **r.summary(), "configurations": len(recs), "core_replays": core_n,
           **{kk: vv for kk, vv in st.items() if kk != "samples"}}
    tlc_runs = [fam] + runs
    if not ctx.quick:
        r4, recs4 = tlc_family("mc/Comdat_four.cfg", 4, 2400)
        it4 = [(100000 + i, rec, None, None) for i, rec in enumerate(recs4) if (i + ctx.seed) % 32 == 0]
        log(f"mc/Comdat_four.cfg: {r4.distinct} states ({r4.wall:.0f}s), {len(recs4)} configurations, replaying {len(it4)}")
        st4 = replay_items(ctx, prop, it4, jobs=8, label="-four")
        states += r4.distinct
        trans += r4.generated
        st["replayed"] += st4["replayed"]
        tlc_runs.append({"cfg": "mc/Comdat_four.cfg", **r4.summary(), "configurations": len(recs4),
                         **{kk: vv for kk, vv in st4.items() if kk != "samples"}})
    return {"states": states, "transitions": trans, "replayed": st["replayed"], "tlc_runs": tlc_runs,
            "samples": st["samples"], "binding_demo": binding_demo(ctx, prop, by_spec)}
