"""Shared plumbing for the /verif checks: paths, subprocesses, builds, evidence, findings."""
import contextlib
import fcntl
import hashlib
import json
import os
import random
import shutil
import signal
import subprocess
import sys
import time
from pathlib import Path

VERIF = Path(__file__).resolve().parents[3]
REPO = Path(os.environ.get("VERIF_REPO", "/repo"))
CACHE = VERIF / ".cache"
SPECS = VERIF / "specs"
EVIDENCE = VERIF / "evidence" if str(REPO) == "/repo" else CACHE / "evidence-scratch"   # evidence/ only ever describes runs against /repo
TARGET = Path(os.environ.get("VERIF_TARGET", str(CACHE / "target")))   # override only for trying seeded changes in a scratch worktree
TMP = CACHE / "tmp"
REPLAYS = CACHE / "replays"
GUARD = "wild_verif"

EXIT_OK, EXIT_VIOLATION, EXIT_TOOL = 0, 1, 2


class ToolError(Exception):
    """Something in the machinery (not in wild) failed: exit 2, never a VIOLATION."""


def log(*a):
    print(*a, file=sys.stderr, flush=True)


def sh(cmd, timeout=60, env=None, cwd=None, stdin=None, check=False):
    """Run a command under a hard timeout (SIGKILL to the whole process group).
    Returns (rc, stdout, stderr); rc = -9 and timed_out attribute via ShResult."""
    full_env = dict(os.environ)
    if env:
        full_env.update({k: str(v) for k, v in env.items()})
    t0 = time.time()
    while True:
        try:
            p = subprocess.Popen(
                [str(c) for c in cmd], stdout=subprocess.PIPE, stderr=subprocess.PIPE,
                stdin=subprocess.PIPE if stdin is not None else subprocess.DEVNULL,
                env=full_env, cwd=cwd, start_new_session=True)
            break
        except OSError as e:
            # ETXTBSY on a file this harness has just written: a child forked by another harness thread still holds
            # the inherited write descriptor until it execs (harness-side race; seconds on a loaded machine)
            if e.errno != 26 or time.time() - t0 > 90:
                raise
            time.sleep(0.05)
    timed_out = False
    try:
        out, err = p.communicate(input=stdin, timeout=timeout)
    except subprocess.TimeoutExpired:
        timed_out = True
        with contextlib.suppress(ProcessLookupError):
            os.killpg(p.pid, signal.SIGKILL)
        out, err = p.communicate()
    r = ShResult(p.returncode, out.decode("utf-8", "replace"), err.decode("utf-8", "replace"),
                 timed_out, time.time() - t0)
    if check and (r.rc != 0 or timed_out):
        raise ToolError(f"command failed rc={r.rc} timeout={timed_out}: {' '.join(map(str, cmd))}\n{r.err[-2000:]}")
    return r


class ShResult:
    def __init__(self, rc, out, err, timed_out, wall):
        self.rc, self.out, self.err, self.timed_out, self.wall = rc, out, err, timed_out, wall

    @property
    def signaled(self):
        return self.rc is not None and self.rc < 0

    def klass(self):
        """Outcome class of a wild run (C22 vocabulary)."""
        if self.timed_out:
            return "hang"
        if self.rc < 0:
            return f"signal{-self.rc}"
        if self.rc == 101 or "panicked at" in self.err:
            return "panic"
        if self.rc == 0:
            return "success"
        return "diagnostic"

    def __repr__(self):
        return f"<rc={self.rc} timeout={self.timed_out} err={self.err[-300:]!r}>"


@contextlib.contextmanager
def locked(name):
    CACHE.mkdir(parents=True, exist_ok=True)
    f = open(CACHE / f"{name}.lock", "w")
    try:
        fcntl.flock(f, fcntl.LOCK_EX)
        yield
    finally:
        fcntl.flock(f, fcntl.LOCK_UN)
        f.close()


def cargo_env():
    e = {
        "CARGO_TARGET_DIR": str(TARGET),
        "CARGO_NET_OFFLINE": "true",
        "RUSTFLAGS": f"--cfg {GUARD}",
        "CARGO_TERM_COLOR": "never",
    }
    return e


_built = {}


def build_wild():
    """(Re)build /repo's current working tree with the hook cfg on. Returns the wild binary."""
    if "wild" in _built:
        return _built["wild"]
    with locked("cargo"):
        r = sh(["cargo", "build", "--offline", "-q", "-p", "wild-linker", "--bin", "wild"],
               timeout=1800, env=cargo_env(), cwd=REPO)
    if r.rc != 0 or r.timed_out:
        raise ToolError("hook-enabled build of /repo failed:\n" + r.err[-4000:])
    b = TARGET / "debug" / "wild"
    if not b.exists():
        raise ToolError("wild binary missing after build")
    _built["wild"] = b
    return b


def build_linker_diff():
    if "ldiff" in _built:
        return _built["ldiff"]
    with locked("cargo"):
        r = sh(["cargo", "build", "--offline", "-q", "-p", "linker-diff", "--bin", "linker-diff"],
               timeout=1800, env=cargo_env(), cwd=REPO)
    if r.rc != 0 or r.timed_out:
        raise ToolError("build of linker-diff failed:\n" + r.err[-4000:])
    _built["ldiff"] = TARGET / "debug" / "linker-diff"
    return _built["ldiff"]


def build_wildconf():
    """Build the in-process conformance harness (harness/wildconf), which path-depends on /repo."""
    if "wildconf" in _built:
        return _built["wildconf"]
    crate = VERIF / "harness" / "wildconf"
    tdir = CACHE / "target-conf"
    if str(REPO) != "/repo":
        # a seeded change is being tried in a scratch worktree: the harness must link against THAT tree
        # (the crate's path dependencies name /repo), and must not share build output with the real one
        src = crate
        crate = TARGET.parent / "wildconf-src"
        shutil.rmtree(crate, ignore_errors=True)
        shutil.copytree(src, crate)
        toml = (crate / "Cargo.toml").read_text().replace('path = "/repo/', f'path = "{REPO}/')
        (crate / "Cargo.toml").write_text(toml)
        tdir = TARGET.parent / "target-conf"
    lock_src = REPO / "Cargo.lock"
    if lock_src.exists() and not (crate / "Cargo.lock").exists():
        shutil.copy(lock_src, crate / "Cargo.lock")
    env = cargo_env()
    env["CARGO_TARGET_DIR"] = str(tdir)
    with locked("cargo-conf"):
        r = sh(["cargo", "build", "--offline", "-q", "--release"], timeout=2400, env=env, cwd=crate)
    if r.rc != 0 or r.timed_out:
        raise ToolError("build of harness/wildconf failed:\n" + r.err[-6000:])
    _built["wildconf"] = tdir / "release" / "wildconf"
    return _built["wildconf"]


@contextlib.contextmanager
def scratch(prefix="s"):
    TMP.mkdir(parents=True, exist_ok=True)
    d = TMP / f"{prefix}.{os.getpid()}.{random.getrandbits(32):08x}"
    d.mkdir()
    try:
        yield d
    finally:
        shutil.rmtree(d, ignore_errors=True)


def save_replay(prop, name, src_dir=None, files=None, meta=None):
    """Persist a self-contained replay directory; returns its path."""
    d = REPLAYS / prop / f"{name}"
    if d.exists():
        shutil.rmtree(d, ignore_errors=True)
    d.parent.mkdir(parents=True, exist_ok=True)
    if src_dir is not None:
        shutil.copytree(src_dir, d, symlinks=True)
    else:
        d.mkdir(parents=True)
    for k, v in (files or {}).items():
        p = d / k
        p.parent.mkdir(parents=True, exist_ok=True)
        if isinstance(v, bytes):
            p.write_bytes(v)
        else:
            p.write_text(v)
    if meta is not None:
        (d / "replay.json").write_text(json.dumps(meta, indent=1, default=str))
    return d


def run_wild(args, cwd=None, env=None, timeout=30, wild=None):
    """Run the hook-enabled wild binary. Always under a hard timeout."""
    w = wild or build_wild()
    e = {"RUST_BACKTRACE": "0"}     # symbolising a backtrace of the debug binary is very slow under load
    e.update(env or {})
    return sh([w] + [str(a) for a in args], timeout=timeout, env=e, cwd=cwd)


def sha256(path):
    h = hashlib.sha256()
    with open(path, "rb") as f:
        for b in iter(lambda: f.read(1 << 20), b""):
            h.update(b)
    return h.hexdigest()


# ---------------------------------------------------------------------------------------------
# Known findings


class Findings:
    """KNOWN_FINDINGS.txt: `finding: property=<id> key=<key> <text>` / `fixed: property=<id> <commit> <text>`.
    Read-only at run time."""

    def __init__(self, path=VERIF / "KNOWN_FINDINGS.txt"):
        self.entries = {}
        self.fixed = []
        if path.exists():
            for line in path.read_text().splitlines():
                line = line.strip()
                if not line or line.startswith("#"):
                    continue
                if line.startswith("finding:"):
                    parts = line[len("finding:"):].split(None, 2)
                    kv = dict(p.split("=", 1) for p in parts[:2])
                    self.entries[(kv["property"], kv["key"])] = parts[2] if len(parts) > 2 else ""
                elif line.startswith("fixed:"):
                    self.fixed.append(line)

    def known(self, prop, key):
        return (prop, key) in self.entries

    def text(self, prop, key):
        return self.entries.get((prop, key), "")


class Verdict:
    """Collects violations / known findings for one check run."""

    def __init__(self, prop):
        self.prop = prop
        self.findings = Findings()
        self.violations = []     # (key, replay_path, text)
        self.known_hit = {}      # key -> count

    def report(self, key, text, replay_maker=None):
        """A concrete, replayable observation that contradicts the property.
        `key` identifies the specific input/call-site/history class."""
        if self.findings.known(self.prop, key):
            if key not in self.known_hit:
                print(f"KNOWN-FINDING: property={self.prop} key={key} {self.findings.text(self.prop, key) or text}",
                      flush=True)
            self.known_hit[key] = self.known_hit.get(key, 0) + 1
            return False
        path = replay_maker() if replay_maker else None
        self.violations.append((key, str(path) if path else "", text))
        print(f"VIOLATION property={self.prop} replay={path} key={key} {text}", flush=True)
        return True

    @property
    def failed(self):
        return bool(self.violations)


# ---------------------------------------------------------------------------------------------
# Evidence


def write_evidence(prop, tier, seed, level, coverage, assumptions, wall_s, violations, extra=None):
    EVIDENCE.mkdir(exist_ok=True)
    ev = {
        "property_id": prop,
        "tier": tier,
        "seed": int(seed),
        "level": level,
        "coverage": coverage,
        "assumptions": assumptions,
        "wall_s": round(wall_s, 2),
        "violations": int(violations),
    }
    if extra:
        ev.update(extra)
    p = EVIDENCE / f"{prop}.json"
    tmp = p.with_suffix(".json.tmp")
    tmp.write_text(json.dumps(ev, indent=1, default=str) + "\n")
    tmp.replace(p)
    return p


def trim_samples(samples, n=5, maxlen=600):
    out = []
    for s in samples[:n]:
        t = json.dumps(s, default=str)
        if len(t) > maxlen:
            s = t[:maxlen] + "..."
        out.append(s)
    return out
