"""Driving harness/wildconf (in-process replay into real crate functions): ndjson in, ndjson out."""
import json

from .common import ToolError, build_wildconf, sh


def run_conf(subcommand, records, timeout=600):
    """Send `records` (list of dicts; an "id" is added if missing) to `wildconf <subcommand>`.
    Returns the list of result dicts in the same order. A panic of the code under test is a result
    ({"panic": msg}); a harness failure (bad record, crash of wildconf itself) is a ToolError."""
    exe = build_wildconf()
    recs = []
    for i, r in enumerate(records):
        if "id" not in r:
            r = dict(r, id=i)
        recs.append(r)
    data = "".join(json.dumps(r) + "\n" for r in recs).encode()
    r = sh([exe, subcommand], timeout=timeout, stdin=data)
    if r.timed_out:
        raise ToolError(f"wildconf {subcommand} timed out after {timeout}s")
    if r.rc != 0:
        raise ToolError(f"wildconf {subcommand} failed rc={r.rc}: {r.err[-2000:]}")
    out = [json.loads(line) for line in r.out.splitlines() if line.strip()]
    if len(out) != len(recs):
        raise ToolError(f"wildconf {subcommand}: {len(recs)} records in, {len(out)} results out\n{r.err[-1000:]}")
    for a, b in zip(recs, out):
        if a["id"] != b.get("id"):
            raise ToolError(f"wildconf {subcommand}: result order mismatch ({a['id']} vs {b.get('id')})")
    return out
