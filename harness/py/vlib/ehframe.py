"""Independent parser of .eh_frame / .eh_frame_hdr (C10 observer).

    parse_eh_frame(elf)      -> dict(cies=[...], fdes=[...], terminator=bool, errors=[...])
    parse_eh_frame_hdr(elf)  -> dict(version, eh_frame_ptr, fde_count, rows=[(pc, fde_addr)], errors=[...]) | None

Addresses are virtual addresses of the output.  Only what the unwinder itself decodes is decoded:
record length (32-bit; 64-bit extended form refused), CIE id, version, augmentation string
("z" with any of R, P, L, S, B, G), code/data alignment, return register, the FDE pointer encoding,
pc-begin / pc-range with that encoding.
"""
import struct

from .elf import Elf

DW_EH_PE_omit = 0xff


class EhError(Exception):
    pass


def _uleb(b, o):
    r = s = 0
    while True:
        c = b[o]
        o += 1
        r |= (c & 0x7f) << s
        s += 7
        if not c & 0x80:
            return r, o


def _sleb(b, o):
    r = s = 0
    while True:
        c = b[o]
        o += 1
        r |= (c & 0x7f) << s
        s += 7
        if not c & 0x80:
            if c & 0x40:
                r -= 1 << s
            return r, o


def read_encoded(b, o, enc, pc, datarel_base=None, is_range=False):
    """Decode one DW_EH_PE-encoded value at offset o of bytes b whose own address is pc.
    Returns (value, new offset)."""
    if enc == DW_EH_PE_omit:
        return None, o
    fmt = enc & 0x0f
    app = enc & 0x70
    if fmt == 0x00:
        v, n = struct.unpack_from("<Q", b, o)[0], 8
    elif fmt == 0x01:
        v, o2 = _uleb(b, o)
        n = o2 - o
    elif fmt == 0x02:
        v, n = struct.unpack_from("<H", b, o)[0], 2
    elif fmt == 0x03:
        v, n = struct.unpack_from("<I", b, o)[0], 4
    elif fmt == 0x04:
        v, n = struct.unpack_from("<Q", b, o)[0], 8
    elif fmt == 0x09:
        v, o2 = _sleb(b, o)
        n = o2 - o
    elif fmt == 0x0a:
        v, n = struct.unpack_from("<h", b, o)[0], 2
    elif fmt == 0x0b:
        v, n = struct.unpack_from("<i", b, o)[0], 4
    elif fmt == 0x0c:
        v, n = struct.unpack_from("<q", b, o)[0], 8
    else:
        raise EhError(f"unsupported pointer format {enc:#x}")
    if not is_range:
        if app == 0x00:
            pass
        elif app == 0x10:
            v = (pc + v) & 0xffffffffffffffff
        elif app == 0x30:
            if datarel_base is None:
                raise EhError("datarel without base")
            v = (datarel_base + v) & 0xffffffffffffffff
        else:
            raise EhError(f"unsupported pointer application {enc:#x}")
    return v, o + n


def parse_eh_frame_bytes(data, base):
    cies, fdes, errors = {}, [], []
    o = 0
    terminator = False
    mid_terminators = 0
    trailing = 0
    while o + 4 <= len(data):
        length = struct.unpack_from("<I", data, o)[0]
        if length == 0:
            # a zero terminator; linkers that concatenate inputs verbatim (wild) can leave one in the
            # middle of the section (from a crtend.o-like object that was not linked last): records
            # after it are still reachable through .eh_frame_hdr, so keep parsing
            terminator = o + 4 >= len(data)
            if not terminator:
                mid_terminators += 1
            o += 4
            continue
        if length == 0xffffffff:
            errors.append(f"64-bit length at {o:#x}")
            break
        end = o + 4 + length
        if end > len(data):
            errors.append(f"record at {o:#x} runs past the section ({length:#x})")
            break
        cid = struct.unpack_from("<I", data, o + 4)[0]
        rec_addr = base + o
        try:
            if cid == 0:
                p = o + 8
                version = data[p]
                p += 1
                z = data.index(b"\0", p)
                aug = data[p:z].decode("latin-1")
                p = z + 1
                if version not in (1, 3):
                    raise EhError(f"CIE version {version}")
                code_align, p = _uleb(data, p)
                data_align, p = _sleb(data, p)
                if version == 1:
                    ra = data[p]
                    p += 1
                else:
                    ra, p = _uleb(data, p)
                fde_enc, lsda_enc, pers = 0x00, DW_EH_PE_omit, None
                if aug.startswith("z"):
                    alen, p = _uleb(data, p)
                    aend = p + alen
                    for ch in aug[1:]:
                        if ch == "R":
                            fde_enc = data[p]
                            p += 1
                        elif ch == "P":
                            penc = data[p]
                            p += 1
                            pers, p = read_encoded(data, p, penc & 0x7f, base + p)
                        elif ch == "L":
                            lsda_enc = data[p]
                            p += 1
                        elif ch in "SBG":
                            pass
                        else:
                            raise EhError(f"augmentation {aug!r}")
                    p = aend
                elif aug:
                    raise EhError(f"augmentation {aug!r}")
                cies[rec_addr] = dict(addr=rec_addr, off=o, length=length, aug=aug, fde_enc=fde_enc,
                                      lsda_enc=lsda_enc, personality=pers, code_align=code_align,
                                      data_align=data_align, ra=ra, bytes=bytes(data[o:end]))
            else:
                cie_addr = base + o + 4 - cid
                cie = cies.get(cie_addr)
                f = dict(addr=rec_addr, off=o, length=length, cie=cie_addr, cie_ok=cie is not None,
                         pc_begin=None, pc_range=None)
                if cie is not None:
                    p = o + 8
                    f["pc_begin"], p = read_encoded(data, p, cie["fde_enc"], base + p)
                    f["pc_range"], p = read_encoded(data, p, cie["fde_enc"], base + p, is_range=True)
                fdes.append(f)
        except (EhError, IndexError, ValueError, struct.error) as ex:
            errors.append(f"record at {o:#x}: {ex}")
        o = end
    else:
        trailing = len(data) - o
    if not terminator and o < len(data) and not errors:
        trailing = len(data) - o
    return dict(cies=list(cies.values()), fdes=fdes, terminator=terminator, mid_terminators=mid_terminators,
                trailing=trailing, errors=errors)


def parse_eh_frame(e: Elf):
    s = e.section(".eh_frame")
    if s is None:
        return None
    r = parse_eh_frame_bytes(e.section_data(s), s["addr"])
    r["addr"], r["size"] = s["addr"], s["size"]
    return r


def parse_eh_frame_hdr(e: Elf):
    s = e.section(".eh_frame_hdr")
    if s is None:
        return None
    d = e.section_data(s)
    base = s["addr"]
    out = dict(addr=base, size=s["size"], errors=[], rows=[], version=None, eh_frame_ptr=None, fde_count=None)
    try:
        out["version"] = d[0]
        ptr_enc, cnt_enc, tab_enc = d[1], d[2], d[3]
        out["encodings"] = (ptr_enc, cnt_enc, tab_enc)
        o = 4
        out["eh_frame_ptr"], o = read_encoded(d, o, ptr_enc, base + o, datarel_base=base)
        out["fde_count"], o = read_encoded(d, o, cnt_enc, base + o, datarel_base=base)
        out["table_off"] = o
        if tab_enc != DW_EH_PE_omit and out["fde_count"] is not None:
            # the table fills the rest of the section; the count field is reported separately
            while o + 8 <= len(d) and (tab_enc & 0x0f) in (0x03, 0x0b):
                pc, o2 = read_encoded(d, o, tab_enc, base + o, datarel_base=base)
                fa, o2 = read_encoded(d, o2, tab_enc, base + o2, datarel_base=base)
                out["rows"].append((pc, fa))
                o = o2
            out["table_trailing"] = len(d) - o
    except (EhError, IndexError, struct.error) as ex:
        out["errors"].append(str(ex))
    return out
