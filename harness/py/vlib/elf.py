"""A small independent ELF64 little-endian reader (the harness's observer). No dependency on wild.

obs = Elf(path)         -> .ehdr, .sections, .segments, .symtab, .dynsym, .dynamic, .relas, .relr ...
obs.to_json()           -> JSON-able observation used by the TLA+ observed-state modules.
"""
import struct
from pathlib import Path

PT = {0: "NULL", 1: "LOAD", 2: "DYNAMIC", 3: "INTERP", 4: "NOTE", 5: "SHLIB", 6: "PHDR", 7: "TLS",
      0x6474e550: "GNU_EH_FRAME", 0x6474e551: "GNU_STACK", 0x6474e552: "GNU_RELRO",
      0x6474e553: "GNU_PROPERTY", 0x6474e554: "GNU_SFRAME", 0x70000001: "ARCH1"}
SHT = {0: "NULL", 1: "PROGBITS", 2: "SYMTAB", 3: "STRTAB", 4: "RELA", 5: "HASH", 6: "DYNAMIC", 7: "NOTE",
       8: "NOBITS", 9: "REL", 11: "DYNSYM", 14: "INIT_ARRAY", 15: "FINI_ARRAY", 16: "PREINIT_ARRAY",
       17: "GROUP", 18: "SYMTAB_SHNDX", 19: "RELR", 0x6ffffff6: "GNU_HASH", 0x6ffffffd: "GNU_VERDEF",
       0x6ffffffe: "GNU_VERNEED", 0x6fffffff: "GNU_VERSYM", 0x70000001: "X86_64_UNWIND"}
SHF_WRITE, SHF_ALLOC, SHF_EXECINSTR, SHF_MERGE, SHF_STRINGS, SHF_TLS = 1, 2, 4, 0x10, 0x20, 0x400
PF_X, PF_W, PF_R = 1, 2, 4
DT = {0: "NULL", 1: "NEEDED", 2: "PLTRELSZ", 3: "PLTGOT", 4: "HASH", 5: "STRTAB", 6: "SYMTAB", 7: "RELA",
      8: "RELASZ", 9: "RELAENT", 10: "STRSZ", 11: "SYMENT", 12: "INIT", 13: "FINI", 14: "SONAME",
      15: "RPATH", 16: "SYMBOLIC", 20: "PLTREL", 21: "DEBUG", 22: "TEXTREL", 23: "JMPREL", 24: "BIND_NOW",
      25: "INIT_ARRAY", 26: "FINI_ARRAY", 27: "INIT_ARRAYSZ", 28: "FINI_ARRAYSZ", 29: "RUNPATH",
      30: "FLAGS", 32: "PREINIT_ARRAY", 33: "PREINIT_ARRAYSZ", 35: "RELRSZ", 36: "RELR", 37: "RELRENT",
      0x6ffffef5: "GNU_HASH", 0x6ffffff0: "VERSYM", 0x6ffffff9: "RELACOUNT", 0x6ffffffb: "FLAGS_1",
      0x6ffffffc: "VERDEF", 0x6ffffffd: "VERDEFNUM", 0x6ffffffe: "VERNEED", 0x6fffffff: "VERNEEDNUM"}
STB = {0: "LOCAL", 1: "GLOBAL", 2: "WEAK", 10: "GNU_UNIQUE"}
STT = {0: "NOTYPE", 1: "OBJECT", 2: "FUNC", 3: "SECTION", 4: "FILE", 5: "COMMON", 6: "TLS", 10: "GNU_IFUNC"}
STV = {0: "DEFAULT", 1: "INTERNAL", 2: "HIDDEN", 3: "PROTECTED"}
SHN_UNDEF, SHN_ABS, SHN_COMMON, SHN_XINDEX = 0, 0xfff1, 0xfff2, 0xffff
ET = {0: "NONE", 1: "REL", 2: "EXEC", 3: "DYN", 4: "CORE"}
EM = {62: "x86_64", 183: "aarch64", 243: "riscv", 258: "loongarch"}


class ElfError(Exception):
    pass


def cstr(buf, off):
    if off >= len(buf):
        return ""
    end = buf.find(b"\0", off)
    if end < 0:
        end = len(buf)
    return buf[off:end].decode("latin-1")


class Elf:
    def __init__(self, path=None, data=None):
        self.path = str(path) if path else None
        self.data = data if data is not None else Path(path).read_bytes()
        d = self.data
        if d[:4] != b"\x7fELF" or d[4] != 2 or d[5] != 1:
            raise ElfError("not ELF64 LE")
        (self.e_type, self.e_machine, _v, self.e_entry, self.e_phoff, self.e_shoff, self.e_flags,
         self.e_ehsize, self.e_phentsize, self.e_phnum, self.e_shentsize, self.e_shnum,
         self.e_shstrndx) = struct.unpack_from("<HHIQQQIHHHHHH", d, 16)
        self.sections = []
        for i in range(self.e_shnum):
            o = self.e_shoff + i * self.e_shentsize
            (name, typ, flags, addr, off, size, link, info, align, entsize) = struct.unpack_from("<IIQQQQIIQQ", d, o)
            self.sections.append(dict(index=i, name_off=name, type=typ, flags=flags, addr=addr, offset=off,
                                      size=size, link=link, info=info, addralign=align, entsize=entsize))
        if self.sections and self.e_shstrndx < len(self.sections):
            st = self.sections[self.e_shstrndx]
            strtab = d[st["offset"]:st["offset"] + st["size"]]
            for s in self.sections:
                s["name"] = cstr(strtab, s["name_off"])
        else:
            for s in self.sections:
                s["name"] = ""
        self.segments = []
        for i in range(self.e_phnum):
            o = self.e_phoff + i * self.e_phentsize
            (typ, flags, off, vaddr, paddr, filesz, memsz, align) = struct.unpack_from("<IIQQQQQQ", d, o)
            self.segments.append(dict(index=i, type=typ, flags=flags, offset=off, vaddr=vaddr, paddr=paddr,
                                      filesz=filesz, memsz=memsz, align=align))

    # -- helpers -----------------------------------------------------------------------------
    def section(self, name):
        for s in self.sections:
            if s["name"] == name:
                return s
        return None

    def sections_named(self, name):
        return [s for s in self.sections if s["name"] == name]

    def section_data(self, s):
        if s is None or s["type"] == 8:
            return b""
        return self.data[s["offset"]:s["offset"] + s["size"]]

    def section_of_type(self, typ):
        for s in self.sections:
            if s["type"] == typ:
                return s
        return None

    def vaddr_to_off(self, va):
        for p in self.segments:
            if p["type"] == 1 and p["vaddr"] <= va < p["vaddr"] + p["filesz"]:
                return va - p["vaddr"] + p["offset"]
        return None

    def read_va(self, va, n):
        """Bytes at virtual address (file-backed part; zero for bss)."""
        for p in self.segments:
            if p["type"] == 1 and p["vaddr"] <= va < p["vaddr"] + p["memsz"]:
                out = bytearray()
                for k in range(n):
                    a = va + k
                    if a < p["vaddr"] + p["filesz"]:
                        out.append(self.data[a - p["vaddr"] + p["offset"]])
                    else:
                        out.append(0)
                return bytes(out)
        return None

    def u64_at(self, va):
        b = self.read_va(va, 8)
        return struct.unpack("<Q", b)[0] if b is not None else None

    def u32_at(self, va):
        b = self.read_va(va, 4)
        return struct.unpack("<I", b)[0] if b is not None else None

    def find_bytes(self, needle):
        """File offsets of all occurrences of needle."""
        out, i = [], self.data.find(needle)
        while i >= 0:
            out.append(i)
            i = self.data.find(needle, i + 1)
        return out

    def off_to_vaddr(self, off):
        for s in self.sections:
            if s["flags"] & SHF_ALLOC and s["type"] != 8 and s["offset"] <= off < s["offset"] + s["size"]:
                return s["addr"] + off - s["offset"]
        for p in self.segments:
            if p["type"] == 1 and p["offset"] <= off < p["offset"] + p["filesz"]:
                return p["vaddr"] + off - p["offset"]
        return None

    def section_containing_off(self, off):
        for s in self.sections:
            if s["type"] not in (0, 8) and s["offset"] <= off < s["offset"] + s["size"]:
                return s
        return None

    def section_containing_va(self, va):
        for s in self.sections:
            if s["flags"] & SHF_ALLOC and s["addr"] <= va < s["addr"] + max(s["size"], 1):
                return s
        return None

    # -- symbols -----------------------------------------------------------------------------
    def _symbols(self, sec):
        if sec is None:
            return []
        strsec = self.sections[sec["link"]] if sec["link"] < len(self.sections) else None
        strtab = self.section_data(strsec)
        data = self.section_data(sec)
        out = []
        for i in range(len(data) // 24):
            (name, info, other, shndx, value, size) = struct.unpack_from("<IBBHQQ", data, i * 24)
            out.append(dict(index=i, name=cstr(strtab, name), bind=info >> 4, type=info & 15,
                            vis=other & 3, other=other, shndx=shndx, value=value, size=size))
        return out

    @property
    def symtab(self):
        return self._symbols(self.section_of_type(2))

    @property
    def dynsym(self):
        return self._symbols(self.section_of_type(11))

    def symbol(self, name, dynamic=False):
        for s in (self.dynsym if dynamic else self.symtab):
            if s["name"] == name:
                return s
        return None

    # -- dynamic -----------------------------------------------------------------------------
    @property
    def dynamic(self):
        sec = self.section_of_type(6)
        out = []
        if sec is None:
            return out
        data = self.section_data(sec)
        for i in range(len(data) // 16):
            tag, val = struct.unpack_from("<qQ", data, i * 16)
            out.append((tag, val))
            if tag == 0:
                break
        return out

    def dyn_strings(self, tag):
        dynstr = None
        for s in self.sections:
            if s["name"] == ".dynstr":
                dynstr = self.section_data(s)
        if dynstr is None:
            return []
        return [cstr(dynstr, v) for t, v in self.dynamic if t == tag]

    @property
    def needed(self):
        return self.dyn_strings(1)

    @property
    def soname(self):
        r = self.dyn_strings(14)
        return r[0] if r else None

    # -- relocations -------------------------------------------------------------------------
    def relas(self, sec):
        data = self.section_data(sec)
        out = []
        for i in range(len(data) // 24):
            off, info, addend = struct.unpack_from("<QQq", data, i * 24)
            out.append(dict(offset=off, type=info & 0xffffffff, sym=info >> 32, addend=addend))
        return out

    def all_dyn_relas(self):
        out = []
        for s in self.sections:
            if s["type"] == 4 and (s["flags"] & SHF_ALLOC):
                for r in self.relas(s):
                    r["section"] = s["name"]
                    out.append(r)
        return out

    def relr_raw(self):
        sec = self.section_of_type(19)
        if sec is None:
            return []
        data = self.section_data(sec)
        return [struct.unpack_from("<Q", data, i * 8)[0] for i in range(len(data) // 8)]

    def relr_decode(self):
        """Addresses covered by .relr.dyn, per the RELR format."""
        out = []
        where = None
        for e in self.relr_raw():
            if e & 1 == 0:
                out.append(e)
                where = e + 8
            else:
                if where is None:
                    raise ElfError("RELR bitmap before any address entry")
                bits = e >> 1
                for i in range(63):
                    if bits & (1 << i):
                        out.append(where + 8 * i)
                where += 63 * 8
        return out

    # -- notes -------------------------------------------------------------------------------
    def notes(self):
        out = []
        for s in self.sections:
            if s["type"] != 7:
                continue
            data = self.section_data(s)
            o = 0
            align = 8 if s["addralign"] == 8 else 4
            while o + 12 <= len(data):
                namesz, descsz, typ = struct.unpack_from("<III", data, o)
                o += 12
                name = data[o:o + namesz]
                o += (namesz + 3) & ~3
                desc = data[o:o + descsz]
                o += (descsz + align - 1) & ~(align - 1)
                out.append(dict(section=s["name"], name=name.rstrip(b"\0").decode("latin-1"), type=typ, desc=desc))
        return out

    def gnu_properties(self):
        """[(pr_type, bytes)] of the NT_GNU_PROPERTY_TYPE_0 note(s)."""
        props = []
        for n in self.notes():
            if n["name"] == "GNU" and n["type"] == 5:
                d, o = n["desc"], 0
                while o + 8 <= len(d):
                    t, sz = struct.unpack_from("<II", d, o)
                    o += 8
                    props.append((t, d[o:o + sz]))
                    o += (sz + 7) & ~7
        return props

    def gnu_stack(self):
        for p in self.segments:
            if p["type"] == 0x6474e551:
                return p
        return None

    # -- version tables ----------------------------------------------------------------------
    def versym(self):
        sec = self.section_of_type(0x6fffffff)
        if sec is None:
            return []
        d = self.section_data(sec)
        return [struct.unpack_from("<H", d, i * 2)[0] for i in range(len(d) // 2)]

    def verdefs(self):
        sec = self.section_of_type(0x6ffffffd)
        if sec is None:
            return []
        d = self.section_data(sec)
        strtab = self.section_data(self.sections[sec["link"]])
        out, o = [], 0
        for _ in range(sec["info"] or 10000):
            if o + 20 > len(d):
                break
            ver, flags, ndx, cnt, h, aux, nxt = struct.unpack_from("<HHHHIII", d, o)
            names, a = [], o + aux
            for _ in range(cnt):
                nm, anext = struct.unpack_from("<II", d, a)
                names.append(cstr(strtab, nm))
                if anext == 0:
                    break
                a += anext
            out.append(dict(version=ver, flags=flags, ndx=ndx, cnt=cnt, hash=h, names=names))
            if nxt == 0:
                break
            o += nxt
        return out

    def verneeds(self):
        sec = self.section_of_type(0x6ffffffe)
        if sec is None:
            return []
        d = self.section_data(sec)
        strtab = self.section_data(self.sections[sec["link"]])
        out, o = [], 0
        while o + 16 <= len(d):
            ver, cnt, file, aux, nxt = struct.unpack_from("<HHIII", d, o)
            auxs, a = [], o + aux
            for _ in range(cnt):
                h, fl, other, nm, anext = struct.unpack_from("<IHHII", d, a)
                auxs.append(dict(hash=h, flags=fl, other=other, name=cstr(strtab, nm)))
                if anext == 0:
                    break
                a += anext
            out.append(dict(file=cstr(strtab, file), aux=auxs))
            if nxt == 0:
                break
            o += nxt
        return out

    # -- hash tables -------------------------------------------------------------------------
    def gnu_hash(self):
        sec = self.section_of_type(0x6ffffff6)
        if sec is None:
            return None
        d = self.section_data(sec)
        nbuckets, symoffset, bloom_size, bloom_shift = struct.unpack_from("<IIII", d, 0)
        o = 16
        bloom = [struct.unpack_from("<Q", d, o + 8 * i)[0] for i in range(bloom_size)]
        o += 8 * bloom_size
        buckets = [struct.unpack_from("<I", d, o + 4 * i)[0] for i in range(nbuckets)]
        o += 4 * nbuckets
        chain = [struct.unpack_from("<I", d, o + 4 * i)[0] for i in range((len(d) - o) // 4)]
        return dict(nbuckets=nbuckets, symoffset=symoffset, bloom_size=bloom_size, bloom_shift=bloom_shift,
                    bloom=bloom, buckets=buckets, chain=chain)

    def sysv_hash(self):
        sec = self.section_of_type(5)
        if sec is None:
            return None
        d = self.section_data(sec)
        nbucket, nchain = struct.unpack_from("<II", d, 0)
        buckets = [struct.unpack_from("<I", d, 8 + 4 * i)[0] for i in range(nbucket)]
        chain = [struct.unpack_from("<I", d, 8 + 4 * nbucket + 4 * i)[0] for i in range(nchain)]
        return dict(nbucket=nbucket, nchain=nchain, buckets=buckets, chain=chain)

    # -- observation -------------------------------------------------------------------------
    def to_json(self):
        def sec(s):
            return dict(index=s["index"], name=s["name"], type=SHT.get(s["type"], hex(s["type"])),
                        typenum=s["type"], flags=s["flags"], addr=s["addr"], offset=s["offset"], size=s["size"],
                        link=s["link"], info=s["info"], addralign=s["addralign"], entsize=s["entsize"],
                        alloc=bool(s["flags"] & SHF_ALLOC), write=bool(s["flags"] & SHF_WRITE),
                        exec=bool(s["flags"] & SHF_EXECINSTR), tls=bool(s["flags"] & SHF_TLS),
                        nobits=s["type"] == 8)

        def seg(p):
            return dict(index=p["index"], type=PT.get(p["type"], hex(p["type"])), flags=p["flags"],
                        offset=p["offset"], vaddr=p["vaddr"], paddr=p["paddr"], filesz=p["filesz"],
                        memsz=p["memsz"], align=p["align"], r=bool(p["flags"] & PF_R), w=bool(p["flags"] & PF_W),
                        x=bool(p["flags"] & PF_X))

        return dict(type=ET.get(self.e_type, str(self.e_type)), machine=EM.get(self.e_machine, str(self.e_machine)),
                    entry=self.e_entry, phoff=self.e_phoff, shoff=self.e_shoff, ehsize=self.e_ehsize,
                    phentsize=self.e_phentsize, phnum=self.e_phnum, shentsize=self.e_shentsize, shnum=self.e_shnum,
                    shstrndx=self.e_shstrndx, filesize=len(self.data),
                    sections=[sec(s) for s in self.sections], segments=[seg(p) for p in self.segments])


def gnu_hash_name(name):
    h = 5381
    for c in name.encode("latin-1"):
        h = (h * 33 + c) & 0xffffffff
    return h


def sysv_hash_name(name):
    h = 0
    for c in name.encode("latin-1"):
        h = ((h << 4) + c) & 0xffffffff
        g = h & 0xf0000000
        if g:
            h ^= g >> 24
        h &= ~g & 0xffffffff
    return h
