"""C08 helper: observation of the dynamic symbol hash tables of an ELF output, name crafting
(bucket / full-hash collisions), an independent integer-arithmetic reference of the loader's
lookups (only used to cross-check the <<hi,lo>> encoding handed to TLC), generators of linker
inputs with many exported names, and the dlopen/dlsym host program.

The observation goes to specs/HashTablesObs.tla; its format is described there and in
specs/HashTables.tla.  The tables are located the way the loader does it: through PT_DYNAMIC
(DT_GNU_HASH, DT_HASH, DT_SYMTAB, DT_STRTAB, DT_VERSYM); section headers are only used to bound
the arrays (the loader has no bound; a walk that leaves the section is a fault).
"""
import json
import struct
from pathlib import Path

from . import elf as velf
from .common import ToolError, sh

INT_MAX = 0x7fffffff
DT_HASH, DT_STRTAB, DT_SYMTAB, DT_STRSZ, DT_GNU_HASH, DT_VERSYM = 4, 5, 6, 10, 0x6ffffef5, 0x6ffffff0


def clamp(v):
    """TLC integers are 32-bit signed.  Table words >= 2^31-1 can only come from a corrupted table;
    they are far outside any table we can observe, so the saturated value faults exactly as the
    real one would (index out of the section)."""
    return v if v < INT_MAX else INT_MAX


def halves(h):
    return [(h >> 16) & 0xffff, h & 0xffff]


def limbs(w):
    return [(w >> (16 * i)) & 0xffff for i in range(4)]


def _dyn_map(e):
    """tag -> value from PT_DYNAMIC (first occurrence)."""
    out = {}
    seg = next((p for p in e.segments if p["type"] == 2), None)
    if seg is None:
        return out
    d = e.data[seg["offset"]:seg["offset"] + seg["filesz"]]
    for i in range(len(d) // 16):
        tag, val = struct.unpack_from("<qQ", d, i * 16)
        if tag == 0:
            break
        out.setdefault(tag, val)
    return out


def _bounded(e, va):
    """(file offset, bytes available up to the end of the section that contains va)."""
    for s in e.sections:
        if (s["flags"] & velf.SHF_ALLOC) and s["type"] != 8 and s["addr"] <= va < s["addr"] + s["size"]:
            off = s["offset"] + (va - s["addr"])
            return off, s["offset"] + s["size"] - off
    off = e.vaddr_to_off(va)
    if off is None:
        return None, 0
    return off, len(e.data) - off


def read_gnu(e, va):
    g = dict(present=True, malformed=False, nbuckets=0, symoffset=0, maskwords=0, shift=0, bloom=[], buckets=[],
             chain=[])
    off, avail = _bounded(e, va)
    if off is None or avail < 16:
        g["malformed"] = True
        return g, None
    nb, symoff, mw, shift = struct.unpack_from("<IIII", e.data, off)
    g.update(nbuckets=clamp(nb), symoffset=clamp(symoff), maskwords=clamp(mw), shift=clamp(shift))
    need = 16 + 8 * mw + 4 * nb
    if need > avail:
        g["malformed"] = True
        return g, dict(nbuckets=nb, symoffset=symoff, maskwords=mw, shift=shift, bloom=[], buckets=[], chain=[])
    o = off + 16
    bloom = list(struct.unpack_from(f"<{mw}Q", e.data, o))
    o += 8 * mw
    buckets = list(struct.unpack_from(f"<{nb}I", e.data, o))
    o += 4 * nb
    nchain = (off + avail - o) // 4
    chain = list(struct.unpack_from(f"<{nchain}I", e.data, o))
    g["bloom"] = [limbs(w) for w in bloom]
    g["buckets"] = [clamp(b) for b in buckets]
    g["chain"] = [halves(c) for c in chain]
    raw = dict(nbuckets=nb, symoffset=symoff, maskwords=mw, shift=shift, bloom=bloom, buckets=buckets, chain=chain)
    return g, raw


def read_sysv(e, va):
    s = dict(present=True, malformed=False, nbucket=0, nchain=0, buckets=[], chain=[])
    off, avail = _bounded(e, va)
    if off is None or avail < 8:
        s["malformed"] = True
        return s, None
    nb, nc = struct.unpack_from("<II", e.data, off)
    s.update(nbucket=clamp(nb), nchain=clamp(nc))
    if 8 + 4 * nb + 4 * nc > avail:
        s["malformed"] = True
        return s, dict(nbucket=nb, nchain=nc, buckets=[], chain=[])
    buckets = list(struct.unpack_from(f"<{nb}I", e.data, off + 8))
    chain = list(struct.unpack_from(f"<{nc}I", e.data, off + 8 + 4 * nb))
    s["buckets"] = [clamp(b) for b in buckets]
    s["chain"] = [clamp(c) for c in chain]
    return s, dict(nbucket=nb, nchain=nc, buckets=buckets, chain=chain)


NO_GNU = dict(present=False, malformed=False, nbuckets=0, symoffset=0, maskwords=0, shift=0, bloom=[], buckets=[],
              chain=[])
NO_SYSV = dict(present=False, malformed=False, nbucket=0, nchain=0, buckets=[], chain=[])


def observe(path, oid, absent_names, want_gnu, want_sysv, data=None):
    """Returns (obs, raw): obs is the JSON-able record for TLC, raw the plain-integer view for the
    python reference."""
    e = velf.Elf(path, data=data)
    dyn = _dyn_map(e)
    syms_raw = []
    if DT_SYMTAB in dyn:
        symsec = next((s for s in e.sections if s["addr"] == dyn[DT_SYMTAB] and s["type"] == 11), None)
        if symsec is None:
            raise ToolError(f"{path}: no SHT_DYNSYM section at DT_SYMTAB")
        stroff, stravail = _bounded(e, dyn[DT_STRTAB])
        strtab = e.data[stroff:stroff + min(stravail, dyn.get(DT_STRSZ, stravail))]
        sd = e.section_data(symsec)
        versym = None
        if DT_VERSYM in dyn:
            voff, vavail = _bounded(e, dyn[DT_VERSYM])
            versym = e.data[voff:voff + vavail]
        for i in range(len(sd) // 24):
            (name, info, other, shndx, value, size) = struct.unpack_from("<IBBHQQ", sd, i * 24)
            ver = 1
            if versym is not None and 2 * i + 2 <= len(versym):
                ver = struct.unpack_from("<H", versym, 2 * i)[0]
            syms_raw.append(dict(name=velf.cstr(strtab, name), defd=shndx != 0, ver=ver & 0x7fff, hidden=bool(ver & 0x8000),
                                 value=value, type=info & 15, bind=info >> 4, shndx=shndx))
    syms = []
    for s in syms_raw:
        gh, shh = velf.gnu_hash_name(s["name"]), velf.sysv_hash_name(s["name"])
        s["gh"], s["sh"] = gh, shh
        syms.append(dict(name=s["name"], **{"def": s["defd"]}, ver=s["ver"], gh=halves(gh), sh=halves(shh)))
    if not syms:
        # no dynamic symbol table at all: the null symbol only, so the record keeps its shape
        syms = [dict(name="", **{"def": False}, ver=0, gh=halves(velf.gnu_hash_name("")), sh=[0, 0])]
        syms_raw = [dict(name="", defd=False, ver=0, hidden=False, value=0, type=0, bind=0, shndx=0,
                         gh=velf.gnu_hash_name(""), sh=0)]
    gnu, gnu_raw = (read_gnu(e, dyn[DT_GNU_HASH]) if DT_GNU_HASH in dyn else (dict(NO_GNU), None))
    sysv, sysv_raw = (read_sysv(e, dyn[DT_HASH]) if DT_HASH in dyn else (dict(NO_SYSV), None))
    defined = [s["name"] for s in syms_raw if s["defd"]]
    seen = set()
    probes = []
    for nm in defined + list(absent_names):
        if nm in seen:
            continue
        seen.add(nm)
        probes.append(dict(name=nm, gh=halves(velf.gnu_hash_name(nm)), sh=halves(velf.sysv_hash_name(nm))))
    obs = dict(id=oid, want_gnu=bool(want_gnu), want_sysv=bool(want_sysv), syms=syms, gnu=gnu, sysv=sysv,
               probes=probes)
    raw = dict(id=oid, syms=syms_raw, gnu=gnu, gnu_raw=gnu_raw, sysv=sysv, sysv_raw=sysv_raw,
               probes=[p["name"] for p in probes], want_gnu=bool(want_gnu), want_sysv=bool(want_sysv),
               machine=e.e_machine, etype=e.e_type, dyn=dyn)
    return obs, raw


# ---------------------------------------------------------------------------------------------
# Independent reference of the two lookups in plain integers (python ints are unbounded).  It is
# NOT the judge: TLC is.  It exists to detect an inexact encoding: if TLC (pieces) and this
# (integers) ever disagree on which lookups fail, the check stops with a ToolError.


def _accept(s, name, v):
    return s["defd"] and s["name"] == name and (v < 0 or s["ver"] == v)


def ref_gnu_lookup(raw, name, h, v):
    g, r = raw["gnu"], raw["gnu_raw"]
    if not g["present"] or g["nbuckets"] == 0:
        return ("none", 0)
    if g["malformed"]:
        return ("fault", 0)
    mw = r["maskwords"]
    if mw != 0 and mw & (mw - 1):
        return ("fault", 0)          # _dl_setup_hash: assert ((bitmask_nwords & (bitmask_nwords - 1)) == 0)
    wi = (h // 64) & ((mw - 1) & 0xffffffff)
    if wi >= len(r["bloom"]):
        return ("fault", 0)
    word = r["bloom"][wi]
    if not ((word >> (h % 64)) & (word >> ((h >> r["shift"]) % 64)) & 1):
        return ("none", 0)
    i = r["buckets"][h % r["nbuckets"]]
    if i == 0:
        return ("none", 0)
    syms = raw["syms"]
    while True:
        ci = i - r["symoffset"]
        if ci < 0 or ci >= len(r["chain"]):
            return ("fault", 0)
        w = r["chain"][ci]
        if (w ^ h) >> 1 == 0:
            if i >= len(syms):
                return ("fault", 0)
            if _accept(syms[i], name, v):
                return ("found", i)
        if w & 1:
            return ("none", 0)
        i += 1


def ref_sysv_lookup(raw, name, h, v):
    s, r = raw["sysv"], raw["sysv_raw"]
    if not s["present"] or s["nbucket"] == 0:
        return ("none", 0)
    if s["malformed"]:
        return ("fault", 0)
    syms = raw["syms"]
    i = r["buckets"][h % r["nbucket"]]
    fuel = len(r["chain"]) + 1
    while i != 0:
        if fuel == 0:
            return ("fault", 0)
        if i >= len(syms) or i >= len(r["chain"]):
            return ("fault", 0)
        if _accept(syms[i], name, v):
            return ("found", i)
        i = r["chain"][i]
        fuel -= 1
    return ("none", 0)


def ref_bad(raw):
    """{("gnu"|"sysv", "def"|"probe", index)} of failing lookups, as HashTables!GnuBad/SysvBad."""
    bad = set()
    syms = raw["syms"]
    dn = {s["name"] for s in syms[1:] if s["defd"]}
    for tab, want, look, hk in (("gnu", raw["want_gnu"], ref_gnu_lookup, "gh"),
                                ("sysv", raw["want_sysv"], ref_sysv_lookup, "sh")):
        if not want:
            continue
        hf = velf.gnu_hash_name if tab == "gnu" else velf.sysv_hash_name
        for i, s in enumerate(syms):
            if i == 0 or not s["defd"]:
                continue
            r1 = look(raw, s["name"], s[hk], s["ver"])
            r2 = look(raw, s["name"], s[hk], -1)
            ok = r1 == ("found", i) and r2[0] == "found" and syms[r2[1]]["name"] == s["name"] and syms[r2[1]]["defd"]
            if not ok:
                bad.add((tab, "def", i))
        for j, nm in enumerate(raw["probes"], start=1):
            r = look(raw, nm, hf(nm), -1)
            if nm in dn:
                ok = r[0] == "found" and syms[r[1]]["name"] == nm and syms[r[1]]["defd"]
            else:
                ok = r == ("none", 0)
            if not ok:
                bad.add((tab, "probe", j))
    return bad


# ---------------------------------------------------------------------------------------------
# Name crafting

IDCH = "abcdefghijklmnopqrstuvwxyzABCDEFGHIJKLMNOPQRSTUVWXYZ0123456789_"
_VALID = set(IDCH)


def rand_name(rng, lo=3, hi=10, first="abcdefghijklmnopqrstuvwxyzABCDEFGHIJKLMNOPQRSTUVWXYZ_"):
    return rng.choice(first) + "".join(rng.choice(IDCH) for _ in range(rng.randint(lo, hi) - 1))


def _swap_collider(name, mult):
    """dl_new_hash: h*33+c, elf_hash: h*16+c.  Changing two adjacent characters (c1, c2) to
    (c1+1, c2-mult) or (c1-1, c2+mult) keeps the hash (mult = 33 / 16; for elf_hash as long as no
    high nibble folding interferes - the caller verifies)."""
    out = []
    for i in range(len(name) - 1, 0, -1):
        c1, c2 = ord(name[i - 1]), ord(name[i])
        for d in (1, -1):
            n1, n2 = chr(c1 + d), c2 - d * mult
            if 0 < n2 < 127 and n1 in _VALID and chr(n2) in _VALID and not (i - 1 == 0 and n1.isdigit()):
                out.append(name[:i - 1] + n1 + chr(n2) + name[i + 1:])
    return out


def gnu_colliders(name):
    return [c for c in _swap_collider(name, 33) if velf.gnu_hash_name(c) == velf.gnu_hash_name(name) and c != name]


def sysv_colliders(name):
    return [c for c in _swap_collider(name, 16) if velf.sysv_hash_name(c) == velf.sysv_hash_name(name) and c != name]


def lowbit_neighbours(name):
    """names whose dl_new_hash differs from name's only in bit 0 (chain word compare ignores it)."""
    h = velf.gnu_hash_name(name)
    out = []
    for d in (1, -1):
        c = chr(ord(name[-1]) + d)
        if c in _VALID:
            n = name[:-1] + c
            if (velf.gnu_hash_name(n) ^ h) == 1:
                out.append(n)
    return out


def multiway_gnu_collision(rng, k):
    """2^b >= k names with one dl_new_hash: blocks "ab" / "bA" are interchangeable
    (0x61*33+0x62 = 0x62*33+0x41)."""
    b = max(1, (k - 1).bit_length())
    pre = rand_name(rng, 2, 4)
    names = []
    for m in range(1 << b):
        names.append(pre + "".join("bA" if (m >> j) & 1 else "ab" for j in range(b)))
    rng.shuffle(names)
    names = names[:k]
    if len({velf.gnu_hash_name(n) for n in names}) != 1:
        raise ToolError("multiway collision construction is wrong")
    return names


def names_mod(rng, n, modulus, residue, hashf, taken=()):
    """n distinct names with hashf(name) % modulus == residue (search)."""
    out, seen = [], set(taken)
    tries = 0
    while len(out) < n:
        tries += 1
        if tries > 4000 * max(modulus, 1) + 200000:
            raise ToolError("name search did not converge")
        nm = rand_name(rng, 4, 9)
        if nm in seen or hashf(nm) % modulus != residue:
            continue
        seen.add(nm)
        out.append(nm)
    return out


def birthday_gnu(rng, count):
    """Seeded birthday search for full 32-bit dl_new_hash collisions among `count` random names."""
    seen = {}
    pairs = []
    for _ in range(count):
        nm = rand_name(rng, 5, 7)
        h = velf.gnu_hash_name(nm)
        o = seen.get(h)
        if o is None:
            seen[h] = nm
        elif o != nm:
            pairs.append((o, nm))
    return pairs


def wild_gnu_buckets(n):
    """Bucket count wild is expected to pick ((n/2).next_power_of_two()); only used to aim the
    crafted names, never as an expectation."""
    x = n // 2
    p = 1
    while p < x:
        p *= 2
    return p


def absent_probes(rng, defined, want):
    """~want names that are not in `defined`: colliders of defined names (full dl_new_hash, full
    elf_hash, equal but for the low bit), near-misses in spelling, and fresh names."""
    ds = set(defined)
    out, seen = [], set()

    def add(nm):
        if nm and nm not in ds and nm not in seen:
            seen.add(nm)
            out.append(nm)

    pool = list(defined)
    rng.shuffle(pool)
    per = max(1, want // max(1, 2 * len(pool))) if pool else 0
    for nm in pool:
        if len(out) >= (2 * want) // 3:
            break
        c = gnu_colliders(nm)[:per] + sysv_colliders(nm)[:1] + lowbit_neighbours(nm)[:1]
        for x in c:
            add(x)
        if rng.random() < 0.3:
            add(nm + rng.choice(IDCH))
        if rng.random() < 0.2 and len(nm) > 1:
            add(nm[:-1])
    while len(out) < want:
        add(rand_name(rng, 3, 9))
    out.append("")  # the empty name (the null symbol has it) must not be found either
    return out


# ---------------------------------------------------------------------------------------------
# Linker inputs


def _q(name):
    return name if all(c in _VALID or c in ".$" for c in name) else '"' + name + '"'


def emit_defs(arch, entries):
    """entries: [(symbol, id, kind)] kind 'f' (function returning id) / 'd' (object holding id).
    Returns assembly text."""
    t, d = [".text"], [".data"]
    for sym, ident, kind in entries:
        s = _q(sym)
        if kind == "f":
            if arch == "x86_64":
                t += [f".globl {s}", f".type {s},@function", f"{s}:", f"    mov ${ident}, %eax", "    ret"]
            else:
                t += [f".globl {s}", f".type {s},%function", f"{s}:", f"    mov w0, #{ident & 0xffff}",
                      f"    movk w0, #{(ident >> 16) & 0xffff}, lsl #16", "    ret"]
        else:
            ty = "@object" if arch == "x86_64" else "%object"
            d += [f".globl {s}", f".type {s},{ty}", f".size {s},4", "    .balign 4", f"{s}:", f"    .long {ident}"]
    return "\n".join(t + d) + "\n"


def emit_imports(arch, imports):
    """a function that calls every imported (undefined) function: the output gets undefined
    dynamic symbols in front of the definitions (symoffset > 1)."""
    if not imports:
        return ""
    t = [".text", ".globl c08_import_user", ".type c08_import_user,@function" if arch == "x86_64"
         else ".type c08_import_user,%function", "c08_import_user:"]
    for s in imports:
        t.append(f"    call {_q(s)}@PLT" if arch == "x86_64" else f"    bl {_q(s)}")
    t.append("    ret")
    return "\n".join(t) + "\n"


HOST_C = r"""
#define _GNU_SOURCE
#include <dlfcn.h>
#include <stdio.h>
#include <string.h>
#include <stdlib.h>
/* usage: host <lib> <list>; list lines: <name> <version|-> <f|d> <id> */
int main(int argc, char **argv) {
    if (argc < 3) return 2;
    void *h = dlopen(argv[1], RTLD_NOW | RTLD_LOCAL);
    if (!h) { printf("DLOPEN-FAIL %s\n", dlerror()); return 3; }
    FILE *f = fopen(argv[2], "r");
    if (!f) return 2;
    char name[4096], ver[256], kind[8];
    long id; int n = 0, bad = 0;
    while (fscanf(f, "%4095s %255s %7s %ld", name, ver, kind, &id) == 4) {
        n++;
        dlerror();
        void *p = strcmp(ver, "-") ? dlvsym(h, name, ver) : dlsym(h, name);
        if (!p) { printf("DLFAIL %s %s notfound\n", name, ver); bad++; continue; }
        long got = kind[0] == 'f' ? (long)((int (*)(void))p)() : (long)*(int *)p;
        if (got != id) { printf("DLFAIL %s %s wrong got=%ld want=%ld\n", name, ver, got, id); bad++; }
    }
    printf("DLDONE %d %d\n", n, bad);
    return 0;
}
"""


def build_host(d):
    d = Path(d)
    c = d / "c08host.c"
    c.write_text(HOST_C)
    out = d / "c08host"
    sh(["gcc", "-O1", "-o", out, c, "-ldl"], timeout=120, check=True)
    return out


def run_host(host, lib, entries, d, tag):
    """entries: [(name, version|None, kind, id)].  Returns (ok, failures[list of str], raw ShResult)."""
    lst = Path(d) / f"{tag}.dlsym.txt"
    lst.write_text("".join(f"{n} {v or '-'} {k} {i}\n" for n, v, k, i in entries))
    r = sh([host, Path(lib).resolve(), lst], timeout=120, env={"LD_BIND_NOW": "1"})
    fails = [ln for ln in r.out.splitlines() if ln.startswith("DLFAIL") or ln.startswith("DLOPEN-FAIL")]
    done = [ln for ln in r.out.splitlines() if ln.startswith("DLDONE")]
    return r, fails, done


def dump_obs(obs_list, d):
    """Write <k>.json (k = 1..n) for HashTablesObs; returns the directory."""
    d = Path(d)
    d.mkdir(parents=True, exist_ok=True)
    for k, o in enumerate(obs_list, start=1):
        (d / f"{k}.json").write_text(json.dumps(o, separators=(",", ":")) + "\n")
    return d
