"""C30 helpers: turn an InitOrder.tla scenario into real objects/archives, link them with wild and
GNU ld, read the constructor/destructor arrays back (independent ELF reader) and execute the result.

Scenario (as printed by specs/MCInitOrder.tla):
  {"objs": [{"member": bool, "pulledby": int, "entries": [{"a": "init"|"fini"|"ctors"|"dtors"|"preinit",
                                                           "p": int (-1 = no suffix),
                                                           "t": "array"|"progbits" (sh_type)}, ...]}, ...],
   "expect": {"preinit": [[o, e], ...], "init": [...], "fini": [...]}}
Objects are numbered from 1 in command-line order (after main.o); entry e of object o is the function
f<o>_<e>, whose address is stored by one `.quad` in the section named by (a, p).  Entries of one
object that name the same section are one input section (the assembler concatenates them).
The assembler gives the well-known names their usual type whatever the source says, so a type that
does not match the name (.init_array as SHT_PROGBITS, .ctors as SHT_INIT_ARRAY, ..) is produced by
patching sh_type in the assembled object (and verified by reading it back).
Objects with member=true are members of lib.a (archive order = object order), which stands on the
command line where its first member would stand; a member is extracted because main.o (pulledby=0)
or another member (pulledby=k) references its anchor symbol.
"""
import hashlib
import os
import struct
import subprocess
import threading
from pathlib import Path

from . import asm
from .common import ToolError, run_wild, sh
from .elf import Elf

BASE = {"preinit": ".preinit_array", "init": ".init_array", "fini": ".fini_array",
        "ctors": ".ctors", "dtors": ".dtors"}
SECTYPE = {"preinit": "@preinit_array", "init": "@init_array", "fini": "@fini_array",
           "ctors": "@progbits", "dtors": "@progbits"}
SHT_PROGBITS = 1
SHT_OF_ARRAY = {"init": 14, "ctors": 14, "fini": 15, "dtors": 15, "preinit": 16}
NATIVE_T = {"preinit": "array", "init": "array", "fini": "array", "ctors": "progbits", "dtors": "progbits"}
OUT_ARRAYS = ("preinit", "init", "fini")
OUT_SECTION = {"preinit": ".preinit_array", "init": ".init_array", "fini": ".fini_array"}


def section_name(a, p):
    return BASE[a] if p is None or int(p) < 0 else f"{BASE[a]}.{int(p)}"


def entry_type(ent):
    return ent.get("t") or NATIVE_T[ent["a"]]


def retypes(ob):
    """{section name: sh_type} for the sections of an object whose type does not match their name."""
    out = {}
    for ent in ob["entries"]:
        if entry_type(ent) != NATIVE_T[ent["a"]]:
            out[section_name(ent["a"], ent["p"])] = SHT_PROGBITS if entry_type(ent) == "progbits" else SHT_OF_ARRAY[ent["a"]]
    return out


def patch_section_types(obj_path, retype):
    """Set sh_type of the named sections of a relocatable object (field at e_shoff + idx*shentsize + 4)."""
    if not retype:
        return
    e = Elf(obj_path)
    data = bytearray(Path(obj_path).read_bytes())
    done = set()
    for sec in e.sections:
        if sec["name"] in retype:
            struct.pack_into("<I", data, e.e_shoff + sec["index"] * e.e_shentsize + 4, retype[sec["name"]])
            done.add(sec["name"])
    if done != set(retype):
        raise ToolError(f"cannot retype {set(retype) - done} in {obj_path}")
    Path(obj_path).write_bytes(bytes(data))
    chk = Elf(obj_path)
    for name, typ in retype.items():
        if [x["type"] for x in chk.sections_named(name)] != [typ]:
            raise ToolError(f"retyping {name} in {obj_path} did not take effect")


def input_section_types(obj_path):
    """[(name, sh_type, number of 8-byte entries)] of the constructor/destructor input sections of an object."""
    e = Elf(obj_path)
    return [(x["name"], x["type"], x["size"] // 8) for x in e.sections
            if x["name"].startswith((".init_array", ".fini_array", ".preinit_array", ".ctors", ".dtors"))]


def fname(o, e):
    return f"f{o}_{e}"


def func_ids(scn):
    """Stable numbering of all functions of a scenario: name -> byte id (1..)."""
    ids = {}
    for o, ob in enumerate(scn["objs"], 1):
        for e, _ in enumerate(ob["entries"], 1):
            ids[fname(o, e)] = len(ids) + 1
    if len(ids) > 200:
        raise ToolError("too many functions in one scenario")
    return ids


MAIN_S = r"""
    .section .text.main,"ax",@progbits
    .globl _start
    .globl record
_start:
__ANCHORS__
    lea __preinit_array_start(%rip), %rbx
    lea __preinit_array_end(%rip), %r12
1:  cmp %r12, %rbx
    jae 2f
    call *(%rbx)
    add $8, %rbx
    jmp 1b
2:  mov $0xfe, %edi
    call record
    lea __init_array_start(%rip), %rbx
    lea __init_array_end(%rip), %r12
3:  cmp %r12, %rbx
    jae 4f
    call *(%rbx)
    add $8, %rbx
    jmp 3b
4:  mov $0xfd, %edi
    call record
    lea __fini_array_start(%rip), %r12
    lea __fini_array_end(%rip), %rbx
5:  cmp %r12, %rbx
    jbe 6f
    sub $8, %rbx
    call *(%rbx)
    jmp 5b
6:  mov $1, %eax
    mov $1, %edi
    lea buf(%rip), %rsi
    mov pos(%rip), %rdx
    syscall
    mov $60, %eax
    xor %edi, %edi
    syscall
record:
    mov pos(%rip), %rax
    lea buf(%rip), %rcx
    mov %dil, (%rcx,%rax)
    inc %rax
    mov %rax, pos(%rip)
    ret
    .section .bss,"aw",@nobits
    .p2align 3
pos: .skip 8
buf: .skip 512
"""


def sources(scn, align=3):
    """{"main": asm text, "o1": asm text, ...} for a scenario."""
    ids = func_ids(scn)
    objs = scn["objs"]
    main_refs = [k for k, ob in enumerate(objs, 1) if ob.get("member") and int(ob.get("pulledby", 0)) == 0]
    anchors = "\n".join(f"    lea anchor{k}(%rip), %rax" for k in main_refs)
    out = {"main": MAIN_S.replace("__ANCHORS__", anchors)}
    for o, ob in enumerate(objs, 1):
        t = [f'    .section .text.o{o},"ax",@progbits', f"    .globl anchor{o}", f"anchor{o}:"]
        for k, other in enumerate(objs, 1):
            if other.get("member") and int(other.get("pulledby", 0)) == o:
                t.append(f"    lea anchor{k}(%rip), %rax")
        t.append("    ret")
        for e, _ in enumerate(ob["entries"], 1):
            f = fname(o, e)
            t += [f"    .type {f},@function", f"{f}:", f"    mov ${ids[f]}, %edi", "    jmp record"]
        for e, ent in enumerate(ob["entries"], 1):
            t += [f'    .section {section_name(ent["a"], ent["p"])},"aw",{SECTYPE[ent["a"]]}',
                  f"    .p2align {align}", f"    .quad {fname(o, e)}"]
        out[f"o{o}"] = "\n".join(t) + "\n"
    return out


def _tool(cmd, what):
    """as / ar / ld: helper tools, retried on a timeout (a heavily loaded machine is not a finding)."""
    r = None
    for timeout in (60, 180, 400):
        r = sh(cmd, timeout=timeout)
        if not r.timed_out:
            return r
    raise ToolError(f"{what} timed out repeatedly: {' '.join(map(str, cmd))}")


_cache_lock = threading.Lock()
_key_locks = {}


def _assemble_cached(name, text, d, cache, retype=None):
    retype = retype or {}
    if cache is None:
        obj = asm.write_asm(d, name, text)
        patch_section_types(obj, retype)
        return obj
    key = hashlib.sha1((text + repr(sorted(retype.items()))).encode()).hexdigest()[:20]
    obj = Path(cache) / f"{name}-{key}.o"
    with _cache_lock:
        lock = _key_locks.setdefault(str(obj), threading.Lock())
    with lock:                      # an object is written exactly once (wild notices files that change)
        if not obj.exists():
            tmp = str(Path(cache) / f".{name}-{key}.{os.getpid()}")
            Path(tmp + ".s").write_text(text)
            r = _tool(["as", "--64", "-o", tmp + ".o", tmp + ".s"], "as")
            if r.rc != 0:
                raise ToolError(f"as failed: {r.err[-1000:]}")
            patch_section_types(tmp + ".o", retype)
            os.replace(tmp + ".s", obj.with_suffix(".s"))
            os.replace(tmp + ".o", obj)
    return obj


def emit(scn, d, align=3, cache=None, info=None):
    """Assemble main.o and o<k>.o (through the content-addressed `cache` directory if given), build
    lib.a in d if there are members.  Returns the link inputs in command-line order."""
    d = Path(d)
    srcs = sources(scn, align)
    objs = scn["objs"]
    main_o = _assemble_cached("main", srcs["main"], d, cache)
    paths = {o: _assemble_cached(f"o{o}", srcs[f"o{o}"], d, cache, retypes(objs[o - 1]))
             for o in range(1, len(objs) + 1)}
    if info is not None:
        info["objects"] = {o: str(p) for o, p in paths.items()}
    members = [o for o, ob in enumerate(objs, 1) if ob.get("member")]
    inputs = [main_o]
    lib = None
    if members:
        lib = d / "lib.a"
        if lib.exists():
            lib.unlink()
        r = _tool(["ar", "rc", lib] + [str(paths[o]) for o in members], "ar")
        if r.rc != 0:
            raise ToolError(f"ar failed: {r.err[-1000:]}")
    for o, ob in enumerate(objs, 1):
        if ob.get("member"):
            if lib is not None and o == members[0]:
                inputs.append(lib)
        else:
            inputs.append(paths[o])
    return inputs


def read_arrays(path):
    """{array: [function name, ...]} read from the output file: the contents of the output
    sections .preinit_array/.init_array/.fini_array, each 8-byte word resolved through .symtab.
    Also returns the [start,end) symbol ranges as seen in .symtab."""
    e = Elf(path)
    by_addr = {}
    for s in e.symtab:
        if s["name"].startswith("f") and "_" in s["name"] and s["shndx"] not in (0, 0xfff1):
            by_addr.setdefault(s["value"], s["name"])
    out, bounds = {}, {}
    for arr in OUT_ARRAYS:
        names = []
        for sec in e.sections_named(OUT_SECTION[arr]):
            data = e.section_data(sec)
            if len(data) % 8:
                names.append(f"<partial:{len(data)}>")
            for i in range(len(data) // 8):
                v = struct.unpack_from("<Q", data, i * 8)[0]
                names.append(by_addr.get(v, f"<0x{v:x}>"))
        out[arr] = names
        st, en = e.symbol(f"__{arr}_array_start"), e.symbol(f"__{arr}_array_end")
        sec = e.section(OUT_SECTION[arr])
        bounds[arr] = {"start": st["value"] if st else None, "end": en["value"] if en else None,
                       "sec_addr": sec["addr"] if sec else None, "sec_size": sec["size"] if sec else 0}
    leftovers = [s["name"] for s in e.sections
                 if s["name"].startswith((".ctors", ".dtors", ".init_array.", ".fini_array.", ".preinit_array."))]
    return out, bounds, leftovers


def execute_bytes(path, scn, timeout=60):
    """Run the linked program; ({array: [function names in EXECUTION order]}, None) or (None, why)."""
    ids = {v: k for k, v in func_ids(scn).items()}
    try:
        p = subprocess.run([str(path)], stdout=subprocess.PIPE, stderr=subprocess.PIPE, timeout=timeout,
                           stdin=subprocess.DEVNULL)
    except subprocess.TimeoutExpired:
        return None, "timeout"
    if p.returncode != 0:
        return None, f"rc={p.returncode}"
    b = p.stdout
    if b.count(b"\xfe") != 1 or b.count(b"\xfd") != 1:
        return None, f"bad log {b!r}"
    pre, rest = b.split(b"\xfe")
    ini, fin = rest.split(b"\xfd")
    conv = lambda bs: [ids.get(x, f"<{x}>") for x in bs]  # noqa: E731
    return {"preinit": conv(pre), "init": conv(ini), "fini": conv(fin)}, None


def expected_names(scn):
    return {arr: [fname(o, e) for o, e in scn["expect"].get(arr, [])] for arr in OUT_ARRAYS}


def link_gnu(inputs, out, extra=()):
    return _tool(["ld", *map(str, inputs), "-o", str(out), *extra], "GNU ld")


def link_wild(inputs, out, extra=(), env=None):
    """wild under a hard timeout; a timeout is retried once with a much longer one so that only a
    reproducible hang is reported."""
    r = run_wild([*map(str, inputs), "-o", str(out), *extra], env=env, timeout=60)
    if r.timed_out:
        r = run_wild([*map(str, inputs), "-o", str(out), *extra], env=env, timeout=400)
    return r
