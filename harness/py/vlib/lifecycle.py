"""Replaying behaviours of specs/Lifecycle.tla into the real wild binary (C17-C21, C35).

A *scenario* is the dict TLC prints for a terminal state of MCLifecycle (fields fork, multi, prior,
shared, wopt, mmapOut, holder, faultAt, faultKind, changeAt); the model's terminal states for one
scenario give the set of admissible outcomes.  `run_scenario` performs the real link under exactly
that scenario and returns the observed outcome in the same vocabulary.
"""
import fcntl
import hashlib
import json
import os
import shutil
import signal
import struct
import subprocess
import sys
import termios
import time
from pathlib import Path

from . import asm, tlc
from .common import CACHE, SPECS, ToolError, build_wild, log, sh

SCN_KEYS = ("fork", "multi", "prior", "shared", "wopt", "mmapOut", "holder", "faultAt", "faultKind", "symlink", "reapable", "changeAt")
PHASES = ["start", "loaded", "symbols", "resolved", "laid_out", "pre_write", "mid_write", "flushed",
          "unmapped", "written", "verified", "finished", "pre_inform", "post_inform", "end"]


def scn_key(r):
    return tuple(r[k] for k in SCN_KEYS)


def model_outcomes(cfg="mc/Lifecycle_replay.cfg", workers=8, timeout=900):
    """Run TLC on MCLifecycle; return (TlcResult, {scenario_key: [outcome records]})."""
    res = tlc.run_tlc("MCLifecycle", cfg, workers=workers, timeout=timeout, coverage=False)
    if not res.ok:
        raise ToolError(f"Lifecycle model check failed: {res.violated} {res.error_text}\n{res.trace_text[:2000]}")
    by = {}
    for r in res.records:
        by.setdefault(scn_key(r), []).append(r)
    if not by:
        raise ToolError("no REPLAY records from MCLifecycle")
    return res, by


# ---------------------------------------------------------------------------------------------
# inputs

PROG = """
.globl _start
.section .text._start,"ax",@progbits
_start:
    call foo
1:  mov $34, %eax        # pause(): a holder process blocks here
    syscall
    jmp 1b
.section .data.ident,"aw",@progbits
.globl ident
ident: .quad {ident}
    .fill 3000, 1, 0x5a
"""
FOO = """
.globl foo
.section .text.foo,"ax",@progbits
foo: call bar
    ret
"""
BAR = """
.globl bar
.section .text.bar,"ax",@progbits
bar: mov ident@GOTPCREL(%rip), %rax
    ret
"""


class Workspace:
    """Objects for the 'new' link, plus prior outputs (linked by GNU ld, so independent of wild)."""

    def __init__(self, d):
        self.d = Path(d)
        self.d.mkdir(parents=True, exist_ok=True)
        self.new = [asm.write_asm(self.d, "a_new", PROG.format(ident="0x1111")),
                    asm.write_asm(self.d, "b", FOO), asm.write_asm(self.d, "c", BAR)]
        old = [asm.write_asm(self.d, "a_old", PROG.format(ident="0x2222")), self.new[1], self.new[2]]
        self.prior_exe = self.d / "prior_exe"
        self.prior_so = self.d / "prior_so"
        asm.gnu_ld([*old, "-o", self.prior_exe], check=True)
        asm.gnu_ld(["-shared", *old, "-o", self.prior_so], check=True)
        self._ref = {}
        import threading
        self._ref_lock = threading.Lock()

    def base_args(self, scn, out):
        a = [str(p) for p in self.new]
        if scn["shared"]:
            a.append("-shared")
        a += ["-o", str(out)]
        a.append("--threads=4" if scn["multi"] else "--threads=1")
        if not scn["fork"]:
            a.append("--no-fork")
        if scn["wopt"] == "inplace":
            a.append("--update-in-place")
        elif scn["wopt"] == "replace":
            a.append("--no-update-in-place")
        if not scn["mmapOut"]:
            a.append("--no-mmap-output-file")
        return a

    def reference(self, scn):
        """Bytes of a complete output for this scenario's arguments (fresh directory, no faults)."""
        k = (scn["shared"],)
        with self._ref_lock:
            return self._reference_locked(scn, k)

    def _reference_locked(self, scn, k):
        if k not in self._ref:
            rd = self.d / f"ref{int(scn['shared'])}"
            rd.mkdir(exist_ok=True)
            s = dict(scn, fork=False, multi=False, wopt="default", mmapOut=True)
            r = sh([build_wild()] + self.base_args(s, rd / "out"), timeout=60)
            if r.rc != 0:
                raise ToolError(f"reference link failed: {r}")
            self._ref[k] = (rd / "out").read_bytes()
        return self._ref[k]


def session_pids(sid):
    out = []
    for p in os.listdir("/proc"):
        if not p.isdigit():
            continue
        try:
            st = open(f"/proc/{p}/stat").read()
            rest = st[st.rindex(")") + 2:].split()
            if int(rest[3]) == sid and rest[0] != "Z":
                out.append(int(p))
        except (OSError, ValueError, IndexError):
            pass
    return out


def wait_session_gone(sid, timeout=30):
    t0 = time.time()
    while time.time() - t0 < timeout:
        if not session_pids(sid):
            return True
        time.sleep(0.005)
    for p in session_pids(sid):
        try:
            os.kill(p, signal.SIGKILL)
        except OSError:
            pass
    return False


def classify(path, ref, prior_bytes, prior_ino):
    if not os.path.lexists(path):
        return "absent", "none"
    st = os.stat(path)
    data = Path(path).read_bytes()
    ino = "old" if prior_ino is not None and st.st_ino == prior_ino else "new"
    if data == ref:
        return "complete", ino
    if prior_bytes is not None and data == prior_bytes:
        return "old", ino
    if data.count(0) == len(data):
        return "zero", ino
    return "partial", ino


def snapshot(d):
    out = {}
    for root, _dirs, files in os.walk(d):
        for f in files:
            p = Path(root) / f
            try:
                st = os.lstat(p)
                h = hashlib.sha256(p.read_bytes()).hexdigest() if not os.path.islink(p) else "link"
                out[str(p.relative_to(d))] = (st.st_ino, st.st_size, h, st.st_mode)
            except OSError:
                pass
    return out


HOLDER_PY = r"""
import mmap, sys, hashlib, os
f = open(sys.argv[1], 'rb')
m = mmap.mmap(f.fileno(), 0, flags=mmap.MAP_PRIVATE, prot=mmap.PROT_READ)
print(hashlib.sha256(m[:]).hexdigest(), flush=True)
for line in sys.stdin:
    print(hashlib.sha256(m[:]).hexdigest(), flush=True)
"""


def run_scenario(ws, scn, d, tokens=None, measure_threads=False, trace=False, yield_seed=None,
                 out_name=None, modify=None, extra_args=(), measure_at="written"):
    """Perform the real link for `scn` in directory d. Returns the observed outcome dict."""
    d = Path(d)
    d.mkdir(parents=True, exist_ok=True)
    out_name = out_name or ("libout.so" if scn["shared"] else "out.bin")
    out = d / out_name
    stem = out.with_suffix("")
    sibling = Path(str(stem) + ".delete")
    sibling_bytes = b"unrelated user file\n"
    sibling.write_bytes(sibling_bytes)
    other = d / (out.name + ".tmp")
    other.write_bytes(b"another neighbour\n")
    prior_bytes = prior_ino = None
    link_target = None
    if scn["prior"] == "file":
        src = ws.prior_so if scn["shared"] else ws.prior_exe
        if scn.get("symlink"):
            # libout.so -> libout.so.1 : the output path is a symbolic link to the previous output
            link_target = d / (out.name + ".1")
            shutil.copy(src, link_target)
            os.chmod(link_target, 0o755)
            os.symlink(link_target.name, out)
        else:
            shutil.copy(src, out)
            os.chmod(out, 0o755)
        prior_bytes = out.read_bytes()
        prior_ino = os.stat(out).st_ino
    # private copies of the inputs so that C20 can modify them
    local_inputs = []
    for p in ws.new:
        q = d / p.name
        shutil.copy(p, q)
        local_inputs.append(q)
    args = [str(x) for x in local_inputs] + ws.base_args(scn, out)[len(ws.new):] + list(extra_args)
    env = dict(os.environ)
    env["RUST_BACKTRACE"] = "0"      # symbolising a backtrace of the debug binary can take a minute under load
    pause_dir = None
    if scn["faultAt"] != "none":
        env["WILD_VERIF_FAULT"] = f"{scn['faultAt']}:{scn['faultKind']}"
    pause_at = scn["changeAt"] if scn["changeAt"] != "none" else (measure_at if measure_threads else None)
    if pause_at:
        pause_dir = d / "pause"
        pause_dir.mkdir()
        env["WILD_VERIF_PAUSE"] = f"{pause_at}:{pause_dir}"
    if trace:
        env["WILD_VERIF_TRACE"] = str(d / "trace.ndjson")
    if yield_seed is not None:
        env["WILD_VERIF_YIELD_SEED"] = str(yield_seed)
    pass_fds = ()
    jr = jw = None
    if tokens is not None:
        jr, jw = os.pipe()
        os.set_inheritable(jr, True)
        os.set_inheritable(jw, True)
        fcntl.fcntl(jr, fcntl.F_SETFL, os.O_NONBLOCK | fcntl.fcntl(jr, fcntl.F_GETFL))
        os.write(jw, b"+" * tokens)
        env["MAKEFLAGS"] = f" -j{tokens + 1} --jobserver-auth={jr},{jw}"
        env["CARGO_MAKEFLAGS"] = env["MAKEFLAGS"]
        pass_fds = (jr, jw)
    else:
        env.pop("MAKEFLAGS", None)
        env.pop("CARGO_MAKEFLAGS", None)
    holder_proc = None
    holder_sum0 = None
    if scn["holder"] == "exec":
        t_first = time.time()
        while True:
            try:
                holder_proc = subprocess.Popen([str(out)], stdin=subprocess.DEVNULL, stdout=subprocess.DEVNULL)
                break
            except OSError as e:
                # ETXTBSY: a child forked by another harness thread still holds the write descriptor
                # we copied the file with (until it execs); harness-side race, just retry - on a loaded
                # machine that child may not be scheduled for seconds
                if e.errno != 26 or time.time() - t_first > 90:
                    raise
                time.sleep(0.05)
        time.sleep(0.02)
        holder_sum0 = hashlib.sha256(open(f"/proc/{holder_proc.pid}/exe", "rb").read()).hexdigest()
    elif scn["holder"] == "map":
        holder_proc = subprocess.Popen([sys.executable, "-c", HOLDER_PY, str(out)], stdin=subprocess.PIPE,
                                       stdout=subprocess.PIPE, text=True)
        holder_sum0 = holder_proc.stdout.readline().strip()
    before = snapshot(d)
    t0 = time.time()
    def child_setup():
        os.setsid()
        if not scn.get("reapable", True):
            # the caller ignores SIGCHLD (inherited across execve): wild's waitpid() gets ECHILD
            signal.signal(signal.SIGCHLD, signal.SIG_IGN)

    p = subprocess.Popen([str(build_wild())] + args, env=env, cwd=d, stdout=subprocess.PIPE,
                         stderr=subprocess.PIPE, stdin=subprocess.DEVNULL, preexec_fn=child_setup,
                         pass_fds=pass_fds)
    sid = p.pid
    nthreads = None
    tokens_at_pause = None
    modified = None
    if pause_dir is not None:
        reached = pause_dir / "reached"
        # a point after the worker informed its parent is reached when the top-level process may already be gone
        late = pause_at in ("pre_inform", "post_inform")
        while not reached.exists() and time.time() - t0 < 30 and (p.poll() is None or (late and session_pids(sid))):
            time.sleep(0.002)
        if reached.exists():
            if measure_threads and tokens is not None:
                tokens_at_pause = struct.unpack("i", fcntl.ioctl(jr, termios.FIONREAD, struct.pack("i", 0)))[0]
            if measure_threads:
                worker = max(session_pids(sid) or [p.pid])
                try:
                    nthreads = len(os.listdir(f"/proc/{worker}/task"))
                except OSError:
                    nthreads = None
            if scn["changeAt"] != "none":
                modified = (modify or default_modify)(local_inputs, d)
        (pause_dir / "go").write_text("go")
    try:
        so, se = p.communicate(timeout=60)
        timed_out = False
    except subprocess.TimeoutExpired:
        timed_out = True
        os.killpg(sid, signal.SIGKILL)
        so, se = p.communicate()
    gone = wait_session_gone(sid, 30)
    rc = p.returncode
    tokens_left = None
    if tokens is not None:
        buf = struct.pack("i", 0)
        tokens_left = struct.unpack("i", fcntl.ioctl(jr, termios.FIONREAD, buf))[0]
        os.close(jr)
        os.close(jw)
    holder_sum1 = None
    if holder_proc is not None:
        try:
            if scn["holder"] == "exec":
                holder_sum1 = hashlib.sha256(open(f"/proc/{holder_proc.pid}/exe", "rb").read()).hexdigest()
            else:
                holder_proc.stdin.write("again\n")
                holder_proc.stdin.flush()
                holder_sum1 = holder_proc.stdout.readline().strip()
        finally:
            holder_proc.kill()
            holder_proc.wait()
    ref = ws.reference(scn)
    out_class, out_ino = classify(out, ref, prior_bytes, prior_ino)
    after = snapshot(d)
    if pause_dir is not None:
        for k in list(after):
            if k.startswith("pause/"):
                del after[k]
    declared = {out.name, "trace.ndjson"}
    touched = []
    for k in set(before) | set(after):
        if k in declared:
            continue
        if before.get(k) != after.get(k):
            if modified and k in modified:
                continue
            touched.append(k)
    return {
        "rc": rc, "exitZero": rc == 0, "timed_out": timed_out, "all_gone": gone,
        "outClass": out_class, "outInode": out_ino,
        "sibling": "intact" if sibling.exists() and sibling.read_bytes() == sibling_bytes else "destroyed",
        "touched": sorted(touched),
        "tokens_left": tokens_left, "nthreads": nthreads, "tokens_at_pause": tokens_at_pause, "measured_at": pause_at,
        "holder_unchanged": (holder_sum0 == holder_sum1) if holder_proc is not None else None,
        "link_target_unchanged": (link_target.exists() and link_target.read_bytes() == prior_bytes) if link_target is not None else None,
        "stderr": se.decode("utf-8", "replace")[-600:], "args": args,
        "env": {k: v for k, v in env.items() if k.startswith("WILD_") or k == "MAKEFLAGS"},
        "modified": modified, "wall": time.time() - t0,
    }


def default_modify(inputs, d):
    """Rewrite an input in place (same bytes, strictly newer mtime), as a compiler re-run would."""
    p = inputs[1]
    data = p.read_bytes()
    st = os.stat(p)
    with open(p, "r+b") as f:
        f.write(data)
    os.utime(p, ns=(st.st_atime_ns, st.st_mtime_ns + 50_000_000))
    return {p.name}


# ---------------------------------------------------------------------------------------------
# generic replay loop


def replay(ctx, prop, select, judge, n_quick, n_thorough, workers=8, run_kwargs=None, cov=None, trace_sample=0):
    """TLC -> scenarios -> real runs -> judge(scn, admissible_outcomes, observed) -> report.
    `select(key_dict)` filters scenarios; `judge` returns list of (key, text) problems."""
    import random
    from concurrent.futures import ThreadPoolExecutor
    from .common import save_replay, scratch, trim_samples

    cov = cov if cov is not None else {}
    res, by = model_outcomes()
    cov["states"], cov["transitions"] = res.distinct, res.generated
    cov["model_terminal_states"] = len(res.records)
    keys = [k for k in by if select(dict(zip(SCN_KEYS, k)))]
    keys.sort(key=str)
    rng = random.Random(ctx.seed)
    rng.shuffle(keys)
    n = n_quick if ctx.quick else n_thorough
    chosen = keys[:n]
    cov["scenarios_in_model"] = len(keys)
    build_wild()
    samples = []
    problems = 0
    with scratch(prop.lower()) as d:
        ws = Workspace(d / "ws")

        def one(i_k):
            i, k = i_k
            scn = dict(zip(SCN_KEYS, k))
            kw = dict(run_kwargs(scn) if callable(run_kwargs) else (run_kwargs or {}))
            if i < trace_sample:
                kw["trace"] = True
            obs = run_scenario(ws, scn, d / f"r{i}", **kw)
            if i < trace_sample:
                obs["trace_ok"], obs["trace_info"] = validate_pipeline_trace(
                    d / f"r{i}" / "trace.ndjson", f"{prop}.r{i}", rc=None if obs["timed_out"] else obs["rc"])
            return scn, obs, d / f"r{i}"

        with ThreadPoolExecutor(max_workers=workers) as ex:
            results = list(ex.map(one, list(enumerate(chosen))))
        for scn, obs, rd in results:
            if obs["timed_out"]:
                ctx.verdict.report(f"hang:{scn['faultAt']}:{scn['faultKind']}", f"link did not terminate: {scn}",
                                   lambda: save_replay(prop, f"hang-{rd.name}", rd, meta={"scenario": scn, "observed": obs}))
                continue
            adm = by[scn_key(scn)]
            if obs.get("trace_ok") is False:
                problems += 1
                ctx.verdict.report("pipeline-order-trace-rejected",
                                   f"the phase / scope events of this link are not a behaviour of Wild.tla: {obs['trace_info']}",
                                   lambda: save_replay(prop, f"pipeline-{rd.name}", rd, meta={"scenario": scn, "info": obs["trace_info"]}))
            for key, text in judge(scn, adm, obs):
                problems += 1
                ctx.verdict.report(key, text + f" | scenario={json.dumps(scn)} observed rc={obs['rc']} out={obs['outClass']}/{obs['outInode']}",
                                   lambda: save_replay(prop, f"{key.replace('/', '_').replace(':', '_')}-{rd.name}", rd,
                                                       meta={"scenario": scn, "observed": obs,
                                                             "admissible": adm[:6]}))
            if len(samples) < 4:
                samples.append({"scenario": scn, "observed": {k: obs[k] for k in ("rc", "outClass", "outInode", "sibling", "touched", "tokens_left", "nthreads", "holder_unchanged")},
                                "admissible": [{k: a[k] for k in ("exitZero", "outClass", "outInode", "sibling", "tokensBack")} for a in adm[:3]]})
            shutil.rmtree(rd, ignore_errors=True)
    cov["traces_validated_against_impl"] = len(results)
    cov["pipeline_traces_validated_by_tlc"] = sum(1 for _s, o, _r in results if o.get("trace_ok") is True)
    if trace_sample and not cov["pipeline_traces_validated_by_tlc"]:
        raise ToolError("no pipeline trace was validated (hooks missing?)")
    cov["samples"] = trim_samples(samples, 4, 1200)
    cov["problems_seen"] = problems
    return cov


def validate_pipeline_trace(path, name, rc=None):
    """Validate the phase / scope-boundary events of one link against specs/Wild.tla (WildTrace).
    Events of the worker process only (the forking parent emits none)."""
    if not path.exists():
        return None, "no trace"
    evs = [json.loads(x) for x in open(path)]
    if not evs:
        return None, "empty trace"
    pids = {}
    for e in evs:
        pids[e["pid"]] = pids.get(e["pid"], 0) + 1
    worker = max(pids, key=pids.get)
    p = path.with_suffix(".worker.ndjson")
    wevs = [e for e in evs if e["pid"] == worker]
    if rc is not None:      # exit status seen by the caller of wild (None: not observed / killed by the harness)
        wevs.append({"ev": "Exit", "rc": int(rc), "pid": worker, "tid": 0, "seq": 0})
    p.write_text("\n".join(json.dumps(e) for e in wevs) + "\n")
    ok, info = tlc.validate_trace("WildTrace", "mc/WildTrace.cfg", p, timeout=300, name=f"wild.{name}")
    return ok, {k: info.get(k) for k in ("unmatched_index", "unmatched_event", "violated")}


def anti_vacuity(cfg, invariant):
    """The design switch turned off must make TLC find the corresponding violation."""
    r = tlc.run_tlc("Lifecycle", cfg, workers=4, timeout=300, coverage=False)
    if r.ok or r.violated != invariant:
        raise ToolError(f"anti-vacuity: {cfg} should violate {invariant}, got ok={r.ok} violated={r.violated}")
    return {"cfg": cfg, "violates": invariant, "states_to_find": r.distinct}


def stage_of(scn):
    if scn["faultAt"] == "none":
        return "no-fault"
    i = PHASES.index(scn["faultAt"])
    if i <= PHASES.index("resolved"):
        return "before-set_size"
    if i <= PHASES.index("pre_write"):
        return "after-set_size"
    if i <= PHASES.index("flushed"):
        return "during-write"
    return "after-write"


def generic_cov(cov):
    cov["evaluations"] = cov["traces_validated_against_impl"]
    cov["distinct_nontrivial"] = cov["traces_validated_against_impl"]
    cov["rule"] = ("scenarios = terminal states of MCLifecycle projected on (fork, multi, prior, shared, wopt, mmapOut, holder, "
                   "faultAt, faultKind, changeAt); each replayed once; all are distinct; non-trivial = the scenario injects a fault, "
                   "a modification or a holder, or checks the fault-free path in a distinct mode")
    return cov


# ---------------------------------------------------------------------------------------------
# Wild.tla itself, and links that end without any injected fault


def pipeline_model():
    """Model-check specs/Wild.tla (phase order, scope nesting, error paths) - small, exhaustive."""
    r = tlc.run_tlc("Wild", "mc/Wild.cfg", workers=2, timeout=300, coverage=True)
    if not r.ok:
        raise ToolError(f"Wild.tla model check failed: {r.violated} {r.error_text}\n{r.trace_text[:1500]}")
    missing = tlc.zero_coverage_actions(r, ["Reach", "GcBegin", "GcEnd", "SmBegin", "SmEnd", "ResBegin", "ResEnd",
                                            "Fault", "LinkError", "ReachAfterError"])
    if missing:
        raise ToolError(f"Wild.tla: actions never taken: {missing}")
    return {"cfg": "mc/Wild.cfg", **r.summary()}


_NAT_OBJ = """
 .section .rodata.str1.1,"aMS",@progbits,1
.Ls{i}: .asciz "hello{i}"
 .asciz "common"
 .section .rodata.cst4,"aM",@progbits,4
 .long {i}
 .text
 .globl f{i}
f{i}: lea .Ls{i}(%rip), %rax
 call f{j}
 ret
"""


def natural_links(ctx, prop, cov):
    """Links that succeed or fail ON THEIR OWN (no injected fault): undefined / duplicate symbol, missing input,
    archive members, several merged-string sections, fork and no-fork, 1..8 threads with seeded yields.  The hook
    trace of each, with the exit status wild's caller saw appended, must be a behaviour of Wild.tla: phases in
    order, the resolution scope between `symbols` and `resolved`, the traversal and string-merge scopes inside
    layout, every protocol event inside its scope, after an error only `verified`/`finished` - and exit status 0
    only for a link that reached `finished` with no error (SuccessMeansFinished)."""
    from .common import run_wild, save_replay, scratch
    n_ok = 0
    kinds = []
    with scratch(prop.lower() + "nat") as d:
        objs = []
        for i in range(6):
            objs.append(asm.write_asm(d, f"n{i}", _NAT_OBJ.format(i=i, j=(i + 1) % 6)))
        m = asm.write_asm(d, "nm", ".globl _start\n_start: call f0\n call maybe_undefined\n ret\n")
        u = asm.write_asm(d, "nu", ".globl maybe_undefined\nmaybe_undefined: ret\n")
        dup = asm.write_asm(d, "ndup", ".globl f0\nf0: ret\n")
        sh(["ar", "rcs", d / "libn.a", *objs[3:], u], check=True)
        full = [m, *objs[:3], d / "libn.a"]
        cases = [
            ("ok-t1", full, ["--threads=1", "--no-fork"], {}, True),
            ("ok-t8-yield", full, ["--threads=8", "--no-fork"], {"WILD_VERIF_YIELD_SEED": ctx.seed}, True),
            ("ok-t4-group1", full, ["--threads=4", "--no-fork"], {"WILD_VERIF_YIELD_SEED": ctx.seed + 1, "WILD_FILES_PER_GROUP": 1}, True),
            ("ok-fork", full, ["--threads=4"], {}, True),
            ("ok-shared", full, ["-shared", "--threads=2", "--no-fork"], {}, True),
            ("undefined-symbol", [m, *objs[:3]], ["--threads=4", "--no-fork"], {}, False),
            ("undefined-symbol-fork", [m, *objs[:3]], ["--threads=2"], {}, False),
            ("duplicate-symbol", [*full, dup], ["--threads=4", "--no-fork"], {}, False),
            ("missing-input", [*full, d / "does-not-exist.o"], ["--threads=2", "--no-fork"], {}, False),
        ]
        for name, inputs, args, env, expect_ok in cases:
            tr = d / f"{name}.ndjson"
            e = {"WILD_VERIF_TRACE": str(tr)}
            e.update({k: str(v) for k, v in env.items()})
            r = run_wild(["-o", d / f"{name}.out", *inputs, *args], env=e, timeout=60)
            kinds.append({"case": name, "rc": r.rc, "events": sum(1 for _ in open(tr)) if tr.exists() else 0})
            if r.timed_out:
                raise ToolError(f"natural link {name} timed out")
            if (r.rc == 0) != expect_ok:
                ctx.verdict.report(f"natural-link-status:{name}", f"link `{name}` exited {r.rc}, expected {'success' if expect_ok else 'failure'}: {r.err[-300:]}",
                                   lambda name=name: save_replay(prop, f"natural-{name}", d))
                continue
            ok, info = validate_pipeline_trace(tr, f"{prop}.nat.{name}", rc=r.rc)
            if ok is None and not expect_ok:
                continue            # failed before the first hook point (e.g. while opening inputs): nothing to validate
            if ok is not True:
                ctx.verdict.report(f"pipeline-trace:{name}",
                                   f"the phase / scope / protocol events and exit status {r.rc} of link `{name}` are not a behaviour of Wild.tla: {info}",
                                   lambda name=name: save_replay(prop, f"natural-{name}", d))
            else:
                n_ok += 1
    cov["natural_link_traces_validated"] = n_ok
    cov["natural_links"] = kinds
    if n_ok < 6:
        raise ToolError(f"only {n_ok} natural link traces were validated")
