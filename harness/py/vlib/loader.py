"""A model of the ELF dynamic loader for x86-64 (and the static relocation decoders for AArch64),
independent of wild: maps the PT_LOADs of one or more modules at chosen bases, resolves symbols in
global lookup order, applies RELA / RELR / JMPREL dynamic relocations, and lets the observer read
the *semantic value* of a relocation site from memory (the field itself, the GOT slot an instruction
designates, the function reached through PLT stubs).

It mirrors specs/Loader.tla (same relocation semantics); the TLA+ module is what decides the
properties on the observations this file exports (LoaderObs.tla), this file is the projection.
"""
import struct

from .elf import Elf, SHN_UNDEF, ElfError

MASK64 = (1 << 64) - 1

R_X86_64 = {0: "NONE", 1: "64", 2: "PC32", 5: "COPY", 6: "GLOB_DAT", 7: "JUMP_SLOT", 8: "RELATIVE",
            10: "32", 11: "32S", 16: "DTPMOD64", 17: "DTPOFF64", 18: "TPOFF64", 24: "PC64", 36: "TLSDESC",
            37: "IRELATIVE"}
R_AARCH64 = {257: "64", 1024: "COPY", 1025: "GLOB_DAT", 1026: "JUMP_SLOT", 1027: "RELATIVE",
             1028: "DTPMOD64", 1029: "DTPOFF64", 1030: "TPOFF64", 1031: "TLSDESC", 1032: "IRELATIVE"}


def sext(v, bits):
    v &= (1 << bits) - 1
    return v - (1 << bits) if v >> (bits - 1) else v


def align_up(v, a):
    a = max(a, 1)
    return (v + a - 1) // a * a


class LoaderError(Exception):
    """The output cannot be loaded the way a dynamic loader would (data, not a tool error)."""


class Module:
    def __init__(self, path, base, name=None):
        self.path = str(path)
        self.elf = Elf(path)
        self.base = base
        self.name = name or self.elf.soname or str(path).split("/")[-1]
        self.segs = []
        for p in self.elf.segments:
            if p["type"] == 1:
                buf = bytearray(p["memsz"])
                buf[:p["filesz"]] = self.elf.data[p["offset"]:p["offset"] + p["filesz"]]
                self.segs.append((p["vaddr"], p["memsz"], buf, p))
        self.tls = next((p for p in self.elf.segments if p["type"] == 7), None)
        self.modid = 0
        self.tpoff = 0            # offset of this module's TLS block from the thread pointer
        self.dyn = {}
        for t, v in self.elf.dynamic:
            self.dyn.setdefault(t, v)
        self._dynsym = None
        self.is_exec = self.elf.e_type == 2 or (self.dyn.get(0x6ffffffb, 0) & 0x08000000) != 0 or \
            any(p["type"] == 3 for p in self.elf.segments)

    @property
    def dynsym(self):
        if self._dynsym is None:
            self._dynsym = self.elf.dynsym
        return self._dynsym

    def contains(self, addr):
        a = addr - self.base
        return any(v <= a < v + n for v, n, _, _ in self.segs)

    def tls_image(self):
        if not self.tls:
            return b""
        p = self.tls
        return self.elf.data[p["offset"]:p["offset"] + p["filesz"]] + bytes(p["memsz"] - p["filesz"])


class Process:
    """modules[0] is the main program. bases: list of load bases (0 for ET_EXEC)."""
    UNRESOLVED = 0xdead00000000beef

    def __init__(self, paths, bases, machine="x86_64", builtins=None):
        self.machine = machine
        # symbols provided by the run-time system itself (ld.so: __tls_get_addr), name -> address
        self.builtins = dict(builtins or {})
        self.mods = [Module(p, b) for p, b in zip(paths, bases)]
        for m in self.mods:
            if m.elf.e_type == 2 and m.base != 0:
                raise LoaderError("ET_EXEC loaded at non-zero base")
        # static TLS layout (variant II: blocks below the thread pointer, main program first)
        off = 0
        mid = 1
        for m in self.mods:
            if m.tls:
                m.modid = mid
                mid += 1
                off = align_up(off + m.tls["memsz"], m.tls["align"])
                m.tpoff = -off
        self.tlsdesc = {}          # absolute slot address -> (modid, offset)
        self.applied = []          # (module index, place, type name, value written)
        self.unresolved_irel = []
        self.relocated = False

    # -- memory ----------------------------------------------------------------------------
    def _seg(self, addr, n=1):
        for m in self.mods:
            a = addr - m.base
            for v, sz, buf, p in m.segs:
                if v <= a and a + n <= v + sz:
                    return m, buf, a - v, p
        return None

    def mapped(self, addr, n=1):
        return self._seg(addr, n) is not None

    def read(self, addr, n):
        s = self._seg(addr, n)
        if s is None:
            raise LoaderError(f"read of unmapped address 0x{addr:x}+{n}")
        _, buf, o, _ = s
        return bytes(buf[o:o + n])

    def write(self, addr, data):
        s = self._seg(addr, len(data))
        if s is None:
            raise LoaderError(f"dynamic relocation writes to unmapped address 0x{addr:x}")
        _, buf, o, _ = s
        buf[o:o + len(data)] = data

    def u64(self, addr):
        return struct.unpack("<Q", self.read(addr, 8))[0]

    def u32(self, addr):
        return struct.unpack("<I", self.read(addr, 4))[0]

    def s32(self, addr):
        return struct.unpack("<i", self.read(addr, 4))[0]

    def segment_flags(self, addr):
        s = self._seg(addr)
        return s[3]["flags"] if s else None

    def find(self, needle, module=None):
        """Run-time addresses of all occurrences of needle in mapped memory."""
        out = []
        for m in self.mods:
            if module is not None and m is not module:
                continue
            for v, sz, buf, _ in m.segs:
                i = buf.find(needle)
                while i >= 0:
                    out.append(m.base + v + i)
                    i = buf.find(needle, i + 1)
        return out

    # -- symbols ---------------------------------------------------------------------------
    def lookup(self, name, skip=None, plt_class=False, copy_class=False):
        """Global symbol lookup in load order. Returns (module, sym) or None.
        plt_class: the reference is a JUMP_SLOT -> an undefined symbol with a value (canonical PLT
        of the executable) does not satisfy it.  copy_class: skip the executable itself."""
        weak = None
        for m in self.mods:
            if copy_class and m is self.mods[0]:
                continue
            if m is skip:
                continue
            for s in m.dynsym:
                if s["name"] != name or s["bind"] not in (1, 2, 10) or s["index"] == 0:
                    continue
                if s["shndx"] == SHN_UNDEF:
                    if s["value"] != 0 and s["type"] == 2 and not plt_class:
                        return m, s           # canonical PLT entry of the executable
                    continue
                if s["type"] not in (0, 1, 2, 5, 6, 10):
                    continue
                return m, s                   # first definition wins (weak == global at run time)
        return weak

    def sym_address(self, m, s):
        if s["shndx"] == 0xfff1:
            return s["value"]
        return (m.base + s["value"]) & MASK64

    def resolve_ifunc(self, resolver_addr):
        """The generated resolvers are `lea target(%rip),%rax; ret` (optionally after endbr64)."""
        a = resolver_addr
        b = self.read(a, 12)
        if b[:4] == b"\xf3\x0f\x1e\xfa":
            a += 4
            b = self.read(a, 8)
        if b[:3] == b"\x48\x8d\x05" and b[7] == 0xc3:
            return (a + 7 + sext(struct.unpack("<I", b[3:7])[0], 32)) & MASK64
        raise LoaderError(f"cannot interpret ifunc resolver at 0x{resolver_addr:x}: {b.hex()}")

    # -- relocation ------------------------------------------------------------------------
    def _dyn_relas(self, m):
        out = []
        d = m.dyn
        e = m.elf

        def table(addr, size):
            off = e.vaddr_to_off(addr)
            if off is None:
                raise LoaderError(f"dynamic table at 0x{addr:x} not in a loaded segment")
            for i in range(size // 24):
                o, info, add = struct.unpack_from("<QQq", e.data, off + i * 24)
                out.append((o, info & 0xffffffff, info >> 32, add))

        if not d:
            # static executable without PT_DYNAMIC: libc's startup applies [__rela_iplt_start, __rela_iplt_end)
            a = e.symbol("__rela_iplt_start")
            b = e.symbol("__rela_iplt_end")
            if a and b and b["value"] > a["value"]:
                table(a["value"], b["value"] - a["value"])
            return out
        if 7 in d and d.get(8, 0):
            table(d[7], d[8])
        if 23 in d and d.get(2, 0):
            if d.get(20, 7) != 7:
                raise LoaderError("DT_PLTREL is not RELA")
            table(d[23], d[2])
        return out

    def relr_entries(self, m):
        d = m.dyn
        if 36 not in d or not d.get(35, 0):
            return []
        off = m.elf.vaddr_to_off(d[36])
        if off is None:
            raise LoaderError("DT_RELR not in a loaded segment")
        return [struct.unpack_from("<Q", m.elf.data, off + 8 * i)[0] for i in range(d[35] // 8)]

    @staticmethod
    def relr_decode(entries):
        """Places covered by a RELR table (even entry = address, odd entry = bitmap over the next 63 words)."""
        out, where = [], None
        for e in entries:
            if e & 1 == 0:
                out.append(e)
                where = e + 8
            else:
                if where is None:
                    raise LoaderError("RELR bitmap entry before any address entry")
                for i in range(63):
                    if (e >> (i + 1)) & 1:
                        out.append(where + 8 * i)
                where += 63 * 8
        return out

    def relocate(self):
        names = R_X86_64 if self.machine == "x86_64" else R_AARCH64
        irel = []
        copies = []
        for mi in reversed(range(len(self.mods))):       # dependencies first, like ld.so
            m = self.mods[mi]
            B = m.base
            for place in self.relr_decode(self.relr_entries(m)):
                a = (B + place) & MASK64
                v = (self.u64(a) + B) & MASK64
                self.write(a, struct.pack("<Q", v))
                self.applied.append((mi, a, "RELR", v))
            syms = m.dynsym
            for off, typ, symi, add in self._dyn_relas(m):
                t = names.get(typ)
                a = (B + off) & MASK64
                if t is None:
                    raise LoaderError(f"unsupported dynamic relocation type {typ} in {m.name}")
                if t == "NONE":
                    continue
                if t == "RELATIVE":
                    v = (B + add) & MASK64
                    self.write(a, struct.pack("<Q", v))
                    self.applied.append((mi, a, t, v))
                    continue
                if t == "IRELATIVE":
                    irel.append((mi, a, (B + add) & MASK64))
                    continue
                s = syms[symi] if symi < len(syms) else None
                if s is None:
                    raise LoaderError(f"dynamic relocation refers to symbol index {symi} out of range")
                target = None
                tm = m
                if symi != 0:
                    if s["bind"] == 0:      # local symbol: binds to itself
                        target = (m, s)
                    else:
                        target = self.lookup(s["name"], plt_class=(t == "JUMP_SLOT"), copy_class=(t == "COPY"))
                    if target is None:
                        if s["name"] in self.builtins:
                            v = self.builtins[s["name"]]
                            self.write(a, struct.pack("<Q", v))
                            self.applied.append((mi, a, t, v))
                            continue
                        if s["bind"] != 2:
                            raise LoaderError(f"undefined symbol {s['name']} (relocation {t} in {m.name})")
                    else:
                        tm = target[0]
                S = self.sym_address(*target) if target else 0
                if target and target[1]["type"] == 10 and t in ("64", "GLOB_DAT", "JUMP_SLOT"):
                    try:
                        S = self.resolve_ifunc(S)
                    except LoaderError:
                        S = self.UNRESOLVED
                if t in ("64", "GLOB_DAT", "JUMP_SLOT"):
                    v = (S + (add if t == "64" or self.machine != "x86_64" else 0)) & MASK64
                    if t != "64" and self.machine == "x86_64":
                        v = S
                    self.write(a, struct.pack("<Q", v))
                elif t == "PC32":
                    v = (S + add - a) & 0xffffffff
                    self.write(a, struct.pack("<I", v))
                elif t in ("32", "32S"):
                    v = (S + add) & 0xffffffff
                    self.write(a, struct.pack("<I", v))
                elif t == "PC64":
                    v = (S + add - a) & MASK64
                    self.write(a, struct.pack("<Q", v))
                elif t == "COPY":
                    if target is None:
                        raise LoaderError(f"COPY relocation for {s['name']}: no definition in a library")
                    copies.append((mi, a, S, s["size"], s["name"]))
                    v = S
                elif t == "DTPMOD64":
                    v = tm.modid
                    self.write(a, struct.pack("<Q", v))
                elif t == "DTPOFF64":
                    v = ((target[1]["value"] if target else 0) + add) & MASK64
                    self.write(a, struct.pack("<Q", v))
                elif t == "TPOFF64":
                    if symi != 0 and target is None:
                        v = 0
                    else:
                        v = (tm.tpoff + (target[1]["value"] if target else 0) + add) & MASK64
                    self.write(a, struct.pack("<Q", v))
                elif t == "TLSDESC":
                    v = ((target[1]["value"] if target else 0) + add) & MASK64
                    self.tlsdesc[a] = (tm.modid, v)
                else:
                    raise LoaderError(f"unhandled relocation {t}")
                self.applied.append((mi, a, t, v))
        for mi, a, S, size, name in copies:
            self.write(a, self.read(S, size))
        for mi, a, resolver in irel:
            try:
                v = self.resolve_ifunc(resolver)
            except LoaderError:
                # a resolver of real library code (libc.a): its result is not modelled; the slot is
                # poisoned so that a site depending on it cannot pass by accident
                v = self.UNRESOLVED
                self.unresolved_irel.append(a)
            self.write(a, struct.pack("<Q", v))
            self.applied.append((mi, a, "IRELATIVE", v))
        self.relocated = True
        return self

    # -- TLS ---------------------------------------------------------------------------------
    def tls_locate_tpoff(self, tpoff):
        """(module, offset in its TLS block) designated by a thread-pointer-relative offset."""
        tpoff = sext(tpoff, 64)
        for m in self.mods:
            if m.tls and m.tpoff <= tpoff < m.tpoff + m.tls["memsz"]:
                return m, tpoff - m.tpoff
        return None

    def tls_locate_mod(self, modid, off):
        for m in self.mods:
            if m.tls and m.modid == modid:
                return m, off
        return None

    def tls_word(self, m, off):
        img = m.tls_image()
        if off < 0 or off + 8 > len(img):
            return None
        return struct.unpack_from("<Q", img, off)[0]

    # -- x86-64 code following ----------------------------------------------------------------
    def follow(self, addr, limit=4):
        """Follow PLT-style stubs (`[endbr64] [bnd] jmp *disp(%rip)`) from addr to the final target."""
        for _ in range(limit):
            if not self.mapped(addr, 16):
                return addr
            b = self.read(addr, 16)
            o = 0
            if b[:4] == b"\xf3\x0f\x1e\xfa":
                o = 4
            if b[o] == 0xf2:
                o += 1
            if b[o] == 0xff and b[o + 1] == 0x25:
                disp = sext(struct.unpack_from("<I", b, o + 2)[0], 32)
                slot = addr + o + 6 + disp
                addr = self.u64(slot)
                continue
            return addr
        return addr

    def func_identity(self, addr):
        """Identity of a generated function body `mov $ID,%eax; ret` (after following stubs)."""
        a = self.follow(addr)
        if not self.mapped(a, 6):
            return a, None
        b = self.read(a, 6)
        if b[0] == 0xb8 and b[5] == 0xc3:
            return a, struct.unpack_from("<I", b, 1)[0]
        return a, None


# -------------------------------------------------------------------------------------------------
# x86-64 site decoding: what value does the instruction at this relocation site produce?


class Decoded:
    """form: how the value is obtained; value: the 64-bit semantic value (address / tp offset /
    (mod,off) pair for dynamic TLS); slot: the GOT slot address if one is designated;
    field: raw field value."""

    def __init__(self, form, value, slot=None, field=None, extra=None):
        self.form, self.value, self.slot, self.field, self.extra = form, value, slot, field, extra or {}

    def to_json(self):
        return {"form": self.form, "value": self.value if not isinstance(self.value, tuple) else list(self.value),
                "slot": self.slot, "field": self.field, **self.extra}


def decode_x86_site(pr, kind, P, P2=None):
    """pr: relocated Process; kind: reference kind of relocgen; P: run-time address of the (first)
    relocation field; P2: address of the second field for composite sites."""
    r = pr.read
    if kind in ("abs64", "abs64m"):
        return Decoded("field64", pr.u64(P), field=pr.u64(P))
    if kind == "abs32":
        return Decoded("field32z", pr.u32(P), field=pr.u32(P))
    if kind == "abs32z":
        return Decoded("field32z", pr.u32(P), field=pr.u32(P))
    if kind == "abs32s":
        return Decoded("field32s", pr.s32(P) & MASK64, field=pr.s32(P))
    if kind == "pc32d":
        f = pr.s32(P)
        return Decoded("pcrel32", (P + f) & MASK64, field=f)
    if kind == "pc64d":
        f = sext(pr.u64(P), 64)
        return Decoded("pcrel64", (P + f) & MASK64, field=f)
    if kind == "pc32":            # lea sym+A(%rip),%rax: value = P + 4 + field
        f = pr.s32(P)
        return Decoded("pcrel32", (P + 4 + f) & MASK64, field=f)
    if kind == "plt32":           # call: target = P + 4 + field, followed through stubs
        f = pr.s32(P)
        t = (P + 4 + f) & MASK64
        return Decoded("branch", pr.follow(t), field=f, extra={"first_target": t})
    if kind == "gotpcrel_d":      # .long sym@GOTPCREL in data: slot = P + field
        f = pr.s32(P)
        slot = (P + f) & MASK64
        return Decoded("gotslot", pr.u64(slot), slot=slot, field=f)
    if kind in ("gotpcrel", "rex_gotpcrelx", "gotpcrelx_mov32"):
        op = r(P - 2, 2)
        f = pr.s32(P)
        wide = kind != "gotpcrelx_mov32" and (r(P - 3, 1)[0] & 0x48) == 0x48
        if op[0] == 0x8b:         # mov disp(%rip),reg : load from the slot
            slot = (P + 4 + f) & MASK64
            v = pr.u64(slot)
            return Decoded("gotslot", v if wide else v & 0xffffffff, slot=slot, field=f)
        if op[0] == 0x8d:         # relaxed to lea
            v = (P + 4 + f) & MASK64
            return Decoded("lea", v if wide else v & 0xffffffff, field=f)
        if op[0] == 0xc7:         # relaxed to mov $imm32,reg
            rexw = kind != "gotpcrelx_mov32" and (r(P - 3, 1)[0] & 0x48) == 0x48
            v = (f & MASK64) if rexw else (f & 0xffffffff)
            return Decoded("imm32s" if rexw else "imm32z", v, field=f)
        raise LoaderError(f"unrecognised instruction at GOT site: {r(P - 3, 3).hex()}")
    if kind == "gotpcrelx_call":
        op = r(P - 2, 2)
        f = pr.s32(P)
        if op == b"\xff\x15":
            slot = (P + 4 + f) & MASK64
            return Decoded("gotslot", pr.follow(pr.u64(slot)), slot=slot, field=f, extra={"slotval": pr.u64(slot)})
        if op == b"\x67\xe8":
            return Decoded("branch", pr.follow((P + 4 + f) & MASK64), field=f)
        if op[1] == 0xe8 and False:
            pass
        # GNU ld alternative: `call rel32; nop` with the field one byte earlier
        if r(P - 2, 1) == b"\xe8":
            f2 = pr.s32(P - 1)
            return Decoded("branch", pr.follow((P - 1 + 4 + f2) & MASK64), field=f2)
        raise LoaderError(f"unrecognised instruction at call site: {r(P - 2, 6).hex()}")
    if kind == "gotpcrelx_jmp":
        op = r(P - 2, 2)
        if op == b"\xff\x25":
            f = pr.s32(P)
            slot = (P + 4 + f) & MASK64
            return Decoded("gotslot", pr.follow(pr.u64(slot)), slot=slot, field=f, extra={"slotval": pr.u64(slot)})
        if op[0] == 0xe9:
            f = pr.s32(P - 1)
            return Decoded("branch", pr.follow((P - 1 + 4 + f) & MASK64), field=f)
        raise LoaderError(f"unrecognised instruction at jmp site: {r(P - 2, 6).hex()}")
    if kind in ("gotoff64", "got64", "pltoff64"):
        g = pr.s32(P)                                  # lea _GLOBAL_OFFSET_TABLE_(%rip),%rbx
        got = (P + 4 + g) & MASK64
        f = pr.u64(P2)
        if kind == "gotoff64":
            return Decoded("gotoff", (got + f) & MASK64, field=f, extra={"got": got})
        if kind == "got64":
            slot = (got + f) & MASK64
            return Decoded("gotslot", pr.u64(slot), slot=slot, field=f, extra={"got": got})
        return Decoded("branch", pr.follow((got + f) & MASK64), field=f, extra={"got": got})
    # ---- TLS
    if kind == "tpoff32":
        f = pr.s32(P)
        return Decoded("tpoff", f & MASK64, field=f)
    if kind == "dtpoff64":
        return Decoded("dtpoff", pr.u64(P), field=pr.u64(P))
    if kind == "gottpoff_mov":
        op = r(P - 2, 1)[0]
        f = pr.s32(P)
        if op == 0x8b:
            slot = (P + 4 + f) & MASK64
            return Decoded("tpoff-slot", pr.u64(slot), slot=slot, field=f)
        if op == 0xc7:
            return Decoded("tpoff", f & MASK64, field=f)
        raise LoaderError(f"unrecognised GOTTPOFF mov form {r(P - 3, 3).hex()}")
    if kind == "gottpoff_add":
        op = r(P - 2, 1)[0]
        f = pr.s32(P)
        if op == 0x03:
            slot = (P + 4 + f) & MASK64
            return Decoded("tpoff-slot", pr.u64(slot), slot=slot, field=f)
        if op in (0x81, 0x8d):
            return Decoded("tpoff", f & MASK64, field=f)
        raise LoaderError(f"unrecognised GOTTPOFF add form {r(P - 3, 3).hex()}")
    if kind == "tlsgd":
        if r(P - 3, 3) == b"\x48\x8d\x3d":
            f = pr.s32(P)
            slot = (P + 4 + f) & MASK64
            return Decoded("tls-modoff", (pr.u64(slot), pr.u64(slot + 8)), slot=slot, field=f)
        seq = r(P - 4, 12)
        if seq[:9] == b"\x64\x48\x8b\x04\x25\x00\x00\x00\x00":
            if seq[9:12] == b"\x48\x8d\x80":
                f = pr.s32(P + 8)
                return Decoded("tpoff", f & MASK64, field=f)
            if seq[9:12] == b"\x48\x03\x05":
                f = pr.s32(P + 8)
                slot = (P + 12 + f) & MASK64
                return Decoded("tpoff-slot", pr.u64(slot), slot=slot, field=f)
        raise LoaderError(f"unrecognised TLSGD form {r(P - 4, 16).hex()}")
    if kind == "tlsld":
        f2 = pr.s32(P2)
        if r(P - 3, 3) == b"\x48\x8d\x3d":
            f = pr.s32(P)
            slot = (P + 4 + f) & MASK64
            return Decoded("tls-modoff", (pr.u64(slot), (pr.u64(slot + 8) + f2) & MASK64), slot=slot, field=f)
        return Decoded("tpoff", f2 & MASK64, field=f2)
    if kind == "tlsdesc":
        op = r(P - 2, 1)[0]
        f = pr.s32(P)
        if op == 0x8d:
            slot = (P + 4 + f) & MASK64
            if slot not in pr.tlsdesc:
                raise LoaderError(f"TLSDESC slot 0x{slot:x} has no TLSDESC dynamic relocation")
            return Decoded("tls-modoff", pr.tlsdesc[slot], slot=slot, field=f)
        if op == 0xc7:
            return Decoded("tpoff", f & MASK64, field=f)
        if op == 0x8b:
            slot = (P + 4 + f) & MASK64
            return Decoded("tpoff-slot", pr.u64(slot), slot=slot, field=f)
        raise LoaderError(f"unrecognised TLSDESC form {r(P - 3, 3).hex()}")
    raise LoaderError(f"no decoder for site kind {kind}")


# -------------------------------------------------------------------------------------------------
# AArch64 static relocation decoding (no execution available)


def a64_insn(pr, addr):
    return pr.u32(addr)


def a64_adrp_page(insn, pc):
    immlo = (insn >> 29) & 3
    immhi = (insn >> 5) & 0x7ffff
    imm = sext((immhi << 2) | immlo, 21)
    return ((pc & ~0xfff) + (imm << 12)) & MASK64


def a64_adr(insn, pc):
    immlo = (insn >> 29) & 3
    immhi = (insn >> 5) & 0x7ffff
    return (pc + sext((immhi << 2) | immlo, 21)) & MASK64


def a64_imm12(insn):
    return (insn >> 10) & 0xfff


def a64_branch_target(insn, pc):
    return (pc + (sext(insn & 0x3ffffff, 26) << 2)) & MASK64


def a64_follow(pr, addr, limit=4):
    """Follow wild/ld AArch64 PLT entries and range thunks: adrp x16; ldr x17,[x16,#lo]; (add x16); br x17."""
    for _ in range(limit):
        if not pr.mapped(addr, 16):
            return addr
        i0, i1, i2, i3 = struct.unpack("<4I", pr.read(addr, 16))
        if (i0 & 0x9f00001f) == 0x90000010:
            page = a64_adrp_page(i0, addr)
            if (i1 & 0xffc003ff) == 0xf9400211:          # ldr x17,[x16,#imm]
                slot = page + a64_imm12(i1) * 8
                br = i2 if (i2 & 0xfffffc1f) == 0xd61f0000 else i3
                if (br & 0xfffffc1f) == 0xd61f0000:
                    addr = pr.u64(slot)
                    continue
            if (i1 & 0xffc003ff) == 0x91000210 and (i2 & 0xfffffc1f) == 0xd61f0000:   # add x16,x16,#lo ; br x16
                addr = page + a64_imm12(i1)
                continue
        return addr
    return addr


def decode_a64_site(pr, kind, P):
    """P: address of the (first) instruction / data word carrying the relocation."""
    if kind == "abs64":
        return Decoded("field64", pr.u64(P))
    if kind == "abs32":
        return Decoded("field32z", pr.u32(P))
    if kind == "prel32":
        return Decoded("pcrel32", (P + pr.s32(P)) & MASK64)
    if kind == "prel64":
        return Decoded("pcrel64", (P + sext(pr.u64(P), 64)) & MASK64)
    if kind in ("call26", "jump26"):
        t = a64_branch_target(pr.u32(P), P)
        return Decoded("branch", a64_follow(pr, t), extra={"first_target": t})
    if kind == "adr_lo21":
        return Decoded("adr", a64_adr(pr.u32(P), P))
    if kind == "adrp_add":
        i0, i1 = pr.u32(P), pr.u32(P + 4)
        if (i0 & 0x9f000000) == 0x10000000:               # relaxed to adr + nop / nop + adr
            return Decoded("adr", a64_adr(i0, P))
        if i0 == 0xd503201f and (i1 & 0x9f000000) == 0x10000000:
            return Decoded("adr", a64_adr(i1, P + 4))
        return Decoded("page+lo12", (a64_adrp_page(i0, P) + a64_imm12(i1)) & MASK64)
    if kind in ("adrp_ldst64", "adrp_ldst32", "adrp_ldst8"):
        scale = {"adrp_ldst64": 8, "adrp_ldst32": 4, "adrp_ldst8": 1}[kind]
        i0, i1 = pr.u32(P), pr.u32(P + 4)
        return Decoded("page+lo12", (a64_adrp_page(i0, P) + a64_imm12(i1) * scale) & MASK64)
    if kind == "got":
        i0, i1 = pr.u32(P), pr.u32(P + 4)
        if (i1 & 0xffc00000) == 0xf9400000 and (i0 & 0x9f000000) == 0x90000000:   # adrp + ldr: GOT load
            slot = (a64_adrp_page(i0, P) + a64_imm12(i1) * 8) & MASK64
            return Decoded("gotslot", pr.u64(slot), slot=slot)
        if (i0 & 0x9f000000) == 0x90000000 and (i1 & 0xffc00000) == 0x91000000:   # relaxed: adrp + add
            return Decoded("page+lo12", (a64_adrp_page(i0, P) + a64_imm12(i1)) & MASK64)
        if (i0 & 0x9f000000) == 0x10000000:
            return Decoded("adr", a64_adr(i0, P))
        if i0 == 0xd503201f and (i1 & 0x9f000000) == 0x10000000:
            return Decoded("adr", a64_adr(i1, P + 4))
        raise LoaderError(f"unrecognised AArch64 GOT sequence {i0:08x} {i1:08x}")
    if kind == "tlsle":
        i0, i1 = pr.u32(P), pr.u32(P + 4)                   # add x0,x0,#hi12,lsl12 ; add x0,x0,#lo12
        hi = a64_imm12(i0) << 12 if (i0 >> 22) & 1 else a64_imm12(i0)
        return Decoded("tpoff", hi + a64_imm12(i1))
    if kind == "tlsie":
        i0, i1 = pr.u32(P), pr.u32(P + 4)
        if (i0 & 0x9f000000) == 0x90000000 and (i1 & 0xffc00000) == 0xf9400000:
            slot = (a64_adrp_page(i0, P) + a64_imm12(i1) * 8) & MASK64
            return Decoded("tpoff-slot", pr.u64(slot), slot=slot)
        # relaxed to movz/movk
        if (i0 & 0xff800000) == 0xd2800000 | (0 << 21) or (i0 & 0x7f800000) == 0x52800000:
            hw0 = (i0 >> 21) & 3
            v = ((i0 >> 5) & 0xffff) << (16 * hw0)
            if (i1 & 0x7f800000) == 0x72800000:
                hw1 = (i1 >> 21) & 3
                v = (v & ~(0xffff << (16 * hw1))) | (((i1 >> 5) & 0xffff) << (16 * hw1))
            return Decoded("tpoff", v)
        raise LoaderError(f"unrecognised AArch64 TLSIE sequence {i0:08x} {i1:08x}")
    raise LoaderError(f"no AArch64 decoder for {kind}")


def limbs(v):
    """64-bit value -> the 3-limb representation used by specs/LoaderW.tla (24,24,16 bits)."""
    v &= MASK64
    return [v & 0xffffff, (v >> 24) & 0xffffff, (v >> 48) & 0xffff]
