"""C38 generator/observer: an executable E (PIE or not) and two shared libraries L1, L2 sharing one
function or object x; every module computes the address of x in the way the scenario record says
(GOT load / pointer in data / direct non-PIC reference) and exports view/load/store/call helpers;
E's _start compares all views, checks the initial value and that stores through one view are read
through the others, writes the views to stdout and exits 0 / n.  Records come from MCLoaderMM."""
import struct
from pathlib import Path

from .asm import assemble
from .common import ToolError, run_wild, sh
from .loader import LoaderError, MASK64, Process, decode_x86_site
from .relocgen import LDSO, NOTE, mk

MODS = ["E", "L1", "L2"]
FUNC_ID = 0x4242
DATA_INIT = 0x1111


def scenario_name(r):
    return f"mm-{r['kind']}-def{r['def']}-{'pie' if r['pie'] else 'nopie'}-E{r['refE']}-L1{r['refL1']}-L2{r['refL2']}" + \
           (f"-{r['direct']}" if r.get("direct") else "") + \
           (f"-alias{int(r.get('aliasE', False))}{int(r.get('aliasL1', False))}{int(r.get('aliasL2', False))}" if r.get("alias") else "")


def view_code(m, ref, rec):
    code, data = _view_code(m, ref, rec)
    if rec.get("alias") and rec.get("alias" + m):
        # this module names the object by its weak alias
        code = code.replace("x@GOTPCREL", "xw@GOTPCREL").replace("$x,", "$xw,").replace("lea x(", "lea xw(")
        data = data.replace(".quad x\n", ".quad xw\n")
    return code, data


def _view_code(m, ref, rec):
    mark = f"    jmp 9f\n    .balign 8\n    .ascii \"{mk('site_' + m)}\"\n9:\n"
    if ref == "got":
        return mark + "    movq x@GOTPCREL(%rip), %rax\n    ret\n", ""
    if ref == "dataptr":
        return f"    mov ptr_{m}(%rip), %rax\n    ret\n", \
               f'.section .data.ptr,"aw",@progbits\n.balign 8\n.ascii "{mk("site_" + m)}"\nptr_{m}: .quad x\n'
    if ref == "direct":
        if rec.get("direct", "pc32") == "abs32" and not rec["pie"]:
            return mark + "    movl $x, %eax\n    ret\n", ""
        return mark + "    lea x(%rip), %rax\n    ret\n", ""
    return "    xor %eax, %eax\n    ret\n", ""


def module_source(m, rec):
    ref = rec["ref" + m]
    t = NOTE
    code, data = view_code(m, ref, rec)
    vis = "" if m == "E" else ""
    t += f""".text
.globl view_{m}, load_{m}, store_{m}, call_{m}
.type view_{m},@function
.type load_{m},@function
.type store_{m},@function
.type call_{m},@function
view_{m}:
.Lview_{m}:
{code}load_{m}:
    call .Lview_{m}
    mov (%rax), %rax
    ret
store_{m}:
    push %rdi
    call .Lview_{m}
    pop %rdi
    mov %rdi, (%rax)
    ret
call_{m}:
    sub $8, %rsp
    call .Lview_{m}
    call *%rax
    add $8, %rsp
    ret
"""
    if rec["def"] == m:
        if rec["kind"] == "func":
            t += f""".balign 8
.ascii "{mk('x_def')}"
.globl x
.type x,@function
x:
    mov ${FUNC_ID}, %eax
    ret
.size x, .-x
"""
        else:
            t += f""".data
.balign 8
.ascii "{mk('x_def')}"
.globl x
.type x,@object
.size x,8
x: .quad {DATA_INIT}
"""
            if rec.get("alias"):
                # a second, weak name for the same object (the __environ / environ pattern)
                t += ".weak xw\n.type xw,@object\n.size xw,8\n.set xw, x\n"
    t += data
    if m == "E":
        users = [k for k in MODS if rec["ref" + k] != "none"]
        s = """.text
.globl _start
_start:
    sub $8, %rsp
    call view_E
    mov %rax, vbuf(%rip)
    call view_L1@PLT
    mov %rax, vbuf+8(%rip)
    call view_L2@PLT
    mov %rax, vbuf+16(%rip)
    mov $1, %eax
    mov $1, %edi
    lea vbuf(%rip), %rsi
    mov $24, %edx
    syscall
"""
        first = users[0]
        idx = {"E": 0, "L1": 8, "L2": 16}
        for u in users[1:]:
            s += f"    mov vbuf+{idx[first]}(%rip), %rax\n    cmp vbuf+{idx[u]}(%rip), %rax\n    mov $1, %edi\n    jne 7f\n"
        plt = {"E": "", "L1": "@PLT", "L2": "@PLT"}
        if rec["kind"] == "data":
            for u in users:
                s += f"    call load_{u}{plt[u]}\n    cmp ${DATA_INIT}, %rax\n    mov $2, %edi\n    jne 7f\n"
            val = 0x77
            for w in users:
                s += f"    mov ${val}, %edi\n    call store_{w}{plt[w]}\n"
                for u in users:
                    s += f"    call load_{u}{plt[u]}\n    cmp ${val}, %rax\n    mov $3, %edi\n    jne 7f\n"
                val += 1
        else:
            for u in users:
                s += f"    call call_{u}{plt[u]}\n    cmp ${FUNC_ID}, %eax\n    mov $4, %edi\n    jne 7f\n"
        s += """    xor %edi, %edi
7:
    mov $60, %eax
    syscall
.section .bss
.balign 8
vbuf: .skip 24
"""
        t += s
    return t


def build(rec, d):
    d = Path(d)
    d.mkdir(parents=True, exist_ok=True)
    objs = {}
    for m in MODS:
        p = d / f"{m}.s"
        p.write_text(module_source(m, rec))
        objs[m] = assemble(p)
    return objs


def link_all(rec, objs, d, who):
    """who: dict module -> 'wild' | 'ld'. Returns (ok, paths, log)."""
    d = Path(d)
    d.mkdir(parents=True, exist_ok=True)
    logs = {}

    def lk(m, args):
        if who[m] == "wild":
            r = run_wild(args, timeout=60)
        else:
            r = sh(["ld"] + args, timeout=60)
        logs[m] = {"rc": r.rc, "err": r.err[-600:], "args": [str(a) for a in args], "linker": who[m]}
        return r.rc == 0 and not r.timed_out

    l2 = d / "libmm2.so"
    l1 = d / "libmm1.so"
    exe = d / "exe"
    if not lk("L2", ["-shared", "-soname", "libmm2.so", str(objs["L2"]), "-o", str(l2)]):
        return False, None, logs
    if not lk("L1", ["-shared", "-soname", "libmm1.so", str(objs["L1"]), str(l2), "-o", str(l1)]):
        return False, None, logs
    a = (["-pie"] if rec["pie"] else (["-no-pie"] if who["E"] == "ld" else [])) + \
        [str(objs["E"]), str(l1), str(l2), "-dynamic-linker", LDSO, "-o", str(exe)]
    if who["E"] == "ld":
        a += ["-rpath-link", str(d)]
    if not lk("E", a):
        return False, None, logs
    return True, [exe, l1, l2], logs


def run_native(paths, times=2):
    d = Path(paths[0]).parent
    outs = []
    for _ in range(times):
        p = sh([paths[0]], timeout=20, env={"LD_LIBRARY_PATH": str(d), "LD_BIND_NOW": "1"})
        views = list(struct.unpack("<3Q", p.out.encode("latin-1", "replace")[:24])) if False else None
        outs.append(p.rc if not p.timed_out else -999)
    return outs


def run_native_raw(paths):
    """exit code and the three views as printed by the program (binary)."""
    import subprocess
    d = Path(paths[0]).parent
    try:
        p = subprocess.run([str(paths[0])], capture_output=True, timeout=20,
                           env={"LD_LIBRARY_PATH": str(d), "LD_BIND_NOW": "1", "PATH": "/usr/bin:/bin"})
    except subprocess.TimeoutExpired:
        return -999, None
    views = list(struct.unpack("<3Q", p.stdout[:24])) if len(p.stdout) >= 24 else None
    return p.returncode, views


def observe(rec, paths, which=1):
    """Static observation with the loader model: the address each module's view yields."""
    bases = [0 if not rec["pie"] else (0x55d52b5f7000 if which else 0x10000000),
             0x7f1234567000 if which else 0x20000000, 0x7f1250653000 if which else 0x30000000]
    pr = Process(paths, bases).relocate()
    views = {}
    for i, m in enumerate(MODS):
        ref = rec["ref" + m]
        if ref == "none":
            continue
        site = pr.find(mk("site_" + m).encode(), pr.mods[i])
        if len(site) != 1:
            raise ToolError(f"site marker of {m} not found exactly once")
        s = site[0] + len(mk("site_" + m))
        if ref == "got":
            dec = decode_x86_site(pr, "rex_gotpcrelx", s + 3)
        elif ref == "dataptr":
            dec = decode_x86_site(pr, "abs64", s)
        elif rec.get("direct", "pc32") == "abs32" and not rec["pie"]:
            dec = decode_x86_site(pr, "abs32z", s + 1)
        else:
            dec = decode_x86_site(pr, "pc32", s + 3)
        views[m] = dec.value
    di = MODS.index(rec["def"])
    xdef = pr.find(mk("x_def").encode(), pr.mods[di])
    if len(xdef) != 1:
        raise ToolError("definition marker not found")
    body = xdef[0] + len(mk("x_def"))
    ident = {}
    for m, v in views.items():
        if rec["kind"] == "data":
            ident[m] = pr.mapped(v, 8) and pr.u64(v) == DATA_INIT
        else:
            ident[m] = pr.mapped(v, 1) and pr.follow(v) == body
    return {"views": views, "ident": ident, "def": body, "bases": bases}
