"""C22: valid seed inputs for every carrier and the application of a mutation descriptor
(carrier, locus, mutation) from specs/Robust.tla to them.  Pure byte surgery; no dependence on wild."""
import os
import re
import shutil
import struct
from pathlib import Path

from . import asm
from .common import ToolError, sh
from .elf import Elf

SEED_S = r'''
    .file "seed.c"
    .text
    .globl _start
    .type _start,@function
_start:
    .cfi_startproc
    call helper
    call comdat_fn
    call aux_fn
    lea msg(%rip), %rax
    mov gvar(%rip), %rbx
    movq %fs:tlsv@tpoff, %rcx
    lea cst(%rip), %rdx
    mov commonv(%rip), %rsi
    mov $60, %eax
    xor %edi, %edi
    syscall
    .cfi_endproc
    .size _start, .-_start
    .type local_fn,@function
local_fn:
    .cfi_startproc
    ret
    .cfi_endproc
    .size local_fn, .-local_fn
    .globl helper
    .type helper,@function
helper:
    .cfi_startproc
    call local_fn
    call undef_weak@PLT
    ret
    .cfi_endproc
    .size helper, .-helper
    .weak undef_weak
    .section .text.comdat_fn,"axG",@progbits,comdat_fn,comdat
    .weak comdat_fn
    .type comdat_fn,@function
comdat_fn:
    ret
    .size comdat_fn, .-comdat_fn
    .data
    .globl gvar
    .type gvar,@object
gvar:
    .quad helper
    .quad local_fn
    .size gvar, 16
    .bss
bssv:
    .zero 16
    .comm commonv,8,8
    .section .rodata.str1.1,"aMS",@progbits,1
msg:
    .string "hello"
    .string "world"
    .section .rodata.cst8,"aM",@progbits,8
cst:
    .quad 42
    .section .tdata,"awT",@progbits
    .globl tlsv
    .type tlsv,@object
tlsv:
    .long 7
    .size tlsv, 4
    .section .init_array,"aw",@init_array
    .quad local_fn
    .section .debug_str,"MS",@progbits,1
    .string "some debug string some debug string some debug string some debug string some debug string"
    .string "another debug string another debug string another debug string another debug string"
    .section .note.gnu.property,"a",@note
    .balign 8
    .long 4
    .long 16
    .long 5
    .asciz "GNU"
    .long 0xc0000002
    .long 4
    .long 3
    .long 0
    .section .note.GNU-stack,"",@progbits
'''

AUX_S = r'''
    .text
    .globl aux_fn
    .type aux_fn,@function
aux_fn:
    .cfi_startproc
    lea gvar(%rip), %rax
    ret
    .cfi_endproc
    .size aux_fn, .-aux_fn
    .section .note.GNU-stack,"",@progbits
'''

LINKER_SCRIPT = '''ENTRY(_start)
INPUT(aux.o)
SECTIONS {
  . = 0x400000;
  .text : { start_of_text = .; *(.text .text.*) }
  .rodata : { *(.rodata .rodata.*) }
  . = ALIGN(4096);
  .data : ALIGN(16) { KEEP(*(.data .data.*)) }
  .tdata : { *(.tdata) }
  .bss : { *(.bss) *(COMMON) }
}
ASSERT(ALIGNOF(.text) == ALIGNOF(.text), "expected alignment")
'''
# three nodes in a parent chain; the parent references lie within the first 24 tokens
VERSION_SCRIPT = '''VER1 { global: seed_fn; local: *; };
VER2 { global: other*; } VER1;
VER3 { global: _start; extern "C++" { "foo()"; }; } VER2;
'''
EXPORT_LIST = '''{ seed_fn; "quoted"; extern "C++" { a*; }; _start; };
'''
RESPONSE_FILE = '''seed.o "aux.o" -o 'out' --gc-sections
-z now --threads=1
'''


def _w(path, text):
    Path(path).write_text(text)
    return Path(path)


def build_seeds(d):
    """Create every seed in directory d. Returns dict name -> Path."""
    d = Path(d)
    d.mkdir(parents=True, exist_ok=True)
    s = {}
    _w(d / "seed.s", SEED_S)
    s["seed.o"] = asm.assemble(d / "seed.s", extra=["--compress-debug-sections=zlib"])
    _w(d / "aux.s", AUX_S)
    s["aux.o"] = asm.assemble(d / "aux.s")
    # shared objects (dep: versioned symbol needed by seed so -> verneed + DT_NEEDED)
    _w(d / "dep.s", '.text\n.globl dep_fn\n.type dep_fn,@function\ndep_fn:\n ret\n.size dep_fn,.-dep_fn\n'
                    '.section .note.GNU-stack,"",@progbits\n')
    asm.assemble(d / "dep.s")
    _w(d / "dep.map", "DEP1 { global: dep_fn; local: *; };\n")
    sh(["ld", "-shared", "-soname", "libdep.so", "--version-script=dep.map", "-o", "libdep.so", "dep.o"], cwd=d, check=True)
    _w(d / "lib.s", '.text\n.globl seed_fn\n.type seed_fn,@function\nseed_fn:\n call dep_fn@PLT\n ret\n.size seed_fn,.-seed_fn\n'
                    '.globl other_fn\n.type other_fn,@function\nother_fn:\n ret\n.size other_fn,.-other_fn\n'
                    '.data\n.globl seed_var\n.type seed_var,@object\nseed_var: .quad 1\n.size seed_var,8\n'
                    '.section .note.GNU-stack,"",@progbits\n')
    asm.assemble(d / "lib.s")
    _w(d / "lib.map", "VER1 { global: seed_fn; seed_var; local: *; };\nVER2 { global: other*; } VER1;\n")
    sh(["ld", "-shared", "-soname", "libseed.so", "--version-script=lib.map", "--hash-style=both", "-z", "relro",
        "-o", "libseed.so", "lib.o", "libdep.so"], cwd=d, check=True)
    s["libseed.so"] = d / "libseed.so"
    s["libdep.so"] = d / "libdep.so"
    _w(d / "somain.s", '.text\n.globl _start\n.type _start,@function\n_start:\n call seed_fn@PLT\n mov seed_var@GOTPCREL(%rip),%rax\n'
                       ' mov $60,%eax\n xor %edi,%edi\n syscall\n.size _start,.-_start\n.section .note.GNU-stack,"",@progbits\n')
    s["somain.o"] = asm.assemble(d / "somain.s")
    # archives: one short-named member (odd size -> padding), one long-named member
    _w(d / "m1.s", '.text\n.globl ar_fn1\n.type ar_fn1,@function\nar_fn1:\n call ar_fn2\n ret\n.size ar_fn1,.-ar_fn1\n'
                   '.section .rodata\n.byte 1\n.section .note.GNU-stack,"",@progbits\n')
    asm.assemble(d / "m1.s")
    _w(d / "member_with_a_long_name.s", '.text\n.globl ar_fn2\n.type ar_fn2,@function\nar_fn2:\n ret\n.size ar_fn2,.-ar_fn2\n'
                                         '.section .note.GNU-stack,"",@progbits\n')
    asm.assemble(d / "member_with_a_long_name.s")
    # make m1.o odd-sized so that a padding byte exists
    b = (d / "m1.o").read_bytes()
    if len(b) % 2 == 0:
        (d / "m1.o").write_bytes(b + b"\0")
    sh(["ar", "rc", "libseed.a", "m1.o", "member_with_a_long_name.o"], cwd=d, check=True)
    sh(["ar", "rcT", "libthin.a", "m1.o", "member_with_a_long_name.o"], cwd=d, check=True)
    s["libseed.a"] = d / "libseed.a"
    s["libthin.a"] = d / "libthin.a"
    _w(d / "armain.s", '.text\n.globl _start\n.type _start,@function\n_start:\n call ar_fn1\n mov $60,%eax\n xor %edi,%edi\n syscall\n'
                       '.size _start,.-_start\n.section .note.GNU-stack,"",@progbits\n')
    s["armain.o"] = asm.assemble(d / "armain.s")
    s["script.ld"] = _w(d / "script.ld", LINKER_SCRIPT)
    s["v.map"] = _w(d / "v.map", VERSION_SCRIPT)
    s["e.list"] = _w(d / "e.list", EXPORT_LIST)
    s["args.rsp"] = _w(d / "args.rsp", RESPONSE_FILE)
    _w(d / "vlib.s", '.text\n.globl seed_fn\n.type seed_fn,@function\nseed_fn:\n ret\n.globl other_x\nother_x:\n ret\n.globl _start\n_start:\n ret\n'
                     '.section .note.GNU-stack,"",@progbits\n')
    s["vlib.o"] = asm.assemble(d / "vlib.s")
    return s


# the command line per carrier: (files to place in the case directory, argv, name of the mutated file)
CARRIER_CMD = {
    "object": (["seed.o", "aux.o"], ["seed.o", "aux.o", "-o", "out"], "seed.o"),
    "shared_object": (["somain.o", "libseed.so", "libdep.so"], ["somain.o", "libseed.so", "libdep.so", "-o", "out"], "libseed.so"),
    "archive": (["armain.o", "libseed.a"], ["armain.o", "libseed.a", "-o", "out"], "libseed.a"),
    "thin_archive": (["armain.o", "libthin.a", "m1.o", "member_with_a_long_name.o"], ["armain.o", "libthin.a", "-o", "out"], "libthin.a"),
    "linker_script": (["seed.o", "aux.o", "script.ld"], ["seed.o", "-T", "script.ld", "-o", "out"], "script.ld"),
    "version_script": (["vlib.o", "v.map"], ["vlib.o", "-shared", "--version-script=v.map", "-o", "out.so"], "v.map"),
    "export_list": (["vlib.o", "e.list"], ["vlib.o", "-shared", "--dynamic-list=e.list", "-o", "out.so"], "e.list"),
    "response_file": (["seed.o", "aux.o", "args.rsp"], ["@args.rsp"], "args.rsp"),
    "argv": (["seed.o", "aux.o"], ["seed.o", "aux.o", "-o", "out"], None),
}

# ---------------------------------------------------------------------------------------------
# numeric fields

EHDR = {"e_ident_class": (4, 1), "e_ident_data": (5, 1), "e_type": (16, 2), "e_machine": (18, 2), "e_phoff": (32, 8),
        "e_shoff": (40, 8), "e_phentsize": (54, 2), "e_phnum": (56, 2), "e_shentsize": (58, 2), "e_shnum": (60, 2),
        "e_shstrndx": (62, 2)}
SHDR = {"sh_name": (0, 4), "sh_type": (4, 4), "sh_flags": (8, 8), "sh_offset": (24, 8), "sh_size": (32, 8),
        "sh_link": (40, 4), "sh_info": (44, 4), "sh_addralign": (48, 8), "sh_entsize": (56, 8)}
SYM = {"st_name": (0, 4), "st_info": (4, 1), "st_other": (5, 1), "st_shndx": (6, 2), "st_value": (8, 8), "st_size": (16, 8)}
RELA = {"r_offset": (0, 8), "r_type": (8, 4), "r_sym": (12, 4), "r_addend": (16, 8)}
PHDR = {"p_type": (0, 4), "p_flags": (4, 4), "p_offset": (8, 8), "p_vaddr": (16, 8), "p_filesz": (32, 8), "p_memsz": (40, 8),
        "p_align": (48, 8)}
DT = {"DT_NULL": 0, "DT_NEEDED": 1, "DT_STRTAB": 5, "DT_SYMTAB": 6, "DT_STRSZ": 10, "DT_SYMENT": 11, "DT_SONAME": 14,
      "DT_GNU_HASH": 0x6ffffef5, "DT_VERSYM": 0x6ffffff0, "DT_VERDEF": 0x6ffffffc, "DT_VERDEFNUM": 0x6ffffffd,
      "DT_VERNEED": 0x6ffffffe, "DT_VERNEEDNUM": 0x6fffffff}
OBJ_SECTIONS = {"text": ".text", "data": ".data", "bss": ".bss", "rela_text": ".rela.text", "symtab": ".symtab",
                "strtab": ".strtab", "shstrtab": ".shstrtab", "group": ".group", "comdat_text": ".text.comdat_fn",
                "note_property": ".note.gnu.property", "note_stack": ".note.GNU-stack", "eh_frame": ".eh_frame",
                "rela_eh_frame": ".rela.eh_frame", "merge_strings": ".rodata.str1.1", "merge_const": ".rodata.cst8",
                "tdata": ".tdata", "init_array": ".init_array", "compressed_debug": ".debug_str",
                "symtab_shndx": ".symtab_shndx", "rela_data": ".rela.data"}
SO_SECTIONS = {"dynsym": ".dynsym", "dynstr": ".dynstr", "dynamic": ".dynamic", "gnu_hash": ".gnu.hash",
               "gnu_version": ".gnu.version", "gnu_version_d": ".gnu.version_d", "gnu_version_r": ".gnu.version_r",
               "shstrtab": ".shstrtab"}


class Field:
    """A numeric field: file offset, width, natural bound, stride to the next record (for swap)."""

    def __init__(self, off, width, bound, stride=None):
        self.off, self.width, self.bound, self.stride = off, width, bound, stride


def _sym_index(e, table, kind):
    syms = e.symtab if table == "symtab" else e.dynsym
    want = {"local": "local_fn", "tls": "tlsv", "common": "commonv", "weak": "undef_weak"}
    for s in syms:
        if kind == "null":
            return 0
        if kind == "section" and s["type"] == 3:
            return s["index"]
        if kind in want and s["name"] == want[kind]:
            return s["index"]
        if kind == "global_def" and s["name"] in ("helper", "seed_fn"):
            return s["index"]
        if kind == "global_undef" and s["name"] in ("aux_fn", "dep_fn"):
            return s["index"]
    return None


def locate(e, data, carrier, locus):
    """-> Field or None (locus not present in this seed)."""
    fsize = len(data)
    kind = locus[0]
    secmap = OBJ_SECTIONS if carrier == "object" else SO_SECTIONS

    def sec(name):
        return e.section(secmap.get(name, name))

    if kind == "ehdr":
        off, w = EHDR[locus[1]]
        bound = {"e_shoff": fsize, "e_phoff": fsize, "e_shnum": e.e_shnum, "e_shstrndx": e.e_shnum,
                 "e_phnum": e.e_phnum}.get(locus[1], struct.unpack_from("<Q", data[off:off + w].ljust(8, b"\0"))[0])
        return Field(off, w, bound, w)
    if kind == "shdr":
        s = sec(locus[1])
        if s is None:
            return None
        off, w = SHDR[locus[2]]
        cur = struct.unpack_from("<Q", data[e.e_shoff + s["index"] * 64 + off:][:w].ljust(8, b"\0"))[0]
        bound = {"sh_name": e.sections[e.e_shstrndx]["size"], "sh_offset": fsize, "sh_size": fsize,
                 "sh_link": e.e_shnum, "sh_info": e.e_shnum, "sh_entsize": max(s["size"], 1)}.get(locus[2], cur)
        return Field(e.e_shoff + s["index"] * 64 + off, w, bound, 64)
    if kind == "sym":
        table = "symtab" if carrier == "object" else "dynsym"
        ts = e.section(".symtab" if carrier == "object" else ".dynsym")
        idx = _sym_index(e, table, locus[1])
        if ts is None or idx is None:
            return None
        off, w = SYM[locus[2]]
        strsec = e.sections[ts["link"]]
        nsyms = ts["size"] // 24
        bound = {"st_name": strsec["size"], "st_shndx": e.e_shnum, "st_value": fsize, "st_size": fsize}.get(
            locus[2], data[ts["offset"] + idx * 24 + off])
        return Field(ts["offset"] + idx * 24 + off, w, bound, 24 if idx + 1 < nsyms else -24)
    if kind == "rela":
        s = sec(locus[1])
        if s is None or s["size"] < 24:
            return None
        off, w = RELA[locus[2]]
        tgt = e.sections[s["info"]]
        nsyms = e.sections[s["link"]]["size"] // 24
        cur = struct.unpack_from("<Q", data[s["offset"] + off:][:w].ljust(8, b"\0"))[0]
        bound = {"r_offset": tgt["size"], "r_sym": nsyms, "r_addend": tgt["size"]}.get(locus[2], cur)
        return Field(s["offset"] + off, w, bound, 24 if s["size"] >= 48 else None)
    if kind == "phdr":
        want = {"load0": 1, "load_last": 1, "dynamic": 2, "gnu_relro": 0x6474e552}[locus[1]]
        c = [p for p in e.segments if p["type"] == want]
        if not c:
            return None
        p = c[-1] if locus[1] == "load_last" else c[0]
        off, w = PHDR[locus[2]]
        base = e.e_phoff + p["index"] * 56
        cur = struct.unpack_from("<Q", data[base + off:][:w].ljust(8, b"\0"))[0]
        bound = {"p_offset": fsize, "p_filesz": fsize, "p_memsz": fsize, "p_vaddr": fsize}.get(locus[2], cur)
        return Field(base + off, w, bound, 56 if p["index"] + 1 < e.e_phnum else -56)
    if kind == "dyn":
        s = e.section(".dynamic")
        if s is None:
            return None
        for k in range(s["size"] // 16):
            tag, val = struct.unpack_from("<QQ", data, s["offset"] + k * 16)
            if tag == DT[locus[1]]:
                if locus[2] == "d_tag":
                    return Field(s["offset"] + k * 16, 8, tag, 16)
                return Field(s["offset"] + k * 16 + 8, 8, fsize, 16)
        return None
    if kind == "other":
        n = locus[1]
        if n.startswith("group_"):
            s = sec("group")
            if s is None:
                return None
            k = {"group_flags": 0, "group_member0": 1, "group_member_last": s["size"] // 4 - 1}[n]
            return Field(s["offset"] + 4 * k, 4, e.e_shnum, None)
        if n.startswith("note_") or n.startswith("property_"):
            s = sec("note_property")
            if s is None:
                return None
            k = {"note_namesz": 0, "note_descsz": 4, "note_type": 8, "property_type": 16, "property_datasz": 20}[n]
            return Field(s["offset"] + k, 4, s["size"], None)
        if n.startswith("cie_") or n.startswith("fde_"):
            s = sec("eh_frame")
            if s is None:
                return None
            cie_len = struct.unpack_from("<I", data, s["offset"])[0]
            fde = s["offset"] + 4 + cie_len
            tab = {"cie_length": (s["offset"], 4), "cie_id": (s["offset"] + 4, 4), "cie_version": (s["offset"] + 8, 1),
                   "cie_augmentation": (s["offset"] + 9, 1), "fde_length": (fde, 4), "fde_cie_pointer": (fde + 4, 4),
                   "fde_pc_begin": (fde + 8, 4), "fde_pc_range": (fde + 12, 4)}
            off, w = tab[n]
            return Field(off, w, s["size"], None)
        if n.startswith("chdr_"):
            s = sec("compressed_debug")
            if s is None or not (s["flags"] & 0x800):
                return None
            off, w = {"chdr_type": (0, 4), "chdr_size": (8, 8), "chdr_addralign": (16, 8)}[n]
            return Field(s["offset"] + off, w, s["size"], None)
        if n == "merge_last_byte":
            s = sec("merge_strings")
            return None if s is None else Field(s["offset"] + s["size"] - 1, 1, 0x41, None)
        if n == "shndx_entry0":
            s = sec("symtab_shndx")
            return None if s is None else Field(s["offset"], 4, e.e_shnum, None)
        if n.startswith("versym"):
            s = sec("gnu_version")
            if s is None:
                return None
            k = 1 if n == "versym0" else s["size"] // 2 - 1
            return Field(s["offset"] + 2 * k, 2, 4, 2 if n == "versym0" else -2)
        if n.startswith("vd_") or n == "vda_name":
            s = sec("gnu_version_d")
            if s is None:
                return None
            aux = struct.unpack_from("<I", data, s["offset"] + 12)[0]
            tab = {"vd_version": (0, 2), "vd_cnt": (6, 2), "vd_aux": (12, 4), "vd_next": (16, 4), "vda_name": (aux, 4)}
            off, w = tab[n]
            return Field(s["offset"] + off, w, s["size"], None)
        if n.startswith("vn_") or n.startswith("vna_"):
            s = sec("gnu_version_r")
            if s is None:
                return None
            aux = struct.unpack_from("<I", data, s["offset"] + 8)[0]
            tab = {"vn_cnt": (2, 2), "vn_file": (4, 4), "vn_aux": (8, 4), "vna_other": (aux + 6, 2), "vna_name": (aux + 8, 4)}
            off, w = tab[n]
            return Field(s["offset"] + off, w, s["size"], None)
        if n.startswith("gh_"):
            s = sec("gnu_hash")
            if s is None:
                return None
            k = {"gh_nbuckets": 0, "gh_symoffset": 4, "gh_bloom_size": 8, "gh_bloom_shift": 12}[n]
            return Field(s["offset"] + k, 4, s["size"], None)
    raise ToolError(f"unknown locus {carrier} {locus}")


def num_value(mut, width, bound):
    mask = (1 << (8 * width)) - 1
    v = {"zero": 0, "one": 1, "minus1": mask, "max": mask >> 1, "bound-1": bound - 1, "bound": bound,
         "bound+1": bound + 1}[mut]
    return v & mask


def mutate_elf(data, carrier, locus, mut):
    """-> mutated bytes, or None when the locus does not exist in the seed / the mutation is the identity."""
    e = Elf(data=data)
    f = locate(e, data, carrier, locus)
    if f is None:
        return None
    b = bytearray(data)
    if mut == "truncate-here":
        return bytes(b[:f.off])
    if mut == "swap-next":
        if not f.stride:
            return None
        o2 = f.off + f.stride
        if o2 < 0 or o2 + f.width > len(b):
            return None
        b[f.off:f.off + f.width], b[o2:o2 + f.width] = b[o2:o2 + f.width], b[f.off:f.off + f.width]
    else:
        v = num_value(mut, f.width, f.bound)
        b[f.off:f.off + f.width] = v.to_bytes(f.width, "little")
    return None if bytes(b) == data else bytes(b)


# ---------------------------------------------------------------------------------------------
# archives


def _ar_members(data):
    """[(header_offset, name_field, size, data_offset)]"""
    out = []
    off = 8
    thin = data[:8] == b"!<thin>\n"
    while off + 60 <= len(data):
        name = data[off:off + 16]
        try:
            size = int(data[off + 48:off + 58].decode().strip() or "0")
        except ValueError:
            break
        out.append((off, name, size, off + 60))
        special = name.startswith(b"/ ") or name.startswith(b"// ")
        adv = size if (not thin or special) else 0
        off += 60 + adv + (adv & 1)
    return out


def mutate_archive(data, locus, mut):
    mem = _ar_members(data)
    sym = next((m for m in mem if m[1].startswith(b"/ ")), None)
    lng = next((m for m in mem if m[1].startswith(b"// ")), None)
    real = [m for m in mem if not (m[1].startswith(b"/ ") or m[1].startswith(b"// "))]
    if not real:
        raise ToolError("archive seed without members")
    first, last = real[0], real[-1]
    longref = next((m for m in real if re.match(rb"/\d+", m[1])), None)
    n = locus[1]
    b = bytearray(data)
    fsize = len(data)

    def text_field(off, width, bound):
        if mut == "truncate-here":
            return bytes(b[:off])
        val = {"zero": b"0", "one": b"1", "minus1": b"-1", "huge": b"9" * width, "bound-1": str(bound - 1).encode(),
               "bound": str(bound).encode(), "bound+1": str(bound + 1).encode(), "non-digit": b"abc", "empty": b""}[mut]
        b[off:off + width] = val[:width].ljust(width, b" ")
        return bytes(b)

    def bin_field(off, bound):
        if mut == "truncate-here":
            return bytes(b[:off])
        if mut == "empty":
            return None
        v = {"zero": 0, "one": 1, "minus1": 0xffffffff, "huge": 0x7fffffff, "bound-1": bound - 1, "bound": bound,
             "bound+1": bound + 1, "non-digit": 0x41414141}[mut]
        b[off:off + 4] = struct.pack(">I", v & 0xffffffff)
        return bytes(b)

    if n == "magic":
        r = text_field(0, 8, 8)
    elif n == "symtab_name":
        r = text_field(sym[0], 16, 16) if sym else None
    elif n == "symtab_size":
        r = text_field(sym[0] + 48, 10, fsize - sym[3]) if sym else None
    elif n == "symtab_count":
        r = bin_field(sym[3], (sym[2] - 4) // 4) if sym else None
    elif n == "symtab_offset0":
        r = bin_field(sym[3] + 4, fsize) if sym else None
    elif n == "symtab_strings":
        if not sym:
            return None
        cnt = struct.unpack_from(">I", data, sym[3])[0]
        start = sym[3] + 4 + 4 * cnt
        if mut == "truncate-here":
            r = bytes(b[:start])
        else:
            for i in range(start, sym[3] + sym[2]):
                if b[i] == 0:
                    b[i] = 0x41
            r = bytes(b)
    elif n == "longnames_name":
        r = text_field(lng[0], 16, 16) if lng else None
    elif n == "longnames_size":
        r = text_field(lng[0] + 48, 10, fsize - lng[3]) if lng else None
    elif n == "member_name":
        r = text_field(first[0], 16, 16)
    elif n == "member_longname_ref":
        r = text_field(longref[0] + 1, 15, lng[2] if lng else 0) if longref else None
    elif n == "member_date":
        r = text_field(first[0] + 16, 12, 0)
    elif n == "member_mode":
        r = text_field(first[0] + 40, 8, 0)
    elif n == "member_size":
        r = text_field(first[0] + 48, 10, fsize - first[3])
    elif n == "member_fmag":
        r = text_field(first[0] + 58, 2, 0)
    elif n == "member_last_size":
        r = text_field(last[0] + 48, 10, fsize - last[3])
    elif n == "member_padding":
        odd = next((m for m in real if m[2] & 1 and data[:8] != b"!<thin>\n"), None)
        if odd is None:
            return None
        if mut == "truncate-here":
            r = bytes(b[:odd[3] + odd[2]])
        else:
            b[odd[3] + odd[2]] = 0x41
            r = bytes(b)
    else:
        raise ToolError(f"unknown archive locus {n}")
    return None if r is None or r == data else r


def apply_thin_extra(case_dir, which):
    """Rebuild libthin.a in case_dir so that a member path is pathological."""
    d = Path(case_dir)
    (d / "libthin.a").unlink()
    if which == "member_path_missing":
        sh(["ar", "rcT", "libthin.a", "m1.o", "member_with_a_long_name.o"], cwd=d, check=True)
        (d / "m1.o").unlink()
    elif which == "member_path_directory":
        sh(["ar", "rcT", "libthin.a", "m1.o", "member_with_a_long_name.o"], cwd=d, check=True)
        (d / "m1.o").unlink()
        (d / "m1.o").mkdir()
    elif which == "member_path_self":
        shutil.copy(d / "m1.o", d / "libthin.a")
        sh(["ar", "rcT", "tmp.a", "libthin.a", "member_with_a_long_name.o"], cwd=d, check=True)
        os.replace(d / "tmp.a", d / "libthin.a")
    elif which == "member_path_absolute":
        sh(["ar", "rcT", "libthin.a", str(d / "m1.o"), str(d / "member_with_a_long_name.o")], cwd=d, check=True)
    elif which == "member_path_dotdot":
        (d / "sub").mkdir()
        sh(["ar", "rcT", "libthin.a", "sub/../m1.o", "sub/../member_with_a_long_name.o"], cwd=d, check=True)
    else:
        raise ToolError(which)


# ---------------------------------------------------------------------------------------------
# texts

_TOK = re.compile(rb'\s+|[{}();:,=*"]|[^\s{}();:,=*"]+')


def mutate_text(data, locus, op):
    if locus[0] == "whole":
        return {"empty": b"", "whitespace-only": b" \n\t \n", "only-open-brace": b"{", "only-comment-open": b"/* unterminated",
                "very-long-token": b"A" * 200000, "deep-nesting": b"{ (" * 20000, "all-ff": b"\xff" * 64}[op]
    toks = _TOK.findall(data)
    idx = [i for i, t in enumerate(toks) if not t.isspace()]
    p = locus[1]
    if p >= len(idx):
        return None
    i = idx[p]
    rep = {"open-brace": b"{", "close-brace": b"}", "open-paren": b"(", "close-paren": b")", "semicolon": b";",
           "quote": b'"', "open-comment": b"/*", "huge-number": b"99999999999999999999999999", "hex-prefix": b"0x",
           "star": b"*"}
    t = list(toks)
    if op.startswith("xref-"):
        if not re.fullmatch(rb"[A-Za-z_.][A-Za-z0-9_.+-]*", toks[i]):
            return None
        words = []
        for w in toks:
            if re.fullmatch(rb"[A-Za-z_.][A-Za-z0-9_.+-]*", w) and w not in words:
                words.append(w)
        k = int(op[5:])
        if k >= len(words):
            return None
        t[i] = words[k]
    elif op == "delete":
        t[i] = b""
    elif op == "duplicate":
        t[i] = toks[i] + b" " + toks[i]
    elif op in rep:
        t[i] = rep[op]
    elif op == "non-utf8":
        t[i] = toks[i] + b"\xff\xfe"
    elif op == "nul-byte":
        t[i] = toks[i] + b"\0"
    elif op == "backslash":
        t[i] = toks[i] + b"\\"
    elif op == "truncate-after":
        t = t[:i + 1]
    else:
        raise ToolError(op)
    r = b"".join(t)
    return None if r == data else r


# ---------------------------------------------------------------------------------------------
# argument lists


def parse_help(text):
    """-> list of (form, takes_param) e.g. ('--soname=', True), ('-h', True), ('--gc-sections', False),
    ('-z max-page-size=', True)."""
    forms = []
    for line in text.splitlines():
        m = re.match(r"^    (-\S.*?)(?:\s{2,}|$)", line)
        zsub = re.match(r"^      (-[zlm] \S+)\s", line)
        if zsub:
            f = zsub.group(1)
            if f.startswith("-z "):
                if "=<VALUE>" in f:
                    forms.append((f.replace("<VALUE>", ""), True))
                else:
                    forms.append((f, False))
            continue
        if not m or line.startswith("     "):
            continue
        for part in m.group(1).split(", "):
            part = part.strip()
            if part.startswith("@") or not part.startswith("-"):
                continue
            if "[=<VALUE>]" in part:
                forms.append((part.replace("[=<VALUE>]", "="), True))
                forms.append((part.replace("[=<VALUE>]", ""), False))
            elif "=<VALUE>" in part:
                forms.append((part.replace("<VALUE>", ""), True))
            elif " <VALUE>" in part:
                forms.append((part.replace(" <VALUE>", ""), True))
            else:
                forms.append((part, False))
    seen, out = set(), []
    for f in forms:
        if f not in seen:
            seen.add(f)
            out.append(f)
    return out


def argv_cases(base, forms, shape, mut, case_dir):
    """Yield (label, argv) for one descriptor expanded over every option of that shape."""
    d = Path(case_dir)
    glob_only = {"at-file-missing", "at-file-self", "at-file-mutual", "at-file-directory", "at-file-binary"}
    if mut in glob_only:
        if shape != "flag":
            return
        if mut == "at-file-missing":
            yield mut, base + ["@does-not-exist.rsp"]
        elif mut == "at-file-self":
            (d / "self.rsp").write_text("--gc-sections\n@self.rsp\n")
            yield mut, base + ["@self.rsp"]
        elif mut == "at-file-mutual":
            (d / "a.rsp").write_text("@b.rsp\n")
            (d / "b.rsp").write_text("@a.rsp\n")
            yield mut, base + ["@a.rsp"]
        elif mut == "at-file-directory":
            yield mut, base + ["@."]
        elif mut == "at-file-binary":
            yield mut, base + ["@seed.o"]
        return

    def with_param(form, value):
        if form.startswith("-z "):
            return ["-z", form[3:] + value]
        if form.endswith("="):
            return [form + value]
        return [form, value]

    for form, takes in forms:
        if takes != (shape == "param"):
            continue
        flag = form.split(" ")[0] if not form.startswith("-z ") else None
        if shape == "param":
            vals = {"empty-param": "", "garbage-param": "%%garb\x01age,=:;", "huge-number": "99999999999999999999999",
                    "negative-number": "-1", "non-utf8-param": "x\udcff\udcfe", "param-is-option": "--gc-sections",
                    "path-is-directory": ".", "path-too-long": "a/" * 3000}
            if mut == "missing-param-at-end":
                a = ["-z", form[3:].rstrip("=")] if form.startswith("-z ") else [form.rstrip("=")]
                yield form, base + a
            elif mut in vals:
                yield form, base + with_param(form, vals[mut])
            elif mut == "repeated-100":
                yield form, base + with_param(form, "1") * 100
            elif mut == "unknown-suffix":
                if form.startswith("-z "):
                    yield form, base + ["-z", form[3:].rstrip("=") + "XYZ=1"]
                else:
                    yield form, base + [form.rstrip("=") + "XYZ=1"]
            elif mut == "only-option":
                yield form, with_param(form, "1")
        else:
            fl = ["-z", form[3:]] if form.startswith("-z ") else [form]
            if mut == "equals-on-flag":
                yield form, base + (["-z", form[3:] + "=1"] if form.startswith("-z ") else [form + "=1"])
            elif mut == "repeated-100":
                yield form, base + fl * 100
            elif mut == "unknown-suffix":
                yield form, base + (["-z", form[3:] + "XYZ"] if form.startswith("-z ") else [form + "XYZ"])
            elif mut == "only-option":
                yield form, fl
            elif mut == "garbage-param":
                yield form, base + fl + ["%%garb\x01age"]
