"""C36 helpers: inputs with hand-written .note.GNU-stack / .note.gnu.property, and an observer for
PT_GNU_STACK and the output GNU property note (read through the program headers, as a loader does,
and through the section headers)."""
import hashlib
import struct
from pathlib import Path

from .common import ToolError, sh
from .elf import Elf

FAM_BASE = {"x86": 0xC0000000, "gen": 0xB0000000, "a64": 0xC0000000}
PT_NOTE, PT_GNU_STACK, PT_GNU_PROPERTY = 4, 0x6474E551, 0x6474E553
NT_GNU_PROPERTY_TYPE_0 = 5
GNU_PROPERTY_STACK_SIZE = 1


def type_number(fam, off):
    return FAM_BASE[fam] + off


def class_of(ty, arch="x86_64"):
    """Property class as GNU ld sees it (used only to filter observations to the classes the property
    talks about; the authoritative rule is GnuClass in specs/Notes.tla)."""
    if arch == "aarch64":
        return "and" if ty == 0xC0000000 else "none"
    if ty == 0xC0000000:
        return "orand"
    if ty == 0xC0000001:
        return "or"
    if 0xC0000002 <= ty <= 0xC0007FFF or 0xB0000000 <= ty <= 0xB0007FFF:
        return "and"
    if 0xC0008000 <= ty <= 0xC000FFFF or 0xB0008000 <= ty <= 0xB000FFFF:
        return "or"
    if 0xC0010000 <= ty <= 0xC0017FFF:
        return "orand"
    return "none"


def map_bits(mask, bitmap):
    """2-bit model mask -> real pr_data value; bitmap = (bit for model bit 0, bit for model bit 1)."""
    v = 0
    if mask & 1:
        v |= 1 << bitmap[0]
    if mask & 2:
        v |= 1 << bitmap[1]
    return v


def unmap_bits(value, bitmap):
    """Inverse of map_bits; returns None if value has bits outside the bitmap."""
    m = 0
    rest = value
    if value & (1 << bitmap[0]):
        m |= 1
        rest &= ~(1 << bitmap[0])
    if value & (1 << bitmap[1]):
        m |= 2
        rest &= ~(1 << bitmap[1])
    return None if rest else m


def input_asm(idx, inp, *, first, calls=(), deco=None, arch="x86_64"):
    """Assembly text of input number idx (1-based) of a REPLAY record.
    inp = {"kind", "stack", "props": [{"fam","off","vals":[mask,..]}]}.
    deco: {"bitmap": (b0,b1), "layout": "single"|"split", "order": "asc"|"desc", "extra": bool}"""
    deco = deco or {}
    bitmap = deco.get("bitmap", (0, 1))
    pb = "%progbits" if arch == "aarch64" else "@progbits"
    nt = "%note" if arch == "aarch64" else "@note"
    t = [".text", f".globl f_{idx}", f".type f_{idx},{'%' if arch == 'aarch64' else '@'}function", f"f_{idx}:", "    ret"]
    if first:
        t += [".globl _start", "_start:"]
        for c in calls:
            t.append(f"    {'bl' if arch == 'aarch64' else 'call'} f_{c}")
        t.append("    ret")
    if inp["stack"] == "noexec":
        t.append(f'.section .note.GNU-stack,"",{pb}')
    elif inp["stack"] == "exec":
        t.append(f'.section .note.GNU-stack,"x",{pb}')
    elif inp["stack"] != "absent":
        raise ToolError(f"stack state {inp['stack']}")
    entries = []  # (type, size, payload-directives)
    for p in inp["props"]:
        ty = type_number(p["fam"], p["off"])
        for m in p["vals"]:
            entries.append((ty, 4, [f".long {map_bits(m, bitmap):#x}", ".long 0"]))
    if deco.get("order") == "desc":
        entries.reverse()
    if deco.get("extra") and entries:
        # a property that is not a 4-byte bit mask (GNU_PROPERTY_STACK_SIZE, 8 bytes): outside the
        # property's classes, must not disturb the merge of the others
        entries.insert(0, (GNU_PROPERTY_STACK_SIZE, 8, [".quad 0x100000"]))
    if entries:
        t += [f'.section .note.gnu.property,"a",{nt}', ".p2align 3"]
        groups = [[e] for e in entries] if deco.get("layout") == "split" else [entries]
        for g in groups:
            descsz = sum(8 + ((sz + 7) & ~7) for _, sz, _ in g)
            t += [".long 4", f".long {descsz}", f".long {NT_GNU_PROPERTY_TYPE_0}", '.asciz "GNU"']
            for ty, sz, payload in g:
                t += [f".long {ty:#x}", f".long {sz}"] + payload
    return "\n".join(t) + "\n"


class InputCache:
    """Assembles each distinct input once (content-addressed) and derives archives / shared objects."""

    def __init__(self, d):
        self.d = Path(d)
        self.d.mkdir(parents=True, exist_ok=True)
        self.seen = {}

    def obj(self, text, arch="x86_64"):
        h = hashlib.sha256((arch + text).encode()).hexdigest()[:20]
        if h in self.seen:
            return self.seen[h]
        s = self.d / f"{h}.s"
        o = self.d / f"{h}.o"
        s.write_text(text)
        if arch == "x86_64":
            cmd = ["as", "--64", "-o", o, s]
        else:
            cmd = ["clang", "--target=aarch64-linux-gnu", "-c", "-o", o, s]
        sh(cmd, timeout=60, check=True)
        self.seen[h] = o
        return o

    def archive(self, o):
        a = o.with_suffix(".a")
        if not a.exists():
            tmp = a.with_suffix(".a.tmp")
            sh(["ar", "rc", tmp, o], timeout=60, check=True)
            tmp.replace(a)
        return a

    def dso(self, o):
        so = o.with_suffix(".so")
        if not so.exists():
            tmp = so.with_suffix(".so.tmp")
            # built by GNU ld so that the helper does not depend on the code under test
            sh(["ld", "-shared", "--no-warn-execstack", "-o", tmp, o], timeout=60, check=True)
            tmp.replace(so)
        return so


def _parse_notes(buf, align):
    out = []
    o = 0
    while o + 12 <= len(buf):
        namesz, descsz, typ = struct.unpack_from("<III", buf, o)
        o += 12
        name = buf[o:o + namesz]
        o += (namesz + 3) & ~3
        if align == 8:
            o = (o + 7) & ~7
        desc = buf[o:o + descsz]
        o += (descsz + align - 1) & ~(align - 1)
        out.append((name.rstrip(b"\0"), typ, desc))
    return out


def _props_of(notes):
    props = []
    for name, typ, d in notes:
        if name == b"GNU" and typ == NT_GNU_PROPERTY_TYPE_0:
            o = 0
            while o + 8 <= len(d):
                t, sz = struct.unpack_from("<II", d, o)
                o += 8
                props.append((t, bytes(d[o:o + sz])))
                o += (sz + 7) & ~7
    return props


def observe(path):
    """{'stack': 'none'|'RW'|'RWE'|..., 'props_ph': [(type, value)], 'props_sec': [...], 'has_pt_gnu_property': bool}
    Values of 4-byte properties as ints, others as hex strings."""
    e = Elf(path)
    gs = e.gnu_stack()
    if gs is None:
        stack = "none"
    else:
        f = gs["flags"]
        stack = ("R" if f & 4 else "") + ("W" if f & 2 else "") + ("E" if f & 1 else "")
    segs = [p for p in e.segments if p["type"] == PT_GNU_PROPERTY]
    has_gp = bool(segs)
    if not segs:
        segs = [p for p in e.segments if p["type"] == PT_NOTE]
    via_ph = []
    for p in segs:
        buf = e.data[p["offset"]:p["offset"] + p["filesz"]]
        via_ph += _props_of(_parse_notes(buf, 8 if p["align"] == 8 else 4))
    via_sec = []
    for s in e.sections:
        if s["type"] == 7 and s["name"] == ".note.gnu.property":
            via_sec += _props_of(_parse_notes(e.section_data(s), 8 if s["addralign"] == 8 else 4))

    def norm(ps):
        return sorted((t, struct.unpack("<I", d)[0] if len(d) == 4 else d.hex()) for t, d in ps)

    return {"stack": stack, "props_ph": norm(via_ph), "props_sec": norm(via_sec), "has_pt_gnu_property": has_gp,
            "e_type": e.e_type}
