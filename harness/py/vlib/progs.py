"""A small corpus of multi-file C / C++ programs with deterministic output, linked through the gcc
driver with wild (or GNU ld) as the linker. Used by C27 (partial links) and C28 (option lattice)."""
import os
from pathlib import Path

from .common import ToolError, build_wild, sh

C_TABLES = {
    "main.c": r'''
#include <stdio.h>
#include <stdlib.h>
#include <string.h>
#include <stdarg.h>
extern int (*const fn_table_a[])(int);
extern int (*fn_table_b[])(int);
extern const char *const words_a[]; extern const char *words_b[];
extern int n_a, n_b;
extern int shared_counter; int common_var;
extern __thread int tls_a; extern __thread int tls_b;
int weak_fn(void) __attribute__((weak));
int weak_fn(void) { return 1; }
int overridden(void) __attribute__((weak));
int overridden(void) { return 100; }
struct item { const char *name; int (*fn)(int); };
extern struct item __start_myset[], __stop_myset[];
char ctor_log[64]; int ctor_n;
void log_ctor(char c) { if (ctor_n < 60) ctor_log[ctor_n++] = c; }
static int cmp(const void *a, const void *b) { return strcmp(*(const char *const *)a, *(const char *const *)b); }
static int sum(int n, ...) { va_list ap; va_start(ap, n); int s = 0; for (int i = 0; i < n; i++) s += va_arg(ap, int); va_end(ap); return s; }
int classify(int x) { switch (x) { case 0: return 11; case 1: return 22; case 2: return 33; case 3: return 44; case 4: return 55; case 5: return 66; default: return -1; } }
int main(void) {
    unsigned h = 5381;
    for (int i = 0; i < n_a; i++) h = h * 33 + fn_table_a[i](i);
    for (int i = 0; i < n_b; i++) h = h * 33 + fn_table_b[i](i + 7);
    const char *all[32]; int n = 0;
    for (int i = 0; i < n_a; i++) all[n++] = words_a[i];
    for (int i = 0; i < n_b; i++) all[n++] = words_b[i];
    qsort(all, n, sizeof all[0], cmp);
    for (int i = 0; i < n; i++) { printf("%s ", all[i]); for (const char *p = all[i]; *p; p++) h = h * 33 + *p; }
    printf("\n");
    for (struct item *it = __start_myset; it < __stop_myset; it++) { printf("%s=%d ", it->name, it->fn(3)); }
    printf("\n");
    tls_a += 5; tls_b += 7;
    printf("h=%u weak=%d over=%d common=%d shared=%d tls=%d/%d sum=%d cls=%d,%d ctors=%s\n", h, weak_fn(), overridden(),
           common_var, shared_counter, tls_a, tls_b, sum(4, 1, 2, 3, 4), classify(n_a), classify(9), ctor_log);
    return 0;
}
''',
    "a.c": r'''
extern void log_ctor(char c);
int shared_counter = 3; int common_var;
__thread int tls_a = 40;
static int a0(int x) { return x + 1; } static int a1(int x) { return x * 3; } int a2(int x) { return x ^ 0x55; }
int (*const fn_table_a[])(int) = { a0, a1, a2, a1 };
const char *const words_a[] = { "pear", "apple", "fig", "apple" };
int n_a = 4;
int overridden(void) { return 7; }
struct item { const char *name; int (*fn)(int); };
static struct item it_a __attribute__((section("myset"), used)) = { "ita", a2 };
__attribute__((constructor(101))) static void ca1(void) { log_ctor('a'); }
__attribute__((constructor)) static void ca2(void) { log_ctor('A'); shared_counter += 10; }
''',
    "b.c": r'''
extern void log_ctor(char c);
extern int shared_counter; int common_var;
__thread int tls_b;
extern int a2(int);
static int b0(int x) { return x - 2; } static int b1(int x) { return a2(x) + 1; }
int (*fn_table_b[])(int) = { b0, b1, a2 };
const char *words_b[] = { "fig", "kiwi", "pear" };
int n_b = 3;
struct item { const char *name; int (*fn)(int); };
static struct item it_b __attribute__((section("myset"), used)) = { "itb", b1 };
__attribute__((constructor(102))) static void cb1(void) { log_ctor('b'); }
__attribute__((constructor)) static void cb2(void) { log_ctor('B'); shared_counter *= 2; }
__attribute__((destructor)) static void db(void) { }
''',
    "c.c": r'''
extern void log_ctor(char c);
struct item { const char *name; int (*fn)(int); };
static int c0(int x) { return x * x; }
static struct item it_c __attribute__((section("myset"), used)) = { "itc", c0 };
__attribute__((constructor(101))) static void cc1(void) { log_ctor('c'); }
int unused_in_c(int x) { return x + 12345; }
''',
}

CXX_EXC = {
    "main.cc": r'''
#include <cstdio>
#include <stdexcept>
#include <string>
struct Shape { virtual ~Shape() {} virtual int area() const = 0; };
Shape *make(int kind, int a);
int thrower(int depth);
extern int init_order_value;
int main() {
    int total = 0;
    for (int k = 0; k < 3; k++) { Shape *s = make(k, k + 2); total += s->area(); delete s; }
    try { thrower(5); } catch (const std::runtime_error &e) { std::printf("caught %s\n", e.what()); total += 1000; }
    try { thrower(0); } catch (int v) { std::printf("caught int %d\n", v); total += v; }
    std::string s = "abc"; s += std::to_string(total);
    std::printf("%s init=%d\n", s.c_str(), init_order_value);
    return 0;
}
''',
    "shapes.cc": r'''
struct Shape { virtual ~Shape() {} virtual int area() const = 0; };
struct Sq : Shape { int a; Sq(int a) : a(a) {} int area() const override { return a * a; } };
struct Re : Shape { int a; Re(int a) : a(a) {} int area() const override { return a * (a + 1); } };
struct Tr : Shape { int a; Tr(int a) : a(a) {} int area() const override { return a * a / 2; } };
Shape *make(int kind, int a) { switch (kind) { case 0: return new Sq(a); case 1: return new Re(a); default: return new Tr(a); } }
''',
    "throw.cc": r'''
#include <stdexcept>
struct Guard { int *p; Guard(int *p) : p(p) {} ~Guard() { (*p)++; } };
static int unwound;
int thrower(int depth) {
    Guard g(&unwound);
    if (depth == 0) throw 42 + unwound;
    if (depth == 1) throw std::runtime_error("deep");
    return thrower(depth - 1) + 1;
}
static int compute() { return 77; }
int init_order_value = compute();
''',
}

CORPUS = {"c-tables": ("gcc", C_TABLES, ["-O1", "-fPIE", "-fcommon"]),
          "cxx-exceptions": ("g++", CXX_EXC, ["-O1", "-fPIE"])}


def linker_dir(d, which="wild"):
    """A directory containing `ld` -> the chosen linker, for `gcc -B<dir>/`."""
    ld = Path(d) / f"B-{which}"
    ld.mkdir(parents=True, exist_ok=True)
    target = str(build_wild()) if which == "wild" else "/usr/bin/ld"
    link = ld / "ld"
    if link.exists() or link.is_symlink():
        link.unlink()
    os.symlink(target, link)
    return ld


def compile_corpus(name, d):
    driver, files, flags = CORPUS[name]
    d = Path(d)
    d.mkdir(parents=True, exist_ok=True)
    objs = []
    for fn, src in files.items():
        p = d / fn
        p.write_text(src)
        o = p.with_suffix(".o")
        sh([driver, "-c", *flags, "-o", o, p], timeout=180, check=True)
        objs.append(o)
    return driver, objs


def drive(driver, bdir, objs, out, driver_flags=(), linker_flags=(), timeout=180):
    """Link through the compiler driver; returns ShResult."""
    cmd = [driver, f"-B{bdir}/", *driver_flags, *[f"-Wl,{f}" for f in linker_flags], "-o", out, *objs]
    return sh(cmd, timeout=timeout)


def execute(path, timeout=20):
    r = sh([path], timeout=timeout)
    return r.rc, r.out
