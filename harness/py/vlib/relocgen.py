"""Generator + observer for the relocation case products (C01, C09, C23): turns a case record
emitted by TLC (specs/MCReloc.tla) into a small x86-64 program (GNU as), links it with wild (and with
GNU ld as a sanity oracle of the program itself), loads the result with vlib.loader and reads the
semantic value of the site; optionally executes it natively.

Vocabulary (must match specs/Reloc.tla):
  sym  : local_d global_d hidden_d protected_d global_f hidden_f protected_f abs_small abs_2g abs_4g
         weakundef imp_d imp_f ifunc tls_def tls_imp
  ref  : abs64 abs32 pc32d pc64d gotpcrel_d dtpoff64                          (data sites; secw applies)
         abs64m abs32s abs32z pc32 plt32 gotpcrel rex_gotpcrelx gotpcrelx_mov32 gotpcrelx_call
         gotpcrelx_jmp gotoff64 got64 pltoff64 tpoff32 gottpoff_mov gottpoff_add tlsgd tlsld tlsdesc
  out  : static staticpie pie dynexe shared
"""
import os
import struct
from pathlib import Path

from . import loader
from .asm import assemble
from .common import ToolError, run_wild, sh
from .loader import LoaderError, MASK64, Process, decode_x86_site, limbs, sext

LIBDIR = "/usr/lib/x86_64-linux-gnu"
GCCDIR = "/usr/lib/gcc/x86_64-linux-gnu/12"
LDSO = "/lib64/ld-linux-x86-64.so.2"
NOTE = '.section .note.GNU-stack,"",@progbits\n'

IDS = {"l_d": 0x1101, "g_d": 0x1202, "h_d": 0x1303, "p_d": 0x1404, "g_f": 0x2101, "h_f": 0x2202,
       "p_f": 0x2303, "imp_d": 0x3101, "imp_f": 0x3202, "i_f": 0x4101, "t_d": 0x5101, "imp_t": 0x5202}
ABS = {"a_small": 0x1234, "a_2g": 0x80000000, "a_4g": 0x100000000}

SYMS = {
    "local_d": dict(sym="l_d", cls="data", where="main"),
    "global_d": dict(sym="g_d", cls="data", where="defs", vis="default"),
    "hidden_d": dict(sym="h_d", cls="data", where="defs", vis="hidden"),
    "protected_d": dict(sym="p_d", cls="data", where="defs", vis="protected"),
    "global_f": dict(sym="g_f", cls="func", where="defs", vis="default"),
    "hidden_f": dict(sym="h_f", cls="func", where="defs", vis="hidden"),
    "protected_f": dict(sym="p_f", cls="func", where="defs", vis="protected"),
    "abs_small": dict(sym="a_small", cls="abs", where="defs"),
    "abs_2g": dict(sym="a_2g", cls="abs", where="defs"),
    "abs_4g": dict(sym="a_4g", cls="abs", where="defs"),
    "weakundef": dict(sym="w_u", cls="weak", where="none"),
    "imp_d": dict(sym="imp_d", cls="data", where="helper"),
    "imp_f": dict(sym="imp_f", cls="func", where="helper"),
    "ifunc": dict(sym="i_f", cls="func", where="defs", vis="default", ifunc=True),
    "tls_def": dict(sym="t_d", cls="tls", where="defs", vis="default"),
    "tls_imp": dict(sym="imp_t", cls="tls", where="helper"),
}

# site templates.  For code sites: text, [field offsets from the site label], result kind
#   result: "addr" (rax = V), "call" (eax = identity returned), "tlsaddr" (rax = address of the TLS
#   variable), "none" (no native check)
GOTBASE = "    lea _GLOBAL_OFFSET_TABLE_(%rip), %rbx\n"
REFS = {
    # data sites
    "abs64": dict(site="D", dirv=".quad {S}{A}", load="    mov site(%rip), %rax\n", res="addr"),
    "abs32": dict(site="D", dirv=".long {S}{A}", load="    mov site(%rip), %eax\n", res="addr"),
    "pc32d": dict(site="D", dirv=".long {S}{A} - .", res="addr",
                  load="    movslq site(%rip), %rax\n    lea site(%rip), %rcx\n    add %rcx, %rax\n"),
    "pc64d": dict(site="D", dirv=".quad {S}{A} - .", res="addr",
                  load="    mov site(%rip), %rax\n    lea site(%rip), %rcx\n    add %rcx, %rax\n"),
    "gotpcrel_d": dict(site="D", dirv=".long {S}@GOTPCREL", res="addr", noaddend=True,
                       load="    movslq site(%rip), %rax\n    lea site(%rip), %rcx\n    mov (%rcx,%rax), %rax\n"),
    "dtpoff64": dict(site="D", dirv=".quad {S}@DTPOFF", load="    mov site(%rip), %rax\n", res="none", noaddend=True),
    # code sites
    "abs64m": dict(site="T", code="    movabs ${S}{A}, %rax\n", offs=[2], res="addr"),
    "abs32s": dict(site="T", code="    movq ${S}{A}, %rax\n", offs=[3], res="addr"),
    "abs32z": dict(site="T", code="    movl ${S}{A}, %eax\n", offs=[1], res="addr"),
    "pc32": dict(site="T", code="    lea {S}{A}(%rip), %rax\n", offs=[3], res="addr"),
    "plt32": dict(site="T", code="    call {S}@PLT\n", offs=[1], res="call", noaddend=True),
    "gotpcrel": dict(site="T", code="    movq {S}@GOTPCREL(%rip), %rax\n", offs=[3], res="addr", noaddend=True,
                     asflags=["-mrelax-relocations=no"]),
    "rex_gotpcrelx": dict(site="T", code="    movq {S}@GOTPCREL(%rip), %rax\n", offs=[3], res="addr", noaddend=True),
    "gotpcrelx_mov32": dict(site="T", code="    movl {S}@GOTPCREL(%rip), %eax\n", offs=[2], res="none", noaddend=True),
    "gotpcrelx_call": dict(site="T", code="    call *{S}@GOTPCREL(%rip)\n", offs=[2], res="call", noaddend=True),
    "gotpcrelx_jmp": dict(site="T", pre="    call 7f\n    jmp 6f\n7:\n", code="    jmp *{S}@GOTPCREL(%rip)\n    nop\n6:\n",
                          offs=[2], res="call", noaddend=True),
    "gotoff64": dict(site="T", code=GOTBASE + "    movabs ${S}@GOTOFF{A}, %rax\n    add %rbx, %rax\n", offs=[3, 9], res="addr"),
    "got64": dict(site="T", code=GOTBASE + "    movabs ${S}@GOT, %rax\n    mov (%rbx,%rax), %rax\n", offs=[3, 9],
                  res="addr", noaddend=True),
    "pltoff64": dict(site="T", code=GOTBASE + "    movabs ${S}@PLTOFF, %rax\n    add %rbx, %rax\n", offs=[3, 9],
                     res="addr", noaddend=True),
    # TLS
    "tpoff32": dict(site="T", code="    mov %fs:0, %rax\n    lea {S}@tpoff(%rax), %rax\n", offs=[12], res="tlsaddr", noaddend=True),
    "gottpoff_mov": dict(site="T", code="    movq {S}@gottpoff(%rip), %rax\n    add %fs:0, %rax\n", offs=[3], res="tlsaddr",
                         noaddend=True),
    "gottpoff_add": dict(site="T", code="    mov %fs:0, %rax\n    addq {S}@gottpoff(%rip), %rax\n", offs=[12], res="tlsaddr",
                         noaddend=True),
    "tlsgd": dict(site="T", code="    .byte 0x66\n    leaq {S}@tlsgd(%rip), %rdi\n    .word 0x6666\n    rex64\n"
                                 "    call __tls_get_addr@PLT\n", offs=[4], res="tlsaddr", noaddend=True, tga=True),
    "tlsld": dict(site="T", code="    leaq {S}@tlsld(%rip), %rdi\n    call __tls_get_addr@PLT\n"
                                 "    leaq {S}@dtpoff(%rax), %rax\n", offs=[3, 15], res="tlsaddr", noaddend=True, tga=True),
    "tlsdesc": dict(site="T", code="    leaq {S}@tlsdesc(%rip), %rax\n    call *{S}@tlscall(%rax)\n    add %fs:0, %rax\n",
                    offs=[3], res="tlsaddr", noaddend=True),
}
DATA_REFS = [k for k, v in REFS.items() if v["site"] == "D"]
TLS_REFS = ["tpoff32", "gottpoff_mov", "gottpoff_add", "tlsgd", "tlsld", "tlsdesc", "dtpoff64"]
CALL_REFS = ["plt32", "gotpcrelx_call", "gotpcrelx_jmp", "pltoff64"]


def mk(name):
    s = f"<MK:{name}:KM>"
    return s + "#" * (-len(s) % 8)


def addend_of(case):
    """User-level addend written in the assembly (A of the formula, before the -4 PC bias)."""
    if "addend" in case:
        return int(case["addend"])
    if REFS[case["ref"]].get("noaddend"):
        return 0
    cls = SYMS[case["sym"]]["cls"]
    return 8 if cls in ("data", "abs") else 0


def flavor_of(case):
    out = case["out"]
    if out == "staticpie":
        return "libc"
    if out == "static" and (SYMS[case["sym"]]["cls"] == "tls" or SYMS[case["sym"]].get("ifunc")):
        return "libc"
    return "bare"


# ---------------------------------------------------------------------------------------------
# sources


def helper_source():
    return NOTE + f"""
.data
.balign 8
.ascii "{mk('imp_d')}"
.globl imp_d
.type imp_d,@object
.size imp_d,16
imp_d: .quad {IDS['imp_d']}, {IDS['imp_d'] ^ 0xffff}
.text
.balign 8
.ascii "{mk('imp_f')}"
.globl imp_f
.type imp_f,@function
imp_f:
    mov ${IDS['imp_f']}, %eax
    ret
.size imp_f, .-imp_f
.section .tdata,"awT",@progbits
.balign 8
.ascii "{mk('imp_t')}"
.globl imp_t
.type imp_t,@object
.size imp_t,16
imp_t: .quad {IDS['imp_t']}, {IDS['imp_t'] ^ 0xffff}
"""


def defs_source(symkind):
    info = SYMS[symkind]
    s = info["sym"]
    t = NOTE
    if info["where"] != "defs":
        return t + ".text\n"
    vis = {"hidden": f".hidden {s}\n", "protected": f".protected {s}\n"}.get(info.get("vis"), "")
    if info["cls"] == "abs":
        return t + f".globl {s}\n{s} = {ABS[s]}\n"
    if info["cls"] == "data":
        return t + f""".data
.balign 8
.ascii "{mk(s)}"
.globl {s}
{vis}.type {s},@object
.size {s},16
{s}: .quad {IDS[s]}, {IDS[s] ^ 0xffff}
"""
    if info["cls"] == "tls":
        return t + f""".section .tdata,"awT",@progbits
.balign 8
.ascii "{mk(s)}"
.globl {s}
{vis}.type {s},@object
.size {s},16
{s}: .quad {IDS[s]}, {IDS[s] ^ 0xffff}
"""
    if info.get("ifunc"):
        return t + f""".text
.balign 8
.globl {s}
.type {s},@gnu_indirect_function
{s}:
    lea {s}_target(%rip), %rax
    ret
.balign 8
.ascii "{mk(s)}"
{s}_target:
    mov ${IDS[s]}, %eax
    ret
"""
    return t + f""".text
.balign 8
.ascii "{mk(s)}"
.globl {s}
{vis}.type {s},@function
{s}:
    mov ${IDS[s]}, %eax
    ret
.size {s}, .-{s}
"""


def check_code(case, A):
    info = SYMS[case["sym"]]
    res = REFS[case["ref"]]["res"]
    s = info["sym"]
    if res == "none":
        return "    cmp %eax, %eax\n"
    if res == "call":
        return f"    cmp ${IDS[s]}, %eax\n"
    if res == "tlsaddr":
        return f"    cmpq ${IDS[s]}, (%rax)\n"
    cls = info["cls"]
    if cls == "data":
        return f"    cmpq ${IDS[s]}, {-A}(%rax)\n"
    if cls == "func":
        return f"    call *%rax\n    cmp ${IDS[s]}, %eax\n"
    if cls == "abs":
        v = (ABS[s] + A) & MASK64
        if case["ref"] == "abs32z" or case["ref"] == "abs32":
            v &= 0xffffffff
        return f"    movabs ${v}, %rcx\n    cmp %rcx, %rax\n"
    if cls == "weak":
        return "    test %rax, %rax\n"
    raise ToolError(f"no check code for {case}")


def main_source(case, extra_sites=()):
    """extra_sites: further (ref) kinds on the same symbol placed before the observed site (pairs)."""
    info = SYMS[case["sym"]]
    s = info["sym"]
    out = case["out"]
    flavor = flavor_of(case)
    t = NOTE
    if info["cls"] == "weak":
        t += f".weak {s}\n"
    if info["where"] == "main":
        t += f""".section .data.loc,"aw",@progbits
.balign 8
.ascii "{mk(s)}"
{s}: .quad {IDS[s]}, {IDS[s] ^ 0xffff}
"""
    body = ""
    sites = [case["ref"]] + list(extra_sites)
    datasec = ""
    for idx, ref in enumerate(reversed(sites)):
        n = len(sites) - 1 - idx          # observed site has index 0 and comes last
        R = REFS[ref]
        c = dict(case, ref=ref)
        c.pop("addend", None) if n != 0 else None
        A = addend_of(c)
        As = f"+{A}" if A > 0 else (f"{A}" if A < 0 else "")
        label = "site" if n == 0 else f"site{n}"
        mkname = "site" if n == 0 else f"site{n}"
        if R["site"] == "D":
            secw = case.get("secw", True) if n == 0 else True
            sec = '.section .data.site,"aw",@progbits' if secw else '.section .rodata.site,"a",@progbits'
            pad = int(case.get("pad", 0)) if n == 0 else 0
            al = int(case.get("align", 8)) if n == 0 else 8
            padtxt = f"    .skip {pad}\n" if pad else ""
            altxt = f".balign {al}\n" if al > 1 else ""
            tail = "    .long 0x5a5a5a5a\n    .quad 0\n" if R["dirv"].startswith(".long") else "    .quad 0x5a5a5a5a5a5a5a5a\n"
            datasec += f"""{sec}
{altxt}.ascii "{mk(mkname)}"
{padtxt}{label}: {R['dirv'].format(S=s, A=As)}
{tail}"""
            code = R["load"].replace("site(", f"{label}(")
            if R["dirv"].startswith(".long"):
                # the 4 bytes after a 32-bit field must survive loading (an 8-byte dynamic relocation
                # applied to a 4-byte field overwrites them)
                code = f"    cmpl $0x5a5a5a5a, {label}+4(%rip)\n    jne 8f\n" + code
            body += f"    # site {n}: {ref}\n" + code
        else:
            body += f"""    jmp 9f
    .balign 8
    .ascii "{mk(mkname)}"
9:
{R.get('pre', '')}{R['code'].format(S=s, A=As)}"""
        body += check_code(c, A) + "    jne 8f\n"
    vis = ""
    # the 1-byte section that makes the site's section start at an odd address must survive --gc-sections
    keep = "    cmpb $0x5a, vt_shift(%rip)\n    jne 8f\n" if case.get("shift") else ""
    if case.get("sibling"):
        keep += "    lea vt_sib(%rip), %rcx\n"
    t += f""".text
.globl vt_main
.type vt_main,@function
vt_main:
    .cfi_startproc
    push %rbx
    .cfi_adjust_cfa_offset 8
{keep}{body}    xor %eax, %eax
    pop %rbx
    ret
8:
    mov $1, %eax
    pop %rbx
    ret
    .cfi_endproc
.size vt_main, .-vt_main
{vis}"""
    if out != "shared":
        if flavor == "libc":
            t += ".globl main\n.type main,@function\nmain:\n    jmp vt_main\n"
        else:
            t += """.globl _start
_start:
    call vt_main
    mov %eax, %edi
    mov $60, %eax
    syscall
"""
    t += datasec
    if case.get("sibling"):
        # another pointer of this file at an even offset and an even address: with RELR enabled the
        # layout reserves a RELR entry for it, so the file's writer owns a RELR table
        t += '.section .data.sib,"aw",@progbits\n.balign 8\nvt_sib: .quad vt_sib_t\nvt_sib_t: .quad 0\n'
    return t


DRIVER = NOTE + """.text
.globl _start
_start:
    mov %fs:0, %rax
    lea drv_tls@tpoff(%rax), %rax
    call vt_main@PLT
    mov %eax, %edi
    mov $60, %eax
    syscall
.section .tdata,"awT",@progbits
.balign 16
drv_tls: .quad 0x7777, 0x7778, 0x7779
"""


class Toolbox:
    """Per-run cache of constant inputs (helper library, definition objects, driver object)."""

    def __init__(self, d):
        self.d = Path(d)
        if (self.d / "ready").exists():          # built by another process of this run
            self.helper = self.d / "libvth.so"
            self.driver = self.d / "driver.o"
            self.shift_w = self.d / "shift_w.o"
            self.shift_r = self.d / "shift_r.o"
            self.defs = {k: self.d / f"defs_{k}.o" for k in SYMS}
            return
        self.d.mkdir(parents=True, exist_ok=True)
        (self.d / "shift_w.s").write_text(NOTE + '.section .data.site,"aw",@progbits\n.globl vt_shift\n.hidden vt_shift\nvt_shift: .byte 0x5a\n')
        (self.d / "shift_r.s").write_text(NOTE + '.section .rodata.site,"a",@progbits\n.globl vt_shift\n.hidden vt_shift\nvt_shift: .byte 0x5a\n')
        self.shift_w = assemble(self.d / "shift_w.s")
        self.shift_r = assemble(self.d / "shift_r.s")
        (self.d / "helper.s").write_text(helper_source())
        assemble(self.d / "helper.s")
        r = sh(["ld", "-shared", "-o", self.d / "libvth.so", "-soname", "libvth.so", "--hash-style=both",
                self.d / "helper.o"], timeout=60, check=True)
        self.helper = self.d / "libvth.so"
        (self.d / "driver.s").write_text(DRIVER)
        self.driver = assemble(self.d / "driver.s")
        self.defs = {}
        for k in SYMS:
            p = self.d / f"defs_{k}.s"
            p.write_text(defs_source(k))
            self.defs[k] = assemble(p)
        (self.d / "ready").write_text("ok")


def link_args(case, objs, outpath, tb, linker="wild"):
    """Command-line arguments (after the linker binary) for the case's output kind."""
    out = case["out"]
    flavor = flavor_of(case)
    info = SYMS[case["sym"]]
    a = []
    needs_helper = out in ("pie", "dynexe", "shared")
    tga = REFS[case["ref"]].get("tga") or any(REFS[r].get("tga") for r in case.get("extra", []))
    pre, post = [], []
    if flavor == "libc":
        if out == "staticpie":
            a += ["-static", "-pie", "--no-dynamic-linker"]
            pre = [f"{LIBDIR}/rcrt1.o", f"{LIBDIR}/crti.o", f"{GCCDIR}/crtbeginS.o"]
            post = ["--start-group", f"{LIBDIR}/libc.a", f"{GCCDIR}/libgcc.a", f"{GCCDIR}/libgcc_eh.a", "--end-group",
                    f"{GCCDIR}/crtendS.o", f"{LIBDIR}/crtn.o"]
        else:
            a += ["-static"]
            pre = [f"{LIBDIR}/crt1.o", f"{LIBDIR}/crti.o", f"{GCCDIR}/crtbeginT.o"]
            post = ["--start-group", f"{LIBDIR}/libc.a", f"{GCCDIR}/libgcc.a", f"{GCCDIR}/libgcc_eh.a", "--end-group",
                    f"{GCCDIR}/crtend.o", f"{LIBDIR}/crtn.o"]
    elif out == "static":
        pass
    elif out == "pie":
        a += ["-pie", "-dynamic-linker", LDSO]
    elif out == "dynexe":
        a += ["-dynamic-linker", LDSO]
        if linker == "ld":
            a += ["-no-pie"]
    elif out == "shared":
        a += ["-shared", "-soname", "libvtt.so"]
    if case.get("relr"):
        a += ["-z", "pack-relative-relocs"]
    if not case.get("relax", True):
        a += ["--no-relax"]
    a += list(case.get("opts", []))
    a += pre + [str(o) for o in objs]
    if needs_helper:
        a += [str(tb.helper)]
        if tga and info["cls"] == "tls":
            a += [LDSO, f"{LIBDIR}/libc.so.6"]      # __tls_get_addr lives in ld.so, which needs libc
    a += post
    a += ["-o", str(outpath)]
    return a


def build_case(case, d, tb):
    """Write and assemble the case's main object. Returns [main.o, defs.o]."""
    d = Path(d)
    d.mkdir(parents=True, exist_ok=True)
    p = d / "main.s"
    p.write_text(main_source(case, case.get("extra", ())))
    flags = []
    for r in [case["ref"]] + list(case.get("extra", ())):
        flags += REFS[r].get("asflags", [])
    if case.get("dbg"):
        flags += ["--gdwarf-4"]
    o = assemble(p, extra=flags)
    objs = [o, tb.defs[case["sym"]]]
    if case.get("shift"):
        # a 1-byte, 1-aligned contribution to the site's output section ahead of it: with align=1
        # the site's section then starts at an odd address
        objs.insert(0, tb.shift_w if case.get("secw", True) else tb.shift_r)
    return objs


def link_case(case, objs, d, tb, linker="wild", name=None):
    d = Path(d)
    outname = name or ("libvtt.so" if case["out"] == "shared" else "out")
    if linker != "wild" and name is None:
        outname = ("ldout/libvtt.so" if case["out"] == "shared" else "out.ld")
        (d / "ldout").mkdir(exist_ok=True)
    outpath = d / outname
    args = link_args(case, objs, outpath, tb, linker)
    if linker == "wild":
        r = run_wild(args, timeout=60)
    else:
        r = sh(["ld"] + args, timeout=60)
    return r, outpath, args


def link_driver(case, libpath, d, tb):
    """For shared outputs: an executable (GNU ld) that calls vt_main in the library under test."""
    exe = Path(libpath).parent / "driver"
    r = sh(["ld", "-o", exe, tb.driver, libpath, tb.helper, "-dynamic-linker", LDSO, "--allow-shlib-undefined",
            "-rpath-link", str(Path(libpath).parent)],
           timeout=60)
    if r.rc != 0:
        return None, r
    return exe, r


def run_native(case, outpath, tb, d, times=2):
    """Execute the linked program. Returns list of exit codes (None if not runnable here)."""
    out = case["out"]
    env = {"LD_LIBRARY_PATH": f"{Path(outpath).parent}:{tb.d}", "LD_BIND_NOW": "1"}
    if out == "shared":
        exe, r = link_driver(case, outpath, d, tb)
        if exe is None:
            return None, f"driver link failed: {r.err[-300:]}"
        cmd = [exe]
    else:
        cmd = [outpath]
    if out == "static" and flavor_of(case) == "bare" and SYMS[case["sym"]]["cls"] == "tls":
        return None, "bare static TLS not runnable"
    rcs = []
    for _ in range(times):
        r = sh(cmd, timeout=20, env=env)
        rcs.append(-999 if r.timed_out else r.rc)
    return rcs, ""


# ---------------------------------------------------------------------------------------------
# observation


def pick_bases(case, n_mods, which):
    """Load bases for the modules: which=0 link-time base, which=1 a shifted one (odd page multiple)."""
    out = case["out"]
    bases = []
    for i in range(n_mods):
        if i == 0 and out in ("static", "dynexe"):
            bases.append(0)
        elif which == 0:
            bases.append(0 if i == 0 else 0x10000000 * (i + 1))
        else:
            bases.append(0x55d52b5f7000 if i == 0 else 0x7f1234567000 + 0x10000000 * i + 0x653000)
    return bases


def module_paths(case, outpath, tb, d):
    """Modules of the process in load order (main program first)."""
    out = case["out"]
    if out == "shared":
        exe, r = link_driver(case, outpath, d, tb)
        if exe is None:
            raise ToolError(f"driver link failed: {r.err[-500:]}")
        return [exe, outpath, tb.helper], 1
    if out in ("pie", "dynexe"):
        return [outpath, tb.helper], 0
    return [outpath], 0


def marker_addr(pr, module, name):
    hits = pr.find(mk(name).encode(), module)
    if len(hits) != 1:
        return None
    return hits[0] + len(mk(name))


def observe_case(case, outpath, tb, d, which=1):
    """Load the output at the chosen bases and compute the site's facts.
    Returns dict(ok, facts=[...], detail=...) where each fact has formula/lhs/ingredients (ints)."""
    paths, ti = module_paths(case, outpath, tb, d)
    bases = pick_bases(case, len(paths), which)
    if case["out"] == "shared":
        # driver is a non-PIE executable at its link-time base; the library under test gets the base
        bases = [0, 0x7f1234567000 if which else 0x20000000, 0x7f1250653000]
    pr = Process(paths, bases, builtins={"__tls_get_addr": 0x7ffff7fd0000}).relocate()
    tm = pr.mods[ti]                        # module under test
    info = SYMS[case["sym"]]
    s = info["sym"]
    R = REFS[case["ref"]]
    A = addend_of(case)
    site0 = marker_addr(pr, tm, "site")
    if site0 is None:
        raise ToolError("site marker not found exactly once in the output (generator/GC problem)")
    if R["site"] == "D":
        P = site0 + int(case.get("pad", 0))
        P2 = None
    else:
        P = site0 + R["offs"][0]
        P2 = site0 + R["offs"][1] if len(R["offs"]) > 1 else None
        if case["ref"] == "gotpcrelx_jmp":
            P += 7          # `call 7f; jmp 6f` precede the jmp *GOT
    dec = decode_x86_site(pr, case["ref"], P, P2)
    facts = []
    if R["site"] == "D" and R["dirv"].startswith(".long"):
        facts.append({"formula": "S+A", "lhs": pr.u32(P + 4), "S": 0x5a5a5a5a, "A": 0, "what": "neighbour"})
    ident_ok = None
    cls = info["cls"]
    # ---- expected S
    S = None
    body = None
    if cls == "abs":
        S = ABS[s]
    elif cls == "weak":
        S = 0
    elif cls in ("data", "func"):
        defmod = tm if info["where"] in ("main", "defs") else pr.mods[-1]
        S_def = marker_addr(pr, defmod, s)
        if S_def is None:
            raise ToolError(f"definition marker for {s} not found in {defmod.name}")
        body = S_def
        if info["where"] == "helper":
            lk = pr.lookup(s)
            if lk is None:
                raise LoaderError(f"no module defines {s}")
            S = pr.sym_address(*lk)
        elif info.get("ifunc"):
            S = None                      # any address whose call reaches the target
        else:
            S = S_def
        if cls == "func" and (info["where"] == "helper" or info.get("ifunc")):
            # the address of an imported / indirect function is whichever canonical address the
            # module uses (definition or PLT entry) provided calling it reaches the definition;
            # agreement between modules is C38's subject.
            S = None
    elif cls == "tls":
        defmod = tm if info["where"] == "defs" else pr.mods[-1]
        img = defmod.tls_image()
        i = img.find(mk(s).encode())
        if i < 0:
            raise ToolError(f"TLS definition marker for {s} not found in {defmod.name}")
        S = i + len(mk(s))                # offset in the module's TLS block
        tls_mod = defmod
    # ---- facts
    form = dec.form
    V = dec.value
    ref = case["ref"]

    def funcaddr(v):
        """S for a function whose address may legitimately be a PLT entry: v-A if calling it reaches
        the definition, else the definition itself (so that the fact fails)."""
        a = (v - A) & MASK64
        if ref != "gotpcrelx_mov32" and pr.mapped(a, 1) and pr.follow(a) == body:
            return a
        return body if ref != "gotpcrelx_mov32" else a

    def fact(formula, lhs, **ing):
        f = {"formula": formula, "lhs": lhs & MASK64}
        f.update({k: (v & MASK64) for k, v in ing.items()})
        facts.append(f)

    if cls == "tls":
        tp = -tls_mod.tpoff
        if form in ("tpoff", "tpoff-slot"):
            fact("S+A-TP", V, S=S, A=A, TP=tp)
            loc = pr.tls_locate_tpoff(V)
        elif form == "tls-modoff":
            fact("S+A", V[0], S=tls_mod.modid, A=0)
            fact("S+A", V[1], S=S, A=A)
            loc = pr.tls_locate_mod(V[0], V[1])
        elif form == "dtpoff":
            fact("S+A", V, S=S, A=A)
            loc = (tls_mod, sext(V, 64))
        else:
            raise ToolError(f"unexpected decoded form {form} for TLS")
        ident_ok = bool(loc) and loc[0].tls and pr.tls_word(loc[0], loc[1] - A) == IDS[s]
    else:
        if form in ("field64", "field32z", "field32s", "imm32s", "imm32z"):
            Sx = S
            if Sx is None:                       # function address: constrained by reachability
                Sx = funcaddr(V)
            exp_lhs = V
            if ref == "gotpcrelx_mov32":
                fact("LOW32(S+A)", V, S=Sx, A=A)
            else:
                fact("S+A", V, S=Sx, A=A)
        elif form in ("pcrel32", "pcrel64", "lea"):
            Sx = S if S is not None else funcaddr(V)
            bias = -4 if (ref in ("pc32", "gotpcrel", "rex_gotpcrelx", "gotpcrelx_mov32")) else 0
            fact("S+A-P", dec.field, S=Sx, A=A + bias, P=P)
        elif form == "gotslot":
            Sx = S if S is not None else funcaddr(V + A)
            if ref == "gotpcrelx_mov32":
                fact("LOW32(S+A)", V, S=Sx, A=0)
            elif cls == "func" and ref in CALL_REFS:
                fact("S+A", V, S=body, A=0)       # function reached through the slot
            else:
                fact("S+A", V, S=Sx, A=0)
        elif form == "branch":
            fact("S+A", V, S=body if body is not None else (S or 0), A=0)
        elif form == "gotoff":
            Sx = S if S is not None else funcaddr(V)
            fact("S+A-GOT", dec.field, S=Sx, A=A, GOT=dec.extra["got"])
        else:
            raise ToolError(f"unexpected decoded form {form}")
        # identity through memory, independent of symbol tables
        if ref == "gotpcrelx_mov32":
            ident_ok = None               # only the low 32 bits are observable
        elif cls == "data":
            a = (V - A) & MASK64
            ident_ok = pr.mapped(a, 8) and pr.u64(a) == IDS[s]
        elif cls == "func":
            if ref == "gotpcrelx_mov32":
                ident_ok = None
            else:
                reached, ident = pr.func_identity(V)
                ident_ok = ident == IDS[s] and reached == body
        else:
            ident_ok = None
    return {"facts": facts, "ident_ok": ident_ok, "form": form, "P": P, "V": V if not isinstance(V, tuple) else list(V),
            "S": S, "A": A, "bases": bases, "slot": dec.slot,
            "applied": [(mi, a, t) for mi, a, t, _ in pr.applied if mi == ti], "pr": pr, "ti": ti}


def eval_fact(f):
    """Python twin of Reloc!PsabiValue, used only for immediate triage; the verdict comes from TLC."""
    fm = f["formula"]
    S, A = f.get("S", 0), sext(f.get("A", 0), 64)
    if fm == "S+A":
        return (S + A) & MASK64
    if fm == "LOW32(S+A)":
        return (S + A) & 0xffffffff
    if fm == "S+A-P":
        return (S + A - f["P"]) & MASK64
    if fm == "S+A-GOT":
        return (S + A - f["GOT"]) & MASK64
    if fm == "S+A-TP":
        return (S + A - f["TP"]) & MASK64
    raise ToolError(f"formula {fm}")


def fact_to_json(f):
    out = {"formula": f["formula"]}
    for k in ("lhs", "S", "A", "P", "GOT", "TP"):
        out[k] = limbs(f.get(k, 0))
    return out


# ---------------------------------------------------------------------------------------------
# Pointer-place scenarios (C09 / C23): several `.quad sym+A` fields at chosen offsets of one
# 1-aligned writable section that starts at an even or odd address, plus one GOT load that is
# not relaxed, in a position-independent output.

PTR_SYMS = ["local_d", "hidden_d", "hidden_f"]


def ptr_case(rec, out, got=True, alias=False):
    # alias: the pointer fields name their (global) targets through symbol assignments `al_X = X` (--defsym): an alias of
    # an address-valued symbol is address-valued - the place needs the same relative relocation as a direct reference
    return {"kind": "ptr", "alias": bool(alias), "offs": list(rec["offs"]), "secodd": bool(rec["secodd"]), "relr": bool(rec["relr"]),
            "aligned": bool(rec.get("aligned", False)),
            "out": out, "got": got, "sym": "hidden_d", "ref": "abs64", "relax": False,
            "alloc_relr": rec.get("alloc_relr"), "write_relr": rec.get("write_relr"),
            "predicted_mismatch": bool(rec.get("predicted_mismatch"))}


def ptr_name(c):
    return f"ptr-{c['out']}-o{'_'.join(map(str, c['offs']))}-odd{int(c['secodd'])}-al{int(c.get('aligned', False))}-r{int(c['relr'])}-g{int(c['got'])}-a{int(c.get('alias', False))}"


def ptr_source(c):
    flavor = "libc" if c["out"] == "staticpie-libc" else "bare"
    t = NOTE
    t += f""".section .data.loc,"aw",@progbits
.balign 8
.ascii "{mk('l_d')}"
l_d: .quad {IDS['l_d']}, {IDS['l_d'] ^ 0xffff}
"""
    body = ""
    # aligned: the section is 8-aligned (the marker is 16 bytes, so field offsets keep their parity)
    al = ".balign 8\n" if c.get("aligned") else ""
    data = '.section .data.site,"aw",@progbits\n' + al + f'.ascii "{mk("site")}"\nsite:\n'
    pos = 0
    for i, off in enumerate(sorted(c["offs"])):
        k = PTR_SYMS[i % len(PTR_SYMS)]
        s = SYMS[k]["sym"]
        A = 8 if SYMS[k]["cls"] == "data" else 0
        if off > pos:
            data += f"    .skip {off - pos}, 0x5a\n"
        ref = f"al_{s}" if (c.get("alias") and k != "local_d") else s
        data += f"    .quad {ref}+{A}\n"
        pos = off + 8
        body += f"    mov site+{off}(%rip), %rax\n"
        if SYMS[k]["cls"] == "data":
            body += f"    cmpq ${IDS[s]}, -{A}(%rax)\n    jne 8f\n"
        else:
            body += f"    call *%rax\n    cmp ${IDS[s]}, %eax\n    jne 8f\n"
    data += "    .byte 0x5a\n"
    keep = "    cmpb $0x5a, vt_shift(%rip)\n    jne 8f\n" if c["secodd"] else ""
    if c["got"]:
        body += f"""    jmp 9f
    .balign 8
    .ascii "{mk('gotsite')}"
9:
    movq h_d@GOTPCREL(%rip), %rax
    cmpq ${IDS['h_d']}, (%rax)
    jne 8f
"""
    t += f""".text
.globl vt_main
.type vt_main,@function
vt_main:
.Lvt_main:
    push %rbx
{keep}{body}    xor %eax, %eax
    pop %rbx
    ret
8:
    mov $1, %eax
    pop %rbx
    ret
"""
    if c["out"] != "shared":
        if flavor == "libc":
            t += ".globl main\n.type main,@function\nmain:\n    jmp .Lvt_main\n"
        else:
            # a local label: no relocation, hence no PLT/GOT slot besides the ones of the scenario
            t += ".globl _start\n_start:\n    call .Lvt_main\n    mov %eax, %edi\n    mov $60, %eax\n    syscall\n"
    return t + data


def ptr_build(c, d, tb):
    d = Path(d)
    d.mkdir(parents=True, exist_ok=True)
    (d / "main.s").write_text(ptr_source(c))
    o = assemble(d / "main.s")
    objs = [o, tb.defs["hidden_d"], tb.defs["hidden_f"]]
    if c["secodd"]:
        objs.insert(0, tb.shift_w)
    return objs


def ptr_link(c, objs, d, tb, linker="wild"):
    out = "staticpie" if c["out"] == "staticpie-libc" else c["out"]
    if c.get("alias"):
        c = dict(c, opts=list(c.get("opts", [])) + [f"--defsym=al_{SYMS[k]['sym']}={SYMS[k]['sym']}" for k in PTR_SYMS if k != "local_d"])
    case = {"sym": "hidden_d", "ref": "abs64", "out": out, "relr": c["relr"], "relax": False,
            "opts": c.get("opts", [])}
    if c["out"] == "staticpie":            # bare static PIE: observed statically only
        args = ["-pie"] + (["--no-dynamic-linker"] if linker == "ld" else []) + \
               (["-z", "pack-relative-relocs"] if c["relr"] else []) + ["--no-relax"] + list(c.get("opts", [])) + \
               [str(o) for o in objs]
        outp = Path(d) / ("out" if linker == "wild" else "out.ld")
        args += ["-o", str(outp)]
        r = run_wild(args, timeout=60) if linker == "wild" else sh(["ld"] + args, timeout=60)
        return r, outp, args
    return link_case(case, objs, d, tb, linker)


def ptr_observe(c, outpath, tb, d):
    """Image observation for LoaderObs + python twin verdict.  AddrPlaces come from the scenario
    (site marker + offsets) and from decoding the GOT-load instruction, never from the output's tables."""
    out = "staticpie" if c["out"].startswith("staticpie") else c["out"]
    case = {"sym": "hidden_d", "ref": "abs64", "out": out}
    if out == "shared":
        paths, ti = module_paths(case, outpath, tb, d)
    elif out == "pie":
        paths, ti = [outpath, tb.helper], 0
    else:
        paths, ti = [outpath], 0
    bases0 = [0] * len(paths) if out != "shared" else [0, 0x20000000, 0x7f1250653000]
    pr0 = Process(paths, bases0)            # unrelocated file image at the link-time addresses
    tm = pr0.mods[ti]
    B0 = tm.base
    site = marker_addr(pr0, tm, "site")
    if site is None:
        raise ToolError("site marker not found")
    places = []
    for i, off in enumerate(sorted(c["offs"])):
        k = PTR_SYMS[i % len(PTR_SYMS)]
        s = SYMS[k]["sym"]
        A = 8 if SYMS[k]["cls"] == "data" else 0
        S = marker_addr(pr0, tm, s)
        if S is None:
            raise ToolError(f"definition marker {s} not found")
        p = site + off
        places.append((p - B0, S + A - B0, pr0.u64(p)))
    if c["got"]:
        g = marker_addr(pr0, tm, "gotsite")
        P = g + 3
        op = pr0.read(P - 2, 1)[0]
        if op == 0x8b:
            slot = (P + 4 + pr0.s32(P)) & MASK64
            places.append((slot - B0, marker_addr(pr0, tm, "h_d") - B0, pr0.u64(slot)))
        elif op != 0x8d:
            raise LoaderError(f"unrecognised GOT load form 0x{op:x}")
    e = tm.elf
    rela, other = [], []
    for off, typ, symi, add in pr0._dyn_relas(tm):
        if typ == 8:
            rela.append((off, add & MASK64))
        else:
            other.append((off, typ))
    relr = pr0.relr_entries(tm)
    return {"places": places, "rela": rela, "relr": relr, "other": other, "elf": e}
