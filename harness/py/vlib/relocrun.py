"""Running relocation cases (relocgen) in parallel and judging observations with TLC (LoaderObs.tla).
Shared by the C01 / C09 / C23 checks."""
import json
import os
import re
import shutil
import traceback
from concurrent.futures import ProcessPoolExecutor
from pathlib import Path

from . import allocprobe, relocgen as rg, tlc
from .common import CACHE, ToolError, build_wild, log
from .loader import LoaderError, limbs

OUTGROUP = {"static": "nonpi", "dynexe": "nonpi", "staticpie": "pie", "pie": "pie", "shared": "shared"}
SYMGROUP = {"local_d": "defined", "global_d": "defined", "hidden_d": "defined", "protected_d": "defined",
            "global_f": "defined", "hidden_f": "defined", "protected_f": "defined",
            "imp_d": "import", "imp_f": "import"}
REFGROUP = {"abs32": "abs32", "abs32s": "abs32", "abs32z": "abs32", "pc32": "pcrel", "pc32d": "pcrel",
            "pc64d": "pcrel", "gotoff64": "pcrel"}


def case_name(c):
    n = f"{c['sym']}-{c['ref']}-{c['out']}-w{int(c.get('secw', True))}x{int(c.get('relax', True))}r{int(c.get('relr', False))}"
    for k in ("pad", "align", "shift", "sibling", "dbg"):
        if c.get(k):
            n += f"-{k}{int(c[k])}"
    if c.get("extra"):
        n += "-+" + "+".join(c["extra"])
    if c.get("opts"):
        n += "-" + re.sub(r"[^A-Za-z0-9]+", "_", " ".join(c["opts"]))
    return n


def case_key(c, symptom):
    return (f"{symptom}:{SYMGROUP.get(c['sym'], c['sym'])}:{REFGROUP.get(c['ref'], c['ref'])}:"
            f"{OUTGROUP[c['out']]}")


def _observe(case, outp, tb, cd, native=True):
    """-> dict(status, facts, ident, native, detail). status: link-ok / link-wrong / unloadable"""
    res = {"facts": [], "ident": [], "native": None, "detail": "", "forms": []}
    wrong = []
    for which in (0, 1):
        try:
            o = rg.observe_case(case, outp, tb, cd, which)
        except LoaderError as e:
            res["status"] = "unloadable"
            res["detail"] = f"loader model (base set {which}): {e}"
            return res
        for f in o["facts"]:
            f = dict(f, base=which)
            res["facts"].append(f)
            if rg.eval_fact(f) != f["lhs"]:
                wrong.append(f"base{which}:{f['formula']}: observed 0x{f['lhs']:x} expected 0x{rg.eval_fact(f):x}")
        res["ident"].append(o["ident_ok"])
        res["forms"].append(o["form"])
        if o["ident_ok"] is False:
            wrong.append(f"base{which}: identity word not found through the observed value 0x{o['V'] if not isinstance(o['V'], list) else o['V'][1]:x}")
        res.setdefault("P", o["P"])
        res["applied"] = [t for _, _, t in o["applied"]]
    if native:
        rcs, why = rg.run_native(case, outp, tb, cd)
        res["native"] = rcs
        if rcs is not None and any(rc != 0 for rc in rcs):
            wrong.append(f"native execution exit codes {rcs}")
    res["status"] = "link-wrong" if wrong else "link-ok"
    res["detail"] = "; ".join(wrong)
    return res


def run_one(args):
    """Worker: build, link with wild (and GNU ld), observe. Returns a plain dict."""
    case, workdir, tbdir, with_ld, native = args
    out = {"case": case, "name": case_name(case)}
    try:
        tb = rg.Toolbox(tbdir)
        cd = Path(workdir) / out["name"]
        if cd.exists():
            shutil.rmtree(cd)
        objs = rg.build_case(case, cd, tb)
        out["dir"] = str(cd)
        r, outp, args_w = rg.link_case(case, objs, cd, tb, "wild")
        out["wild_args"] = [str(a) for a in args_w]
        out["wild_rc"] = r.rc
        out["wild_err"] = r.err[-1500:]
        out["alloc"] = allocprobe.probe(r)
        if r.timed_out:
            out["real"] = "hang"
        elif r.rc != 0:
            k = r.klass()
            out["real"] = "allocfail" if out["alloc"] else ("diag" if k == "diagnostic" else k)
        else:
            o = _observe(case, outp, tb, cd, native)
            out["obs"] = o
            out["real"] = o["status"]
        if with_ld == "auto":
            # the GNU ld oracle for every suspicious case and for a deterministic quarter of the rest
            import zlib
            with_ld = out["real"] in ("link-wrong", "unloadable") or zlib.crc32(out["name"].encode()) % 4 == 0
        if with_ld:
            r2, outp2, args_l = rg.link_case(case, objs, cd, tb, "ld")
            out["ld_rc"] = r2.rc
            out["ld_err"] = r2.err[-400:]
            if r2.rc == 0:
                o2 = _observe(case, outp2, tb, cd, native)
                out["ld"] = o2["status"]
                out["ld_detail"] = o2["detail"][:300]
                out["ld_native"] = o2["native"]
            else:
                out["ld"] = "diag"
    except ToolError as e:
        out["tool_error"] = str(e)
    except Exception:  # noqa
        out["tool_error"] = traceback.format_exc()[-1500:]
    return out


def run_cases(cases, workdir, tbdir, with_ld=True, native=True, jobs=8):
    build_wild()
    rg.Toolbox(tbdir)                       # build the constant inputs once, in the parent
    argl = [(c, str(workdir), str(tbdir), with_ld, native) for c in cases]
    with ProcessPoolExecutor(max_workers=jobs) as ex:
        results = list(ex.map(run_one, argl, chunksize=4))
    errs = [r for r in results if "tool_error" in r]
    if errs:
        raise ToolError(f"{len(errs)} case(s) could not be generated/observed, first: {errs[0]['name']}: {errs[0]['tool_error']}")
    return results


def tlc_judge(sites=(), images=(), views=(), name="obs"):
    """Evaluate observations with specs/LoaderObs.tla. sites: [(id, [facts])]. Returns parsed OBSRESULT."""
    d = CACHE / "tmp"
    d.mkdir(parents=True, exist_ok=True)
    p = d / f"{name}.{os.getpid()}.json"
    doc = {"sites": [{"id": i, "facts": [rg.fact_to_json(f) for f in fs]} for i, fs in sites],
           "images": list(images), "views": list(views)}
    p.write_text(json.dumps(doc))
    try:
        res = tlc.run_tlc("LoaderObs", "mc/LoaderObs.cfg", workers=1, timeout=900, coverage=False,
                          env={"OBS": str(p)}, name=f"LoaderObs.{name}.{os.getpid()}",
                          jvm_opts=["-Xss512m"])
    finally:
        pass
    m = re.search(r'<<"OBSRESULT", "(.*)">>', res.out)
    if not m:
        raise ToolError("LoaderObs produced no OBSRESULT:\n" + res.out[-2500:])
    body = m.group(1).encode().decode("unicode_escape")
    out = json.loads(body)
    p.unlink(missing_ok=True)
    for k in ("sites_bad", "images_bad", "views_bad"):
        v = out.get(k)
        if isinstance(v, dict):
            out[k] = list(v.values())
        elif v is None:
            out[k] = []
    return out


def image_json(ident, places, rela, relr_raw, bases):
    """places: [(p, target, img0 value)], rela: [(off, addend)], relr_raw: list of 64-bit words."""
    relr = []
    for w in relr_raw:
        if w & 1 == 0:
            relr.append({"t": "addr", "addr": w, "bits": []})
        else:
            relr.append({"t": "bitmap", "addr": 0, "bits": [i for i in range(63) if (w >> (i + 1)) & 1]})
    return {"id": ident, "addrPlaces": [p for p, _, _ in places], "target": [t for _, t, _ in places],
            "img0": [limbs(v) for _, _, v in places],
            "rela": [{"off": o, "addend": a} for o, a in rela], "relr": relr,
            "bases": [limbs(b) for b in bases]}
