"""Scenarios with mergeable string sections (C07, C40, C06): generation, emission, observation."""
import struct
from pathlib import Path

from . import asm
from .elf import Elf

ALPH = "abxy"


def make_scenario(rng, n_objs=3, secs_per_obj=2, strings_per_sec=(5, 60), maxlen=9, out_names=(".rodata",),
                  dup_rate=0.4, refs_per_sec=8, alphabet=ALPH):
    """objects[o] = list of sections {name, strings:[str]}; refs = [(o, k, offset, kind)].
    Strings are drawn with many duplicates and shared suffixes; offsets may point mid-string."""
    pool = []
    objs = []
    refs = []
    for o in range(n_objs):
        secs = []
        for k in range(secs_per_obj):
            n = rng.randrange(*strings_per_sec)
            strings = []
            for _ in range(n):
                if pool and rng.random() < dup_rate:
                    s = rng.choice(pool)
                    if rng.random() < 0.3 and len(s) > 1:
                        s = s[rng.randrange(len(s)):]      # a suffix of an existing string
                else:
                    s = "".join(rng.choice(alphabet) for _ in range(rng.randrange(0, maxlen)))
                pool.append(s)
                strings.append(s)
            name = rng.choice(out_names)
            secs.append({"name": name, "strings": strings})
            total = sum(len(s) + 1 for s in strings)
            for _ in range(min(refs_per_sec, total)):
                off = rng.randrange(total)
                refs.append((o, k, off, rng.choice(["sec", "sym"])))
        objs.append(secs)
    return {"objs": objs, "refs": refs}


def section_bytes(sec):
    return b"".join(s.encode() + b"\0" for s in sec["strings"])


def expected_at(sec, off):
    data = section_bytes(sec)
    end = data.index(b"\0", off)
    return data[off:end + 1]


def emit(scn, d, big_pad=0):
    """Write objects; returns (paths, ref_order). The reference table lives in `.data.reftab`
    (one per object, each entry 8 bytes, preceded by a marker)."""
    d = Path(d)
    paths = []
    for o, secs in enumerate(scn["objs"]):
        lines = []
        base = {}          # (k) -> (input section name, offset of part k inside that input section)
        fill = {}
        for k, sec in enumerate(secs):
            # input section name: parts that share a name are one input section for the assembler
            iname = f".rodata.str1.{o}_{k}" if sec["name"] == ".rodata" else sec["name"]
            base[k] = (iname, fill.get(iname, 0))
            lines.append(f'.section {iname},"aMS",@progbits,1')
            off = 0
            for i, s in enumerate(sec["strings"]):
                lines.append(f".globl str_{o}_{k}_{off}")
                lines.append(f"str_{o}_{k}_{off}:")
                lines.append(f'    .string "{s}"')
                off += len(s) + 1
            fill[iname] = fill.get(iname, 0) + off
        lines.append('.section .data.reftab,"aw",@progbits')
        lines.append(f'    .ascii "{asm.marker("reftab%d" % o)}"')
        for (ro, k, off, kind) in scn["refs"]:
            if ro != o:
                continue
            sec = secs[k]
            if kind == "sym":
                # named symbol at the start of the string containing `off`, plus addend
                start = 0
                for s in sec["strings"]:
                    if start + len(s) + 1 > off:
                        break
                    start += len(s) + 1
                lines.append(f"    .quad str_{o}_{k}_{start} + {off - start}")
            else:
                # the section symbol plus an offset (gas resolves a section name to its section symbol)
                iname, b = base[k]
                lines.append(f"    .quad {iname} + {b + off}")
        if o == 0:
            lines.append('.section .text,"ax",@progbits\n.globl _start\n_start:')
            lines.append("    lea reftab_anchor(%rip), %rax")
            lines.append(asm.EXIT_X86)
        lines.append('.section .data.reftab,"aw",@progbits')
        lines.append(f".globl reftab_anchor{o}" if o else ".globl reftab_anchor")
        lines.append(f"reftab_anchor{o if o else ''}:")
        lines.append("    .quad 0")
        paths.append(asm.write_asm(d, f"s{o}", "\n".join(lines) + "\n"))
    # keep all reftabs alive: object 0's _start references its own; others are referenced from it
    return paths


def link_args(paths, out, extra=()):
    # --no-gc-sections keeps every reftab; string merging stays on
    return [str(p) for p in paths] + ["-o", str(out), "--no-gc-sections"] + list(extra)


def observe_refs(scn, out_path):
    """For every reference: (expected bytes, observed bytes or None). Static non-PIE outputs only."""
    e = Elf(out_path)
    results = []
    for o, secs in enumerate(scn["objs"]):
        mk = asm.marker("reftab%d" % o).encode()
        offs = e.find_bytes(mk)
        if len(offs) != 1:
            results.append(("reftab", o, f"marker found {len(offs)} times", None, None))
            continue
        p = offs[0] + len(mk)
        for (ro, k, off, kind) in scn["refs"]:
            if ro != o:
                continue
            ptr = struct.unpack_from("<Q", e.data, p)[0]
            p += 8
            exp = expected_at(secs[k], off)
            got = None
            fo = e.vaddr_to_off(ptr)
            if fo is not None:
                end = e.data.find(b"\0", fo)
                if end >= 0 and end - fo < 4096:
                    got = e.data[fo:end + 1]
            results.append(((o, k, off, kind), ptr, exp, got, None))
    return results


def all_distinct_strings(scn, out_name):
    out = set()
    for secs in scn["objs"]:
        for sec in secs:
            if sec["name"] == out_name:
                out |= {s.encode() + b"\0" for s in sec["strings"]}
    return out
