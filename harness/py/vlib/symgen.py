"""Input generators shared by the symbol-table checks (C31, C32, C37): small x86-64 assembly
objects with chosen symbol attributes, helper shared libraries (always linked by GNU ld so that
they do not depend on the code under test), archives, and a three-linker runner."""
import hashlib
import os
import threading
from concurrent.futures import ThreadPoolExecutor
from pathlib import Path

from . import asm
from .common import ToolError, run_wild, sh

BIND_DIRECTIVE = {"GLOBAL": ".globl", "WEAK": ".weak", "LOCAL": None}
VIS_DIRECTIVE = {"DEFAULT": None, "PROTECTED": ".protected", "HIDDEN": ".hidden", "INTERNAL": ".internal"}


def ident(name, where):
    """The identity bytes placed at a definition: reading them back at st_value tells which
    definition (of which file) a symbol table entry describes."""
    return f"<ID:{name}@{where}>"


def define(name, where, bind="GLOBAL", vis="DEFAULT", typ="FUNC", size=None):
    """Assembly for one definition.  FUNC definitions go to .text, OBJECT to .data; the body is the
    identity string (never executed)."""
    body = ident(name, where)
    lines = [".text" if typ == "FUNC" else ".data"]
    if BIND_DIRECTIVE[bind]:
        lines.append(f"{BIND_DIRECTIVE[bind]} {name}")
    if VIS_DIRECTIVE[vis]:
        lines.append(f"{VIS_DIRECTIVE[vis]} {name}")
    lines.append(f".type {name},@{'function' if typ == 'FUNC' else 'object'}")
    lines.append(f"{name}:")
    lines.append(f'    .ascii "{body}"')
    lines.append(f".size {name},{size if size is not None else len(body)}")
    return "\n".join(lines) + "\n"


_locks = {}
_locks_guard = threading.Lock()


def _lock_for(path):
    """One lock per target file: a cached input is built exactly once and never replaced afterwards
    (a linker may already be reading it)."""
    with _locks_guard:
        return _locks.setdefault(str(path), threading.Lock())


def cached_obj(d, text, stem="o"):
    """Assemble `text` once per distinct content inside directory d."""
    h = hashlib.sha1(text.encode()).hexdigest()[:12]
    o = Path(d) / f"{stem}_{h}.o"
    with _lock_for(o):
        if o.exists():
            return o
        # atomic (several threads may want the same object): build under a private name, then rename
        tag = f"{os.getpid()}_{threading.get_ident()}"
        s = Path(d) / f"{stem}_{h}.{tag}.s"
        tmp = Path(d) / f"{stem}_{h}.{tag}.o.tmp"
        s.write_text(text)
        asm.assemble(s, tmp)
        os.replace(s, o.with_suffix(".s"))
        os.replace(tmp, o)
    return o


def shared_lib(d, filename, soname, text, extra=None):
    """A helper shared library linked by GNU ld."""
    so = Path(d) / filename
    with _lock_for(so):
        if so.exists():
            return so
        o = cached_obj(d, text, stem=Path(filename).stem)
        tmp = Path(d) / f"{filename}.{os.getpid()}_{threading.get_ident()}.tmp"
        asm.gnu_ld(["-shared", "-soname", soname, "-o", tmp, o] + (extra or []), check=True)
        os.replace(tmp, so)
        return so


def cached_archive(d, member, stem="lib"):
    a = Path(d) / f"{stem}_{Path(member).stem}.a"
    with _lock_for(a):
        if not a.exists():
            tmp = Path(d) / f"{a.name}.{os.getpid()}_{threading.get_ident()}.tmp"
            asm.archive(tmp, [member])
            os.replace(tmp, a)
    return a


LINKERS = ("wild", "ld", "lld")


def link(linker, args, timeout=60):
    """One link. The reference linkers are retried once on a timeout (the machine may be heavily
    loaded); a timeout of wild is returned as it is (it is data)."""
    if linker == "wild":
        return run_wild(args, timeout=timeout)
    fn = {"ld": asm.gnu_ld, "lld": asm.lld}.get(linker)
    if fn is None:
        raise ToolError(linker)
    r = fn(args, timeout=timeout)
    if r.timed_out:
        r = fn(args, timeout=4 * timeout)
    return r


def run_jobs(fn, jobs, workers=8):
    with ThreadPoolExecutor(max_workers=workers) as ex:
        return list(ex.map(fn, jobs))


def gnu_or_lld_available():
    for tool in ("ld", "ld.lld", "as", "ar"):
        r = sh(["which", tool], timeout=10)
        if r.rc != 0:
            raise ToolError(f"required tool missing: {tool}")


def tlc_parallel(calls):
    """Run several TLC jobs concurrently. calls: list of (args tuple, kwargs dict) for tlc.run_tlc.
    Returns the results in order; exceptions (ToolError) propagate."""
    from . import tlc as _tlc
    with ThreadPoolExecutor(max_workers=len(calls)) as ex:
        futs = [ex.submit(_tlc.run_tlc, *a, **kw) for a, kw in calls]
        return [f.result() for f in futs]
